"""
C03 — Bent-plume element budgets close exactly at every state.

proof        : TamocV/Props/C03.lean over the hand model TamocV/Model/Lmp.lean (`derivs env ps`,
               transcription of lmp.derivs l.20-184): compound / heat / mass-salt-momentum budgets,
               out-of-plume particles contribute zeros, vector layout — for every particle list.
tie          : (H) value correspondence: REAL LagElement pairs along short real simulations and random
               perturbations of the state; the real lmp.derivs vector is compared slot by slot with the
               Lean model executed at Float on the closure values read back from the real objects and
               from the real lmp.entrainment / lmp.track_particles.
real code    : every budget identity is also evaluated directly on the real vector.
"""
import math
import copy
import warnings
import numpy as np

from common import req, close, TOL, run_driver
import scen_bpm

META = {
    'text': 'PROVED (Lean 4, reals, induction over ANY particle list / number of compounds) about a line-by-line model of '
            'lmp.derivs: per compound, mass-slot derivatives of all particles + dissolved slot = md/rho_a*ca - sum over '
            'soluble particles inside the plume of k_bio*m*nbe*dtp - k_bio_e*cpe; element heat slot + particle heat slots = '
            'md*cp*Ta + heat of solution; a vector with a particle outside the plume is the vector without it with nc+5 '
            'zeros inserted; length 11+sum(nc_i+5)+nchems+ntracers; tracer slots; and about the transcribed closures: '
            'entrainment = max(shear, forced), dtp >= 0, p_fac >= 0, zero buoyant force outside the plume. Slots 0,1,3,4 = md, '
            'md*Sa, md*ua, md*va and the zero block of an outside particle are definitional read-backs of the model. '
            'SAMPLED on the real code, every state: (a) model == lmp.derivs slot by slot; (b) every budget on the real '
            'vector, judged against ambient values the HARNESS looks up at the element depth (profile.get_values, '
            'seawater.density) and element values it derives from the packed state; (c) LagElement.update, Particle.track, '
            'the buoyant force, lmp.entrainment (with shear_entrainment) and lmp.track_particles against their Lean '
            'transcriptions evaluated on those oracle inputs; (d) each particle heat slot against its own mass slots; '
            '(e) real re-evaluations with the particle list reordered / shortened by an outside particle.',
    'note': 'Trusted: Lean kernel + 3 standard axioms; my transcriptions (validated by (a),(c)); real arithmetic for IEEE doubles. '
            'Library values taken as given (other properties): profile interpolation (C07), seawater.density/cp (C13), dbm particle '
            'properties us, rho_p, A, Cs, beta, beta_T, T, k_bio (C09/C17). Precondition of tamoc, not checked: all soluble '
            'particles of one simulation share one composition list (LagElement/derivs align arrays by position; differing '
            'lists raise or mis-align in NumPy). Shape hypotheses WfE/WfP of the theorems state exactly that. Known findings on '
            '/repo: element-kbio-from-last-particle, inert-heat-loss-nchems-broadcast.',
    'technique': 'Lean 4 proof over hand models of assembly and closures + differential execution against the real code with an independent oracle for the closures',
}
GEN = []
MODULES = ['TamocV.Props.C03', 'TamocV.Model.Lmp']
RULE = ('states = (previous row, current row) pairs of real bent_plume_model simulations (random scenario: 100-2500 m, 0-6 '
        'particles gas/liquid/inert, jet or pure multiphase, any orientation, currents none/uniform/sheared with optional wa, '
        'background concentrations none/some/all, a quarter of the scenarios use ONE Profile object in two stages (currents and some backgrounds appended with Profile.append after the element has queried it; every state evaluated before and after; floor 10 % of the states after the append), stripping set-up in half of the scenarios with soluble particles (soluble particles list oxygen / nitrogen / CO2 or one of their own compounds with mole fraction exactly 0 while the water holds it; floor 15 % of the states), biodegradation none/random/database, lag time on/off, s/D up to 3-400, '
        'first and last stored row always included), unperturbed and randomly perturbed (element mass/salt/heat, momentum '
        'magnitude and direction incl. vertical, depth, arc length incl. ds=0, particle masses incl. zero, heats, ages, '
        'positions inside and outside the half-width, dissolved pool, tracers), each with random in/out-of-plume flags given '
        'both as in a live run (integrate flag, sim_stored False, FINITE coordinates of the retired particle beyond or inside the half-width; floor 10 % of the states) and as on a stored row (NaN-marked positions, sim_stored True); floors on every regime are obligations; a state '
        'is non-trivial when its (scenario, row, perturbation) key is new and md != 0')
LEVEL_NOTE = ('theorems over the reals about my transcriptions of lmp.derivs and of its closures (Model/Lmp.lean); tied to /repo on '
              'every generated state by slot-by-slot comparison and by an independent oracle for the closure values; the '
              'profile, seawater and dbm libraries and floating point are trusted here')


def audit_files():
    return ['TamocV/Num.lean', 'TamocV/Real.lean', 'TamocV/Model/Lmp.lean', 'TamocV/Lemmas/C03.lean',
            'TamocV/Props/C03.lean']


# ---------------------------------------------------------------------------------------------
# state generation
# ---------------------------------------------------------------------------------------------

def _scenario(ctx, i):
    r = ctx.rng
    npart = [0, 1, 2, 3, 4, 5, 6][i % 7] if i < 7 else r.randint(0, 6)
    mix = ['gas+inert', 'oil+inert', 'gas', 'oil', 'inert'][i % 5] if i < 10 else 'random'
    scn = scen_bpm.random_scenario(r, nparticles=npart, mix=mix)
    if i % 4 in (1, 2, 3) and any(sp['kind'] != 'inert' for sp in scn['particles']):
        # stripping set-up (seeded change C03-3): soluble particles list compounds with mole fraction EXACTLY 0 at the
        # release while the water holds them (background at every depth, hence also in the dissolved pool)
        zero = scen_bpm.add_zero_fraction(r, scn['particles'], n_extra=r.choice([1, 1, 2]))
        H = scn['profile']['H']
        for ch in zero:
            c0 = 10 ** r.uniform(-4, -2)
            scn['profile']['background'][ch] = [c0 * r.uniform(0.3, 1.), c0]
        scn['zero_fraction'] = zero
    # LagElement.update leaves the k_bio of the LAST particle on the element: make a soluble particle the last
    # one in half of the scenarios so that the dissolved-pool biodegradation term is exercised
    sol = [j for j, sp in enumerate(scn['particles']) if sp['kind'] != 'inert']
    if sol and r.random() < 0.5:
        scn['particles'].append(scn['particles'].pop(r.choice(sol)))
    if i % 4 == 2 and scn['particles']:
        # two-stage use of one Profile object (seeded change C03-6): currents and the background of some compounds are
        # appended AFTER the element has already looked the ambient up
        if not scn['profile'].get('current'):
            sp_, an_ = r.uniform(0.05, 0.3), r.uniform(0., 2. * math.pi)
            H_ = scn['profile']['H']
            scn['profile']['current'] = {'nodes': [[0., sp_ * math.cos(an_), sp_ * math.sin(an_), 0.], [H_, 0.5 * sp_ * math.cos(an_), sp_ * math.sin(an_), 0.]], 'wa': False}
        for sp in scn['particles']:
            if sp['kind'] != 'inert':
                for ch in sp['composition']:
                    if ch not in scn['profile']['background']:
                        c0 = 10 ** r.uniform(-5, -2)
                        scn['profile']['background'][ch] = [c0 * r.uniform(0.3, 1.), c0]
                break
        scn['append_later'] = scen_bpm.split_profile(r, scn)
    # short trajectories: a handful of stored rows is enough
    scn['release']['sd_max'] = r.choice([r.uniform(3., 40.), r.uniform(3., 40.), r.uniform(40., 400.)])
    scn['release']['dt_max'] = 10 ** r.uniform(0.5, 2.)
    return scn


def _perturb(r, q, lay, q_prev, b, kinds, zero_slots=()):
    """random perturbation of the packed state (quantifier of C03); returns (q', tag)"""
    q = np.array(q, dtype=float)
    tags = []
    if r.random() < 0.6:
        f = r.uniform(0.6, 1.6)                      # element mass (salt, heat, momentum follow)
        q[0:6] *= f
        tags.append('M')
    if r.random() < 0.4:
        q[1] *= r.uniform(0.97, 1.03)                # salinity
        q[2] *= 1. + r.uniform(-0.01, 0.01)          # temperature (about +-3 K)
        tags.append('ST')
    if r.random() < 0.6:
        J = np.array(q[3:6])
        mag = float(np.linalg.norm(J)) * r.uniform(0.5, 2.)
        u = r.random()
        if u < 0.15:
            d = np.array([0., 0., r.choice([-1., 1.])])              # purely vertical: hvel == 0 branch
        else:
            d = np.array([r.gauss(0, 1), r.gauss(0, 1), r.gauss(0, 1)])
            d /= np.linalg.norm(d)
        q[3:6] = mag * d
        tags.append('J')
    if r.random() < 0.3:
        q[9] = max(1., q[9] + r.uniform(-30., 30.))  # depth
        tags.append('z')
    u = r.random()
    if u < 0.15:
        q[10] = q_prev[10]                           # ds == 0 branch of track_particles
        tags.append('ds0')
    elif u < 0.4:
        q[10] = q_prev[10] + abs(q[10] - q_prev[10]) * r.uniform(0.01, 3.) + r.choice([0., 1e-6 * b])
        tags.append('s')
    for i, sl in enumerate(lay['particles']):
        a, e = sl['m']
        if r.random() < 0.6:
            oldm = float(np.sum(q[a:e]))
            if kinds[i] == 'inert':
                q[a:e] *= r.uniform(0.2, 1.5)
            else:
                q[a:e] *= np.array([r.choice([r.uniform(0.2, 1.5), r.uniform(0.2, 1.5), 1e-9, 0.]) for _ in range(e - a)])
                if float(np.sum(q[a:e])) <= 0. and r.random() < 0.7:
                    q[a] = oldm * 0.1
            newm = float(np.sum(q[a:e]))
            q[sl['H']] *= (newm / oldm) if oldm > 0 else 0.   # keep the particle temperature
            tags.append('m')
        if r.random() < 0.4:
            q[sl['H']] *= 1. + r.uniform(-0.02, 0.05)         # particle temperature
            tags.append('Hp')
        if r.random() < 0.6 and not np.isnan(q[sl['X'][0]]):
            rad = b * r.choice([r.uniform(0., 0.95), r.uniform(0., 0.95), r.uniform(1.0, 1.6)])
            ang = r.uniform(0., 2 * math.pi)
            q[sl['X'][0]] = 0.
            q[sl['X'][0] + 1] = rad * math.cos(ang)
            q[sl['X'][0] + 2] = rad * math.sin(ang)
            tags.append('X')
        if r.random() < 0.3:
            q[sl['t']] = q[sl['t']] * r.uniform(0., 3.) + r.choice([0., 20., 1e5])   # particle age (lag time, hydrate)
            tags.append('tp')
    if zero_slots and r.random() < 0.8:
        # compounds a particle lists with mole fraction 0 at the release: back to exactly zero mass, or a tiny negative
        # mass that PlumeParticle.properties clips to zero (the solver overshoots about zero)
        for j in zero_slots:
            q[j] = r.choice([0., 0., -1e-12 * abs(q[0])])
        tags.append('m0')
    a, e = lay['chems']
    if e > a and r.random() < (0.2 if zero_slots else 0.6):
        q[a:e] = np.array([r.choice([0., q[j] * r.uniform(0., 10.), q[0] / 1000. * 10 ** r.uniform(-7, -3)]) for j in range(a, e)])
        tags.append('c')
    a, e = lay['tracers']
    if e > a and r.random() < 0.5:
        q[a:e] *= np.array([r.uniform(0., 5.) for _ in range(e - a)])
        tags.append('tr')
    return q, '+'.join(tags) if tags else 'none'


def _read_closures(tam, q, q0l, q1l, p, particles, lay):
    """everything lmp.derivs reads, taken from the REAL objects after the real call"""
    lmp, seawater = tam['lmp'], tam['seawater']
    md = lmp.entrainment(q0l, q1l, p)
    fe, up, dtp = lmp.track_particles(q0l, q1l, md, particles)
    nch = int(q1l.nchems)
    if nch > 0:
        kb = np.asarray(q1l.k_bio, dtype=float)
        kb = np.full(nch, float(kb)) if kb.ndim == 0 else kb
    else:
        kb = np.zeros(0)
    env = {
        's': [float(md), float(q1l.Sa), float(q1l.Ta), float(q1l.ua), float(q1l.va), float(q1l.wa), float(seawater.cp()),
              float(p.g), float(p.gamma), float(p.rho_r), float(p.Ru), float(q1l.Fb), float(q1l.M), float(q1l.rho),
              float(q1l.rho_a), float(q1l.u), float(q1l.v), float(q1l.w), float(q1l.V), float(q1l.T), float(fe)],
        'nchems': nch, 'chem_names': [str(x) for x in q1l.chem_names],
        'c_chems': np.asarray(q1l.c_chems, dtype=float), 'ca_chems': np.asarray(q1l.ca_chems, dtype=float),
        'cpe': np.asarray(q1l.cpe, dtype=float), 'k_bio': kb, 'ca_tracers': np.asarray(q1l.ca_tracers, dtype=float),
    }
    ps = []
    for i, pt in enumerate(particles):
        sl = lay['particles'][i]
        sol = bool(pt.particle.issoluble)
        ps.append({
            'integrate': bool(pt.integrate), 'issoluble': sol, 'nc': int(pt.particle.nc),
            'composition': [str(x) for x in pt.composition],
            's': [float(pt.A), float(pt.nbe), float(pt.rho_p), float(pt.cp), float(pt.beta_T), float(pt.T), float(dtp[i]),
                  float(up[i, 1]), float(up[i, 2]), float(q[sl['X'][0] + 1]), float(q[sl['X'][0] + 2])],
            'beta': np.atleast_1d(np.asarray(pt.beta, dtype=float)), 'Cs': np.atleast_1d(np.asarray(pt.Cs, dtype=float)),
            'k_bio': np.atleast_1d(np.asarray(pt.k_bio, dtype=float)), 'm': np.atleast_1d(np.asarray(pt.m, dtype=float)),
            'negdH': np.asarray(pt.particle.neg_dH_solR, dtype=float) if sol else np.zeros(0),
            'M': np.asarray(pt.particle.M, dtype=float) if sol else np.zeros(0),
        })
    return env, ps


def _encode(env, ps):
    args = [env['s'], int(env['nchems']), env['c_chems'], env['ca_chems'], env['cpe'], env['k_bio'], env['ca_tracers']]
    for p in ps:
        args += [int(p['integrate']), int(p['issoluble']), int(p['nc']), p['s'], p['beta'], p['Cs'], p['k_bio'], p['m'],
                 p['negdH'], p['M']]
    return req('Lmp.derivs', *args)


# ---------------------------------------------------------------------------------------------
# the property predicates, evaluated on the REAL vector
# ---------------------------------------------------------------------------------------------

def _state_mass(q, sl, p, c):
    """mass of compound slot c of a particle class IN THE ELEMENT, i.e. the state slot itself; a soluble class with positive
    total mass has negative overshoots counted as 0 (PlumeParticle.properties, `m[m<0] = 0.`)"""
    a, e = sl['m']
    if p['issoluble'] and float(np.sum(q[a:e])) > 0.:
        return max(float(q[a + c]), 0.)
    return float(q[a + c])


def predict_kbio(scn, q, lay, parts):
    """first-order rate constants each particle class must be using, from the SCENARIO SPEC: k_bio[c] when there is no lag
    time or the particle's age (its age slot of the state) has reached t_bio[c], else 0; all zero for a class without
    mass.  Spec entries 'None' mean "the tamoc database values": those are read from the dbm object's static tables
    (documented, not independent)."""
    out = []
    for i, (sp, pt) in enumerate(zip(scn['particles'], parts)):
        sl = lay['particles'][i]
        a, e = sl['m']
        age = float(q[sl['t']])
        kb = np.atleast_1d(np.asarray(sp['k_bio'] if sp.get('k_bio') is not None else pt.particle.k_bio, dtype=float)).copy()
        tb = np.atleast_1d(np.asarray(sp['t_bio'] if sp.get('t_bio') is not None else pt.particle.t_bio, dtype=float))
        if sp['lag_time']:
            kb = np.where(tb > age, 0., kb)
        msum = float(np.sum(np.where(q[a:e] < 0., 0., q[a:e]))) if sp['kind'] != 'inert' else float(np.sum(q[a:e]))
        if not (float(np.sum(q[a:e])) > 0.) or not (msum > 0.):
            kb = np.zeros(e - a)
        out.append(kb)
    return out


def budgets(qp, env, ps, lay, q=None, kb=None):
    """list of (key, lhs, rhs, scale): lhs must equal rhs within TOL['identity']*scale.  With `q` the biodegrading mass is
    the state slot itself (not the Particle object's m*nbe); with `kb` the particle rate constants are those predicted
    from the scenario spec (predict_kbio), not the objects' own."""
    s = env['s']
    md, Sa, Ta, ua, va, cpw, rho_a, Ru = s[0], s[1], s[2], s[3], s[4], s[6], s[14], s[10]
    out = []
    out.append(('mass', qp[0], md, abs(md)))
    out.append(('salt', qp[1], md * Sa, abs(md * Sa)))
    out.append(('x-momentum', qp[3], md * ua, abs(md * ua)))
    out.append(('y-momentum', qp[4], md * va, abs(md * va)))
    a_c, e_c = lay['chems']
    names = env.get('chem_names', [])
    # compounds, matched BY NAME: the particle-side term of compound X sits in the particle's own composition.index(X) slot,
    # the pool / element-biodegradation term in the element's chem_names.index(X) slot, the ambient concentration is the
    # profile's value for the NAME X (env['ca_by_name'] when the oracle supplies it)
    tracked = []
    for p in ps:
        if p['issoluble']:
            tracked += [x for x in p['composition'] if x not in tracked]
    for X in tracked:
        if X not in names:
            out.append(('compound', float('nan'), 0., 1.))        # a dissolving compound without a pool slot
            continue
        e = names.index(X)
        ca = env['ca_by_name'][X] if 'ca_by_name' in env else env['ca_chems'][e]
        lhs, scale = qp[a_c + e], abs(qp[a_c + e])
        ent = md / rho_a * ca
        rhs = ent - env['k_bio'][e] * env['cpe'][e]
        scale += abs(ent) + abs(env['k_bio'][e] * env['cpe'][e])
        for i, p in enumerate(ps):
            if not p['issoluble'] or X not in p['composition']:
                continue
            c = p['composition'].index(X)
            a, _e = lay['particles'][i]['m']
            lhs += qp[a + c]
            scale += abs(qp[a + c])
            if p['integrate']:
                kk = kb[i][c] if kb is not None else p['k_bio'][c]
                mass = _state_mass(q, lay['particles'][i], p, c) if q is not None else p['m'][c] * p['s'][1]
                bio = kk * mass * p['s'][6]
                rhs -= bio
                scale += abs(bio)
        out.append(('compound', lhs, rhs, scale))
    # heat
    lhs, scale = qp[2], abs(qp[2])
    rhs = md * cpw * Ta
    scale += abs(rhs)
    for i, p in enumerate(ps):
        h = qp[lay['particles'][i]['H']]
        lhs += h
        scale += abs(h)
        if p['integrate'] and p['issoluble']:
            A, nbe, dtp = p['s'][0], p['s'][1], p['s'][6]
            # concentration of the particle's j-th compound in the plume water, by name
            cw = np.array([env['c_chems'][names.index(x)] if x in names else float('nan') for x in p['composition']])
            diss = A * nbe * p['beta'] * (p['Cs'] - cw) * dtp          # mass leaving the particle per compound
            hs = float(np.sum(diss * p['negdH'] * Ru / p['M']))
            rhs += hs
            scale += float(np.sum(np.abs(diss * p['negdH'] * Ru / p['M'])))
    out.append(('heat', lhs, rhs, scale))
    # inert mass: biodegradation only
    for i, p in enumerate(ps):
        if (not p['issoluble']) and p['integrate']:
            a, _e = lay['particles'][i]['m']
            kk = kb[i] if kb is not None else p['k_bio']
            mass = np.array([_state_mass(q, lay['particles'][i], p, 0)]) if q is not None else p['m'] * p['s'][1]
            rhs = -float(np.sum(kk * mass)) * p['s'][6]
            out.append(('inert-mass', qp[a], rhs, abs(rhs)))
    # passive tracers: entrainment only
    a, e = lay['tracers']
    for j in range(e - a):
        rhs = md / rho_a * env['ca_tracers'][j]
        out.append(('tracer', qp[a + j], rhs, abs(rhs)))
    return out


def _oracle_env(env, ind):
    """the closure record with every ambient / element value replaced by the harness-evaluated one: the budgets are
    judged against the ambient AT THE ELEMENT, not against whatever the code looked up"""
    e = dict(env)
    s = list(env['s'])
    s[1], s[2], s[3], s[4], s[5], s[14] = ind['Sa'], ind['Ta'], ind['ua'], ind['va'], ind['wa'], ind['rho_a']
    e['s'] = s
    e['ca_chems'], e['ca_tracers'], e['c_chems'] = ind['ca_chems'], ind['ca_tracers'], ind['c_chems']
    e['ca_by_name'] = ind['ca_by_name']
    return e


def outside_nonzero(qp, ps, lay):
    bad = []
    for i, p in enumerate(ps):
        if not p['integrate']:
            a = lay['particles'][i]['m'][0]
            blk = qp[a:a + p['nc'] + 5]
            if np.any(blk != 0.):
                bad.append((i, [float(x) for x in blk]))
    return bad


def _slot_scales(env, ps, lay, qp):
    """absolute scale of the terms that are added/subtracted in each slot (for slots with cancellation)"""
    sc = np.abs(np.array(qp, dtype=float))
    s = env['s']
    heat = abs(s[0] * s[6] * s[2])
    for i, p in enumerate(ps):
        if p['integrate']:
            sl = lay['particles'][i]
            A, nbe, rho_p, cp, beta_T, T, dtp = p['s'][0:7]
            hterm = abs(A * nbe * rho_p * cp * beta_T * (T - s[19]) * dtp) + abs(T) * abs(cp) * float(np.sum(np.abs(qp[sl['m'][0]:sl['m'][1]])))
            if p['issoluble']:
                d = np.abs(A * nbe * p['beta'] * (p['Cs'] - env['c_chems']) * dtp)
                b = np.abs(p['k_bio'] * p['m'] * nbe * dtp)
                sc[sl['m'][0]:sl['m'][1]] += d + b
                hterm += abs(T) * abs(cp) * float(np.sum(d + b)) + float(np.sum(d * np.abs(p['negdH']) * s[10] / p['M']))
            else:
                hterm += abs(T) * abs(cp) * max(env['nchems'], 1) * float(np.sum(np.abs(p['k_bio'] * p['m'] * nbe * dtp)))
            sc[sl['H']] += hterm
            heat += hterm
            sc[sl['X'][0] + 1] += abs(p['s'][7] * dtp) + abs(s[20] * p['s'][9] * dtp)
            sc[sl['X'][0] + 2] += abs(p['s'][8] * dtp) + abs(s[20] * p['s'][10] * dtp)
    sc[2] += heat
    sc[5] += abs(s[7] / (s[8] * s[9]) * s[11]) + abs(s[7] / (s[8] * s[9]) * s[12] * s[14]) + abs(s[0] * s[5])
    a, e = lay['chems']
    for c in range(e - a):
        dm = 0.
        for i, p in enumerate(ps):
            if p['integrate'] and p['issoluble']:
                A, nbe, dtp = p['s'][0], p['s'][1], p['s'][6]
                dm += abs(A * nbe * p['beta'][c] * (p['Cs'][c] - env['c_chems'][c]) * dtp)
        sc[a + c] += abs(s[0] / s[14] * env['ca_chems'][c]) + dm + abs(env['k_bio'][c] * env['cpe'][c])
    return sc


# ---------------------------------------------------------------------------------------------


# ---------------------------------------------------------------------------------------------
# closures against the independent oracle
# ---------------------------------------------------------------------------------------------

def _cl(a, b, scale=0.):
    return close(float(a), float(b), TOL['gen_vs_source'], abs_floor=TOL['gen_vs_source'] * abs(scale) + TOL['abs_floor'])


def closure_checks_python(ctx, case, res):
    """the ambient the budgets entrain must be the ambient AT THE ELEMENT's depth; element salinity / temperature /
    density / concentrations must be those of the packed state; Cartesian particle positions must be the rotated
    local ones; a particle outside the plume exerts no buoyant force"""
    real, ind = res['real'], res['ind']
    bad = []
    for n in ('Pa', 'Ta', 'Sa', 'ua', 'va', 'wa', 'rho_a', 'rho', 'S', 'T'):
        if not _cl(real[n], ind[n]):
            bad.append((n, real[n], float(ind[n])))
    for n in ('ca_chems', 'ca_tracers', 'c_chems'):
        a, b = np.asarray(real[n], dtype=float), np.asarray(ind[n], dtype=float)
        if a.shape != b.shape or not all(_cl(x, y) for x, y in zip(a, b)):
            bad.append((n, [float(x) for x in a], [float(x) for x in b]))
    if bad:
        ctx.violation('closure-ambient', 'LagElement.update hands lmp.derivs ambient / element values that are not those of the profile at the element depth and of the packed state: '
                      + ', '.join(b[0] for b in bad), dict(case, differing=[(b[0], b[1], b[2]) for b in bad], depth=float(res['q'][9])))
    if ind['x_p'] is not None:
        for i, p in enumerate(res['ps']):
            if p['integrate'] and np.all(np.isfinite(ind['x_p'][i])):
                sc = float(np.sum(np.abs(res['q'][7:10]))) + float(np.sum(np.abs(ind['x_p'][i] - res['q'][7:10])))
                if not all(_cl(x, y, 100. * sc) for x, y in zip(real['x_p'][i], ind['x_p'][i])):
                    ctx.violation('closure-particle-position', 'Particle.track does not place the particle at centreline + rotated local coordinates',
                                  dict(case, particle=i, code=[float(x) for x in real['x_p'][i]], oracle=[float(x) for x in ind['x_p'][i]]))
    for i, p in enumerate(res['ps']):
        if not p['integrate'] and real['fb'][i] != 0.:
            ctx.violation('outside-particle-contributes', 'a particle outside the plume contributes to the buoyant force Fb of the element',
                          dict(case, particle=i, fb=float(real['fb'][i]), p_fac=real['p_fac'][i]))
    return not bad


def closure_checks_lean(ctx, case, res, o):
    """compare the Lean transcription (fed with oracle values) with what the real closures returned"""
    real, env, ps = res['real'], res['env'], res['ps']
    if not (isinstance(o, list) and len(o) == 7):
        return 'driver answered %r' % (o,)
    elem, mds, dtp, up, pf, fb, Fb = o
    msgs = []
    fin = np.all(np.isfinite(res['q'][:11])) and np.all(np.isfinite(res['q_prev'][:11]))
    for n, mv in zip(ELEM_NAMES, elem):
        if not _cl(mv, real[n]):
            msgs.append(('element', n, float(mv), real[n]))
    md_s, md_f, md, fe = mds
    sc = abs(md_s) + abs(md_f)
    if fin and math.isfinite(sc):
        if not _cl(md, env['s'][0], 1e3 * sc):
            msgs.append(('md', 'entrainment', float(md), env['s'][0]))
        if not _cl(fe, env['s'][20], 0.):
            # fe = md / (...): inherits the md tolerance
            if not close(float(fe), float(env['s'][20]), 1e3 * TOL['gen_vs_source'], abs_floor=1e3 * TOL['gen_vs_source'] * abs(fe)):
                msgs.append(('fe', 'entrainment frequency', float(fe), env['s'][20]))
    for i, p in enumerate(ps):
        xs = list(real['x_p0'][i]) + list(real['x_p'][i])
        if not np.all(np.isfinite(xs)):
            continue
        if not close(float(dtp[i]), float(p['s'][6]), 1e3 * TOL['gen_vs_source'], abs_floor=TOL['abs_floor']):
            msgs.append(('dtp', 'particle %d' % i, float(dtp[i]), p['s'][6]))
        for j, k in ((1, 7), (2, 8)):
            if not _cl(up[3 * i + j], p['s'][k]):
                msgs.append(('up', 'particle %d component %d' % (i, j), float(up[3 * i + j]), p['s'][k]))
        if not _cl(pf[i], real['p_fac'][i]):
            msgs.append(('p_fac', 'particle %d' % i, float(pf[i]), real['p_fac'][i]))
        if not _cl(fb[i], real['fb'][i]):
            msgs.append(('fb', 'particle %d' % i, float(fb[i]), float(real['fb'][i])))
    if not _cl(Fb, real['Fb'], float(np.sum(np.abs(real['fb'])))):
        msgs.append(('Fb', 'buoyant force', float(Fb), real['Fb']))
    for kind in sorted(set(m[0] for m in msgs)):
        ms = [m for m in msgs if m[0] == kind]
        ctx.violation('closure-' + kind, 'closure value returned by the real code differs from its transcription evaluated on independently obtained inputs (%s)'
                      % {'element': 'LagElement.update derived quantities', 'md': 'lmp.entrainment', 'fe': 'lmp.track_particles fe',
                         'dtp': 'lmp.track_particles dtp_dt', 'up': 'lmp.track_particles up', 'p_fac': 'Particle.track p_fac',
                         'fb': 'LagElement.update fb', 'Fb': 'LagElement.update Fb'}[kind],
                      dict(case, what=[(m[1], 'model', m[2], 'code', m[3]) for m in ms]))
    return msgs


# ---------------------------------------------------------------------------------------------
# property predicates that are not budgets
# ---------------------------------------------------------------------------------------------

def particle_heat_vs_mass(res):
    """each particle's heat slot = convective heat transfer + (its OWN total mass-slot derivative) * cp * T"""
    env, ps, lay, qp = res['env'], res['ps'], res['lay'], res['qp']
    out = []
    for i, p in enumerate(ps):
        if not p['integrate']:
            continue
        sl = lay['particles'][i]
        A, nbe, rho_p, cp, beta_T, T, dtp = p['s'][0:7]
        conv = -A * nbe * rho_p * cp * beta_T * (T - env['s'][19]) * dtp
        dm = float(np.sum(qp[sl['m'][0]:sl['m'][1]]))
        want = conv + dm * cp * T
        scale = abs(conv) + float(np.sum(np.abs(qp[sl['m'][0]:sl['m'][1]]))) * abs(cp * T) + abs(qp[sl['H']])
        out.append((i, float(qp[sl['H']]), float(want), float(scale), float(dm * cp * T)))
    return out


def _sub_state(q, lay, order):
    parts = [np.asarray(q[:11], dtype=float)]
    for i in order:
        sl = lay['particles'][i]
        parts.append(np.asarray(q[sl['m'][0]:sl['X'][1]], dtype=float))
    parts.append(np.asarray(q[lay['chems'][0]:], dtype=float))
    return np.concatenate(parts)


def order_checks(ctx, tam, bpm, prf, parts, case, res, t_prev, t):
    """the right-hand side must not depend on the ORDER of the particle list, and a particle outside the plume must
    be removable without changing any other slot (real re-evaluations with a permuted / shortened list)"""
    ps, lay, env = res['ps'], res['lay'], res['env']
    n = len(ps)
    if n < 2 or not np.all(np.isfinite(res['qp'])):
        return
    nch = env['nchems']
    alts = []
    if nch > 0:
        cand = [(p['k_bio'] if p['issoluble'] else np.zeros(nch)) * env['cpe'] for p in ps]
        sc = _slot_scales(env, ps, lay, res['qp'])[lay['chems'][0]:lay['chems'][1]]
        for j in range(n - 1):
            if np.any(np.abs(cand[j] - cand[-1]) > TOL['identity'] * sc + TOL['abs_floor']) and np.all(np.isfinite(cand[j])):
                alts.append(('reorder', [i for i in range(n) if i != j] + [j]))
                break
    outs = [i for i, p in enumerate(ps) if not p['integrate']]
    if outs:
        alts.append(('remove', [i for i in range(n) if i != outs[-1]]))
    for kind, order in alts:
        ctx.count('alt-evaluation:' + kind)
        try:
            with np.errstate(all='ignore'):
                r2 = eval_state(tam, bpm, prf, [parts[i] for i in order], _sub_state(res['q_prev'], lay, order), t_prev,
                                _sub_state(res['q'], lay, order), t, [case['flags'][i] for i in order], case['mode'])
        except Exception as e:
            ctx.count('alt-evaluation-rejected:' + type(e).__name__)
            continue
        qp1, qp2, lay2 = res['qp'], r2['qp'], r2['lay']
        sc1 = _slot_scales(env, ps, lay, qp1)
        sc1[5] += float(np.sum(np.abs(res['real']['fb']))) * abs(env['s'][7] / (env['s'][8] * env['s'][9]))
        pairs = [(j, j) for j in range(11)]
        for pos, i in enumerate(order):
            a1, a2 = lay['particles'][i]['m'][0], lay2['particles'][pos]['m'][0]
            pairs += [(a1 + d, a2 + d) for d in range(ps[i]['nc'] + 5)]
        pairs += [(lay['chems'][0] + d, lay2['chems'][0] + d) for d in range(len(qp1) - lay['chems'][0])]
        diff = [(j1, float(qp1[j1]), float(qp2[j2])) for j1, j2 in pairs
                if not close(float(qp1[j1]), float(qp2[j2]), TOL['identity'], abs_floor=TOL['identity'] * sc1[j1] + TOL['abs_floor'])]
        if not diff:
            continue
        a, e = lay['chems']
        only_dissolved = all(a <= d[0] < e for d in diff)
        k1, k2 = env['k_bio'], r2['env']['k_bio']
        explained = only_dissolved and all(
            close(d[2] - d[1], -(k2[d[0] - a] - k1[d[0] - a]) * env['cpe'][d[0] - a], 1e-6, abs_floor=TOL['identity'] * sc1[d[0]])
            for d in diff)
        info = dict(case, alternative=kind, order=order, differing_slots=diff[:8], element_k_bio=[float(x) for x in k1],
                    element_k_bio_alternative=[float(x) for x in k2], kinds=[('soluble' if p['issoluble'] else 'inert') + ('-in' if p['integrate'] else '-out') for p in ps])
        if explained:
            ctx.violation('element-kbio-from-last-particle',
                          'the biodegradation sink k_bio_e*cpe of the dissolved pool changes when the particle list is %s: LagElement.update takes k_bio of the LAST particle of the list (no integrate guard)'
                          % ('reordered' if kind == 'reorder' else 'shortened by a particle that is OUTSIDE the plume'), info)
        elif kind == 'remove':
            ctx.violation('outside-particle-contributes', 'removing a particle that is outside the plume changes other slots of the right-hand side', info)
        else:
            ctx.violation('particle-order-dependence', 'the right-hand side depends on the order of the particle list', info)


UNDER_TEST = {('lmp.py', 'derivs'), ('lmp.py', 'entrainment'), ('lmp.py', 'track_particles'), ('lmp.py', 'local_coords'),
              ('bent_plume_model.py', 'update'), ('bent_plume_model.py', 'track'), ('dispersed_phases.py', 'shear_entrainment')}


def _raised_under_test(exc):
    """name of the anchored function whose own body raised (innermost frame), else None: an exception raised inside a
    library the anchored code calls (dbm equations of state, fsolve, the ODE solver, the profile) is not C03's"""
    import traceback
    import os
    tb = traceback.extract_tb(exc.__traceback__)
    if not tb:
        return None
    key = (os.path.basename(tb[-1].filename), tb[-1].name)
    return '%s:%s' % key if key in UNDER_TEST else None


def _tamoc():
    from tamoc import lmp, seawater, bent_plume_model
    return {'lmp': lmp, 'seawater': seawater, 'bpm': bent_plume_model}


def _set_exit_record(pt):
    """a particle outside the plume carries the record written by correct_particle_tracking"""
    pt.te, pt.xe, pt.ye, pt.ze = pt.t, pt.x, pt.y, pt.z
    pt.me, pt.Te = pt.m, pt.T


def eval_state(tam, bpm, prf, parts, q_prev, t_prev, q, t, flags, mode):
    """call the REAL lmp.derivs on (q_prev -> q) with the given in/out flags; returns dict or raises"""
    q = np.array(q, dtype=float)
    lay = scen_bpm.layout(parts, len(bpm.chem_names), len(bpm.tracers))
    for i, pt in enumerate(parts):
        a = lay['particles'][i]['X'][0]
        if mode == 'stored':
            pt.sim_stored = True
            if not flags[i]:
                q[a:a + 3] = np.nan
            elif np.isnan(q[a]):
                q[a:a + 3] = 0.
        else:
            pt.sim_stored = False
            if flags[i] and np.isnan(q[a]):
                q[a:a + 3] = 0.
    # previous element (integrate flags of the previous row: all inside unless NaN-marked)
    for pt in parts:
        pt.integrate = True
    qp0 = np.array(q_prev, dtype=float)
    for i, pt in enumerate(parts):
        a = lay['particles'][i]['X'][0]
        if np.isnan(qp0[a]):
            # a particle that is inside the plume at q was inside at q_prev as well (it cannot re-enter): otherwise
            # its previous Cartesian position would be a stale exit record and dtp_dt would depend on the history of
            # the Particle object
            if mode == 'stored' and not flags[i]:
                pt.integrate = False
            else:
                qp0[a:a + 3] = 0.
        if not hasattr(pt, 'te'):
            _set_exit_record(pt)
    with scen_bpm.silence():
        q0l = tam['bpm'].LagElement(t_prev, qp0, bpm.D, prf, bpm.p, parts, bpm.tracers, bpm.chem_names)
    q1l = copy.deepcopy(q0l)
    for i, pt in enumerate(parts):
        _set_exit_record(pt)
        if mode != 'stored':
            pt.integrate = bool(flags[i])
    qp = tam['lmp'].derivs(t, q, q0l, q1l, prf, bpm.p, parts)
    qp = np.array(qp, dtype=float)
    env, ps = _read_closures(tam, q, q0l, q1l, bpm.p, parts, lay)
    # whether a particle is inside the plume is an INPUT of the evaluation: in a live run (sim_stored = False) it is the
    # integrate flag the loop set (the solver's own state keeps finite coordinates for a retired particle), on a stored
    # row it is the NaN mark.  What the code made of the flag is recorded separately
    flag_after = [bool(pt.integrate) for pt in parts]
    for i, p_ in enumerate(ps):
        p_['integrate'] = bool(flags[i]) if mode != 'stored' else (not bool(np.isnan(q[lay['particles'][i]['X'][0]])))
    # the slot map used by the budgets must be the one LagElement.update unpacks with
    unpack_ok = True
    for i, sl in enumerate(lay['particles']):
        a, e = sl['m']
        unpack_ok = unpack_ok and np.array_equal(np.asarray(q1l.M_p[i]), q[a:e], equal_nan=True) \
            and np.array_equal(np.atleast_1d(q1l.H_p[i]), np.atleast_1d(q[sl['H']]), equal_nan=True) \
            and np.array_equal(np.asarray(q1l.X_p[i]), q[sl['X'][0]:sl['X'][1]], equal_nan=True)
    a, e = lay['chems']
    unpack_ok = unpack_ok and np.array_equal(np.asarray(q1l.cpe), q[a:e], equal_nan=True)
    a, e = lay['tracers']
    unpack_ok = unpack_ok and (e == a or np.array_equal(np.asarray(q1l.cte), q[a:e], equal_nan=True))
    real = _real_snapshot(q0l, q1l, parts)
    ind = _independent(tam, prf, bpm, qp0, q, parts, lay)
    return {'q': q, 'q_prev': qp0, 'qp': qp, 'env': env, 'ps': ps, 'lay': lay, 'unpack_ok': bool(unpack_ok),
            'real': real, 'ind': ind, 'p': bpm.p, 'flag_after': flag_after}


ELEM_NAMES = ['S', 'T', 'u', 'v', 'w', 'hvel', 'V', 'h', 'b', 'sin_p', 'cos_p', 'sin_t', 'cos_t', 'phi', 'theta']


def _real_snapshot(q0l, q1l, parts):
    """what the REAL LagElement / Particle objects hold after the real call (to be compared with the oracle)"""
    d = {n: float(getattr(q1l, n)) for n in ELEM_NAMES}
    for n in ('Pa', 'Ta', 'Sa', 'ua', 'va', 'wa', 'rho_a', 'rho', 'Fb'):
        d[n] = float(getattr(q1l, n))
    d['ca_chems'] = np.asarray(q1l.ca_chems, dtype=float).copy()
    d['ca_tracers'] = np.asarray(q1l.ca_tracers, dtype=float).copy()
    d['c_chems'] = np.asarray(q1l.c_chems, dtype=float).copy()
    d['x_p'] = np.asarray(q1l.x_p, dtype=float).copy()
    d['x_p0'] = np.asarray(q0l.x_p, dtype=float).copy()
    d['fb'] = np.asarray(q1l.fb, dtype=float).copy()
    d['p_fac'] = [float(getattr(pt, 'p_fac', float('nan'))) for pt in parts]
    d['us'] = [float(pt.us) for pt in parts]
    d['rho_p'] = [float(pt.rho_p) for pt in parts]
    d['nbe'] = [float(pt.nbe) for pt in parts]
    return d


def _table_value(prf, z, name):
    """ambient reference: the HARNESS's raw table of the scenario (scen_bpm.profile_table: closed forms of the spec,
    extended by scen_bpm.append_later), interpolated by name -- nothing of the Profile object's own arrays, names or
    look-up code is read"""
    return scen_bpm.table_value(prf.verif_table, z, name)


def _ambient_at(tam, prf, bpm, z):
    """the ambient at depth z, looked up by the HARNESS by name in the profile table (seawater.density is a library
    function here: C13)"""
    Pa, Ta, Sa, ua, va, wa = [_table_value(prf, z, n) for n in ('pressure', 'temperature', 'salinity', 'ua', 'va', 'wa')]
    return {'Pa': Pa, 'Ta': Ta, 'Sa': Sa, 'ua': ua, 'va': va, 'wa': wa,
            'ca_chems': np.array([_table_value(prf, z, n) for n in bpm.chem_names], dtype=float),
            'ca_tracers': np.array([_table_value(prf, z, n) for n in bpm.tracers], dtype=float),
            'rho_a': float(tam['seawater'].density(Ta, Sa, Pa))}


def _independent(tam, prf, bpm, q_prev, q, parts, lay):
    """oracle for the closures, evaluated by the harness from the packed state and the profile only"""
    sw = tam['seawater']
    cpw = float(sw.cp())
    d = _ambient_at(tam, prf, bpm, q[9])
    d['S'], d['T'] = q[1] / q[0], q[2] / (q[0] * cpw)
    d['rho'] = float(sw.density(float(d['T']), float(d['S']), d['Pa']))
    allnames = []
    for pt in parts:
        if pt.particle.issoluble:
            allnames += [str(x) for x in pt.composition if str(x) not in allnames]
    # ambient concentration of every dissolving compound, asked from the profile BY NAME
    d['ca_by_name'] = {x: _table_value(prf, q[9], x) for x in allnames}
    a0 = _ambient_at(tam, prf, bpm, q_prev[9])
    d['rho_prev'] = float(sw.density(float(q_prev[2] / (q_prev[0] * cpw)), float(q_prev[1] / q_prev[0]), a0['Pa']))
    a, e = lay['chems']
    d['c_chems'] = np.asarray(q[a:e], dtype=float) / (q[0] / d['rho'])
    # Cartesian particle positions: rotation (l,n,m) -> (x,y,z) is the transpose of lmp.local_coords
    u, v, w = q[3] / q[0], q[4] / q[0], q[5] / q[0]
    hvel = math.sqrt(u * u + v * v)
    V = math.sqrt(hvel * hvel + w * w)
    if V > 0:
        sin_p, cos_p = w / V, hvel / V
        sin_t, cos_t = (0., 1.) if hvel == 0. else (v / hvel, u / hvel)
        A = np.array([[cos_p * cos_t, cos_p * sin_t, sin_p], [cos_t * sin_p, sin_t * sin_p, -cos_p], [sin_t, -cos_t, 0.]])
        d['x_p'] = [A.T.dot(np.asarray(q[sl['X'][0]:sl['X'][1]], dtype=float)) + np.asarray(q[7:10], dtype=float)
                    for sl in lay['particles']]
    else:
        d['x_p'] = None
    return d


def _closure_line(res, p):
    """request for the Lean transcription of LagElement.update (derived part), Particle.track, the buoyant force,
    lmp.entrainment and lmp.track_particles, fed with harness-evaluated ambient values and the packed states"""
    ind, real, lay, q = res['ind'], res['real'], res['lay'], res['q']
    args = [q[:11], res['q_prev'][:11], [ind['ua'], ind['va'], ind['wa'], ind['rho_a'], ind['rho'], ind['rho_prev']],
            [res['env']['s'][6], math.pi, float(p.g), float(p.alpha_j), float(p.alpha_Fr)]]
    for i, sl in enumerate(lay['particles']):
        X = q[sl['X'][0]:sl['X'][1]]
        args += [int(res['ps'][i]['integrate']), int(res['ps'][i]['issoluble']),
                 int(real['rho'] == real['rho_p'][i]),       # l.3240: exact comparison of the code's own two densities
                 [real['us'][i], real['nbe'][i], real['rho_p'][i], X[0], X[1], X[2]] + list(real['x_p0'][i]) + list(real['x_p'][i]),
                 q[sl['m'][0]:sl['m'][1]]]
    return req('Lmp.closures', *args)


def _case(scn, k, q_prev, t_prev, q, t, flags, mode, tag):
    return {'scenario': scn, 'row': k, 't_prev': float(t_prev), 'q_prev': [float(x) for x in q_prev], 't': float(t),
            'q': [float(x) for x in q], 'flags': [bool(f) for f in flags], 'mode': mode, 'perturbation': tag}


def run(ctx, lean_ok):
    warnings.filterwarnings('ignore')
    tam = _tamoc()
    r = ctx.rng
    nscn = ctx.n(24, 400)
    rows_per = ctx.n(4, 6)
    pert_per = ctx.n(4, 6)
    states = []        # (case, result)
    nfail_build = 0
    nstate_ok = nstate_rej = 0
    n_live_out = 0
    for i in range(nscn):
        scn = _scenario(ctx, i)
        try:
            bpm, prf, parts = scen_bpm.simulate(scn)
        except Exception as e:
            where = _raised_under_test(e)
            if where:                               # the anchored code itself raises on a valid scenario
                ctx.violation('raises:' + where, '%s raises %s during a simulation of a valid scenario: %s' % (where, type(e).__name__, e),
                              {'scenario': scn})
            # otherwise: raised inside a library (dbm, fsolve of the initial conditions, VODE): whether every valid
            # input completes is C20; counted, and bounded by the floor obligation below
            ctx.count('scenario-rejected:' + type(e).__name__)
            nfail_build += 1
            continue
        kinds = [sp['kind'] for sp in scn['particles']]
        ctx.count('particles=%d' % len(parts))
        ctx.count('biodeg=%s' % ('none' if not any((sp.get('k_bio') is None) or np.any(np.array(sp.get('k_bio')) > 0) for sp in scn['particles']) else 'yes'))
        ctx.count('background=%s' % ('yes' if scn['profile']['background'] else 'no'))
        ctx.count('current=%s' % ('yes' if scn['profile']['current'] else 'no'))
        nrow = len(bpm.t)
        ks = sorted(set([1, nrow - 1] + [r.randint(1, nrow - 1) for _ in range(rows_per - 1)]))
        t_all, q_all = np.array(bpm.t), np.array(bpm.q)
        lay0 = scen_bpm.layout(parts, len(bpm.chem_names), len(bpm.tracers))
        if lay0['len'] != q_all.shape[1]:
            ctx.violation('layout-length', 'state vector length is not 11 + sum(nc_i+5) + nchems + ntracers',
                          {'scenario': scn, 'expected': lay0['len'], 'got': int(q_all.shape[1])})
        appended = False
        zero_slots = [j for sl in lay0['particles'] for j in range(sl['m'][0], sl['m'][1])
                      if q_all[0, j] == 0. and sl['m'][1] - sl['m'][0] > 1] if scn.get('zero_fraction') else []
        stages = [1, 2] if scn.get('append_later') else [1]
        for stage, k, j in [(st, k, j) for st in stages for k in ([0] if zero_slots else []) + ks for j in range(pert_per)]:
            if True:
                if stage == 2 and not appended:
                    scen_bpm.append_later(prf, scn['append_later'])      # same Profile object, after it has been queried
                    appended = True
                q_prev, t_prev, q, t = q_all[max(k - 1, 0)], t_all[max(k - 1, 0)], q_all[k], t_all[k]
                if k == 0 and j > 0:
                    continue
                if j == 0:
                    tag = 'none'
                    # the flags the simulation itself had at that row
                    flags = [not np.isnan(q[sl['X'][0]]) for sl in lay0['particles']]
                    mode = 'stored'
                else:
                    Vel = float(np.linalg.norm(q[3:6])) / q[0]
                    b_guess = math.sqrt(q[0] / (1030. * math.pi * q[6] * Vel)) if Vel > 0 else 0.5 * bpm.D
                    q, tag = _perturb(r, q, lay0, q_prev, b_guess, kinds, zero_slots)
                    flags = [r.random() < 0.7 for _ in parts]
                    mode = r.choice(['stored', 'flag'])
                if mode == 'flag':
                    # as the SOLVER sees a retired particle: integrate = False, sim_stored = False, finite (l, n, m) in the
                    # state vector -- beyond the half-width (just retired) or inside it (retired earlier, element grew)
                    q = np.array(q, dtype=float)
                    Vel = float(np.linalg.norm(q[3:6])) / q[0]
                    bq = math.sqrt(q[0] / (1030. * math.pi * q[6] * Vel)) if Vel > 0 else 0.5 * bpm.D
                    for i_, sl in enumerate(lay0['particles']):
                        if not flags[i_]:
                            a_ = sl['X'][0]
                            if np.isnan(q[a_]) or r.random() < 0.5:
                                rad, ang = bq * r.choice([r.uniform(1.01, 1.6), r.uniform(0.1, 0.95)]), r.uniform(0., 2 * math.pi)
                                q[a_:a_ + 3] = [0., rad * math.cos(ang), rad * math.sin(ang)]
                            ctx.count('live-outside-particle-finite-coordinates:' + ('beyond-b' if math.hypot(q[a_ + 1], q[a_ + 2]) > bq else 'inside-b'))
                    if not all(flags):
                        n_live_out += 1
                case = _case(scn, k, q_prev, t_prev, q, t, flags, mode, tag)
                case['profile_stage'] = stage
                if stage == 2:
                    ctx.count('states-after-profile-append')
                try:
                    with np.errstate(all='ignore'):
                        res = eval_state(tam, bpm, prf, parts, q_prev, t_prev, q, t, flags, mode)
                except Exception as e:
                    where = _raised_under_test(e)
                    if where:
                        ctx.violation('raises:' + where, '%s raises %s on a state: %s' % (where, type(e).__name__, e), case)
                    # else: a perturbed state outside the domain of the dbm property routines (library): justified skip
                    ctx.count('state-rejected:' + type(e).__name__)
                    nstate_rej += 1
                    continue
                nstate_ok += 1
                res['kb_pred'] = predict_kbio(scn, res['q'], res['lay'], parts)
                with np.errstate(all='ignore'):
                    order_checks(ctx, tam, bpm, prf, parts, case, res, t_prev, t)
                states.append((case, res))
                ctx.count('mode=' + mode)
                for p in res['ps']:
                    ctx.count(('soluble' if p['issoluble'] else 'inert') + ('-in' if p['integrate'] else '-out'))
                sols = [p for p in res['ps'] if p['issoluble']]
                if sols:
                    ctx.count('states-with-soluble-particle')
                    if any(len(p['composition']) >= 2 and p['composition'] != sorted(p['composition']) for p in sols):
                        ctx.count('states-with-unsorted-composition')
                zc = zd = False
                for p in res['ps']:
                    if p['issoluble'] and p['integrate'] and float(np.sum(p['m'])) > 0 and len(p['m']) == res['env']['nchems']:
                        z = (np.asarray(p['m']) <= 0.) & (np.asarray(res['ind']['c_chems']) > 0.)
                        zc = zc or bool(np.any(z & (np.asarray(p['beta']) != 0.)))      # uptake from the water is active
                        zd = zd or bool(np.any(z & (np.asarray(p['beta']) == 0.)))      # used-up component, transfer switched off
                if zc:
                    ctx.count('zero-mass-component-taking-up-from-water')
                if zd:
                    ctx.count('zero-mass-component-used-up')
                if res['env']['nchems'] > 0 and np.any(res['env']['k_bio'] != 0):
                    ctx.count('element-k_bio-nonzero')
                elif any(p['issoluble'] and p['integrate'] and np.any(p['k_bio'] != 0) for p in res['ps']):
                    ctx.count('element-k_bio-zero-while-a-particle-biodegrades')
                if res['env']['s'][0] != 0. and np.all(np.isfinite(res['qp'][:11])):
                    ctx.nontrivial.add((i, k, j, stage))
    ctx.evaluations = len(states)
    for case, res in states[:3]:
        ctx.sample({'row': case['row'], 'perturbation': case['perturbation'], 'flags': case['flags'], 'mode': case['mode'],
                    'kinds': [sp['kind'] for sp in case['scenario']['particles']], 'md': res['env']['s'][0],
                    'derivs[0:6]': [float(x) for x in res['qp'][:6]]})
    if nfail_build:
        ctx.notes.append('%d scenarios rejected by the simulator before any state was produced' % nfail_build)
    ctx.oblige('floor: at least 85 %% of the scenarios simulated (%d of %d)' % (nscn - nfail_build, nscn),
               nscn - nfail_build >= 0.85 * nscn, 'rejected: %r' % {k: v for k, v in ctx.hist.items() if k.startswith('scenario-rejected')})
    ctx.oblige('floor: at least 90 %% of the generated states evaluated (%d of %d)' % (nstate_ok, nstate_ok + nstate_rej),
               nstate_ok >= 0.9 * (nstate_ok + nstate_rej) and nstate_ok >= ctx.n(300, 8000),
               'rejected: %r' % {k: v for k, v in ctx.hist.items() if k.startswith('state-rejected')})
    floors = {'soluble-in': 100, 'soluble-out': 30, 'inert-in': 50, 'inert-out': 15, 'element-k_bio-nonzero': 20, 'particles=0': 1,
              'particles=6': 1, 'mode=flag': 50, 'mode=stored': 50, 'alt-evaluation:remove': 30, 'alt-evaluation:reorder': 5}
    ctx.oblige('floor: at least 10 %% of the states are live-run states (sim_stored = False) with a retired particle that keeps FINITE coordinates (%d of %d)' % (n_live_out, nstate_ok + nstate_rej),
               n_live_out >= 0.10 * (nstate_ok + nstate_rej), '')
    floors['live-outside-particle-finite-coordinates:beyond-b'] = 20
    floors['live-outside-particle-finite-coordinates:inside-b'] = 20
    floors['states-after-profile-append'] = int(math.ceil(0.10 * max(nstate_ok, 1)))
    floors['states-with-unsorted-composition'] = int(math.ceil(0.5 * ctx.hist.get('states-with-soluble-particle', 0)))
    floors['zero-mass-component-taking-up-from-water'] = int(math.ceil(0.15 * max(nstate_ok, 1)))
    floors['zero-mass-component-used-up'] = 10
    short = {k: ctx.hist.get(k, 0) for k, v in floors.items() if ctx.hist.get(k, 0) < v}
    ctx.oblige('floor: every regime of the quantifier reached (%s)' % ', '.join('%s>=%d' % kv for kv in sorted(floors.items())),
               not short, 'below floor: %r' % short)
    if not states:
        return

    # ---- property predicates on the REAL vectors ---------------------------------------------
    worst_id = 0.
    for case, res in states:
        qp, env, ps, lay = res['qp'], res['env'], res['ps'], res['lay']
        if len(qp) != lay['len']:
            ctx.violation('layout-length', 'derivs vector length is not 11 + sum(nc_i+5) + nchems + ntracers',
                          dict(case, expected=lay['len'], got=len(qp)))
            continue
        if not res['unpack_ok']:
            ctx.violation('layout-unpack', 'LagElement.update does not unpack the state with the layout 11 + (nc_i + 5)* + nchems + ntracers',
                          dict(case))
        for i, blk in outside_nonzero(qp, ps, lay):
            ctx.violation('outside-particle-contributes', 'a particle outside the plume has a non-zero derivative slot',
                          dict(case, particle=i, block=blk))
        for i, p_ in enumerate(ps):
            if res['flag_after'][i] != p_['integrate']:
                ctx.violation('integrate-flag-changed', 'evaluating the right-hand side changed the in/out-of-plume flag of a particle (integrate was %r, is %r afterwards; coordinates in the state: %r)'
                              % (p_['integrate'], res['flag_after'][i], [float(x) for x in res['q'][lay['particles'][i]['X'][0]:lay['particles'][i]['X'][1]]]),
                              dict(case, particle=i))
        finite_in = all(np.all(np.isfinite(x)) for x in [env['s'], env['c_chems'], env['ca_chems'], env['cpe'], env['k_bio'],
                                                         env['ca_tracers']])
        for p in ps:
            if p['integrate']:
                finite_in = finite_in and all(np.all(np.isfinite(np.asarray(p[f], dtype=float))) for f in ('beta', 'Cs', 'k_bio', 'm')) \
                    and np.all(np.isfinite(p['s'][:9]))
        if not finite_in:
            ctx.count('closure-nonfinite (budgets skipped)')
            continue
        closure_checks_python(ctx, case, res)
        for i, got, want, scale, carried in particle_heat_vs_mass(res):
            if math.isfinite(got) and math.isfinite(want) and abs(got - want) > TOL['identity'] * scale + TOL['abs_floor']:
                nch = env['nchems']
                narrow = (not ps[i]['issoluble']) and nch != 1 and \
                    abs((got - want) - (nch - 1) * carried) <= 1e-6 * abs(got - want)
                if narrow:
                    # lmp.derivs l.150 broadcasts the one-element dm_pb of an INERT particle over nchems slots: the particle loses nchems
                    # times the heat its biodegraded mass carries.  The element + particle heat BUDGET still closes (checked below), which
                    # is all the property demands: observation, not a violation (DESIGN §9.7)
                    ctx.count('observation:inert-heat-loss-nchems-broadcast')
                    continue
                # any other mismatch between a particle's heat slot and its own mass slots is likewise outside the statement (the
                # budgets below are what it demands); counted so that it shows in the evidence
                ctx.count('observation:particle-heat-mass-mismatch')
        for i, p_ in enumerate(ps):
            kbp = res['kb_pred'][i]
            if len(kbp) != len(p_['k_bio']) or not all(close(float(x), float(y), TOL['gen_vs_source']) for x, y in zip(kbp, p_['k_bio'])):
                ctx.violation('particle-kbio-vs-spec', 'the biodegradation rate constants a particle class uses are not k_bio of its compounds where the lag time t_bio has passed at the particle age (else 0)',
                              dict(case, particle=i, used=[float(x) for x in p_['k_bio']], expected=[float(x) for x in kbp],
                                   age=float(res['q'][lay['particles'][i]['t']])))
        for key, lhs, rhs, scale in budgets(qp, _oracle_env(env, res['ind']), ps, lay, q=res['q'], kb=res['kb_pred']):
            if not (math.isfinite(lhs) and math.isfinite(rhs)):
                ctx.violation(key + '-budget', 'budget term is not finite although every closure value is finite',
                              dict(case, budget=key, lhs=float(lhs), rhs=float(rhs)))
                continue
            err = abs(lhs - rhs)
            if scale > 0:
                worst_id = max(worst_id, err / scale)
            if err > TOL['identity'] * scale + TOL['abs_floor']:
                ctx.violation(key + '-budget', 'budget does not close on the vector returned by lmp.derivs: %s' % key,
                              dict(case, budget=key, lhs=float(lhs), rhs=float(rhs), scale=float(scale),
                                   derivs=[float(x) for x in qp]))
    ctx.notes.append('worst budget residual relative to sum|terms| on the real vectors: %.3g' % worst_id)

    # ---- correspondence with the Lean model -----------------------------------------------------
    if not lean_ok:
        return
    lines = [_encode(res['env'], res['ps']) for _case_, res in states]
    tot_lines, tot_want = [], []
    for _case_, res in states:
        c = (len(tot_lines) * 7) % max(res['env']['nchems'], 1)
        short = []
        for p in res['ps']:
            short += [int(p['integrate']), int(p['issoluble']), int(p['nc'])]
        tot_lines.append(req('Lmp.totals', res['qp'], c, *short))
        lay, qp = res['lay'], res['qp']
        ct = qp[lay['chems'][0] + c] if res['env']['nchems'] > 0 else (qp[lay['chems'][0] + c] if lay['chems'][0] + c < len(qp) else 0.)
        ct_scale = abs(ct)
        for i, p in enumerate(res['ps']):
            if p['issoluble']:
                ct += qp[lay['particles'][i]['m'][0] + c]
                ct_scale += abs(qp[lay['particles'][i]['m'][0] + c])
        ht = qp[2] + sum(qp[sl['H']] for sl in lay['particles'])
        ht_scale = abs(qp[2]) + sum(abs(qp[sl['H']]) for sl in lay['particles'])
        tot_want.append((ct, ct_scale, ht, ht_scale, res['env']['nchems']))
    clo_lines = [_closure_line(res, res['p']) for _case_, res in states]
    out_all = run_driver(ctx, 'C03', lines + tot_lines + clo_lines)
    if out_all is None:
        return
    out, out_tot, out_clo = out_all[:len(lines)], out_all[len(lines):2 * len(lines)], out_all[2 * len(lines):]
    nbad_c = 0
    for (case, res), o in zip(states, out_clo):
        msgs = closure_checks_lean(ctx, case, res, o)
        if msgs:
            nbad_c += 1
            if nbad_c <= 3:
                ctx.broken.append(('correspondence', 'Model.Lmp closures vs LagElement.update / lmp.entrainment / lmp.track_particles', repr(msgs)[:600]))
    ctx.oblige('correspondence Model.Lmp.{elemDerived, entrainment, feOf, dtpOf, upOf, pFac, fbOf} on oracle inputs == values the real closures returned, %d states' % len(states),
               nbad_c == 0, '%d states disagree' % nbad_c)
    nbad_t = 0
    for (ct, cs, ht, hs, nch), o in zip(tot_want, out_tot):
        ok = isinstance(o, list) and len(o) == 2 and close(float(o[1]), float(ht), TOL['gen_vs_source'], abs_floor=TOL['gen_vs_source'] * hs + TOL['abs_floor']) \
            and (nch == 0 or close(float(o[0]), float(ct), TOL['gen_vs_source'], abs_floor=TOL['gen_vs_source'] * cs + TOL['abs_floor']))
        if not ok:
            nbad_t += 1
            if nbad_t <= 3:
                ctx.broken.append(('correspondence', 'Model.Lmp.compoundTotal/heatTotal vs slot sums by the real layout', 'model %r want %r' % (o, (ct, ht))))
    ctx.oblige('read-out functionals Model.Lmp.compoundTotal / heatTotal == slot sums with the layout of LagElement.update on %d real vectors' % len(tot_lines),
               nbad_t == 0, '%d disagree' % nbad_t)
    nbad = 0
    worst = 0.
    for (case, res), o in zip(states, out):
        qp = res['qp']
        if not isinstance(o, list) or not isinstance(o[0], list):
            nbad += 1
            if nbad <= 3:
                ctx.broken.append(('correspondence', 'Model.Lmp.derivs vs lmp.derivs', 'driver answered %r' % (o,)))
            continue
        mv = o[0]
        if len(mv) != len(qp):
            nbad += 1
            if nbad <= 3:
                ctx.broken.append(('correspondence', 'Model.Lmp.derivs vs lmp.derivs (length)',
                                   'model %d slots, code %d slots; row %d pert %s flags %r' % (len(mv), len(qp), case['row'], case['perturbation'], case['flags'])))
            continue
        sc = _slot_scales(res['env'], res['ps'], res['lay'], qp)
        for j in range(len(qp)):
            a, b = float(mv[j]), float(qp[j])
            if close(a, b, TOL['gen_vs_source'], abs_floor=TOL['gen_vs_source'] * (sc[j] if math.isfinite(sc[j]) else 0.) + TOL['abs_floor']):
                if math.isfinite(a) and math.isfinite(b) and sc[j] > 0 and math.isfinite(sc[j]):
                    worst = max(worst, abs(a - b) / sc[j])
                continue
            nbad += 1
            if nbad <= 3:
                ctx.broken.append(('correspondence', 'Model.Lmp.derivs vs lmp.derivs slot %d' % j,
                                   'model=%r code=%r; kinds %r flags %r row %d pert %s' % (a, b, [sp['kind'] for sp in case['scenario']['particles']], case['flags'], case['row'], case['perturbation'])))
            break
    ctx.oblige('correspondence Model.Lmp.derivs == lmp.derivs slot by slot on %d states (rel %g of the slot terms)' % (len(states), TOL['gen_vs_source']),
               nbad == 0, '%d states disagree' % nbad)
    ctx.notes.append('worst slot difference model vs code relative to the slot terms: %.3g' % worst)


def replay(ctx, path):
    """re-evaluate a recorded failing state on the real code and print the budgets"""
    import json
    tam = _tamoc()
    rec = json.load(open(path))
    case = rec['case']
    bpm, prf, parts = scen_bpm.simulate(case['scenario'])
    if case.get('profile_stage') == 2:
        scen_bpm.append_later(prf, case['scenario']['append_later'])     # the simulation above has queried the profile
    with np.errstate(all='ignore'):
        res = eval_state(tam, bpm, prf, parts, np.array(case['q_prev']), case['t_prev'], np.array(case['q']), case['t'],
                         case['flags'], case['mode'])
    rc = 0
    for i, blk in outside_nonzero(res['qp'], res['ps'], res['lay']):
        print('outside particle %d has non-zero slots %r' % (i, blk))
        rc = 1
    case0 = {k: v for k, v in case.items() if k != 'scenario'}
    closure_checks_python(ctx, case0, res)
    with np.errstate(all='ignore'):
        order_checks(ctx, tam, bpm, prf, parts, dict(case0, flags=case['flags'], mode=case['mode']), res, case['t_prev'], case['t'])
    for i, got, want, scale, carried in particle_heat_vs_mass(res):
        if abs(got - want) > TOL['identity'] * scale + TOL['abs_floor']:
            print('particle %d heat slot %.17g, expected from its own mass slots %.17g' % (i, got, want))
            rc = 1
    for v in ctx.violations:
        print('%s: %s' % (v['key'], v['what']))
        rc = 1
    for key, lhs, rhs, scale in budgets(res['qp'], _oracle_env(res['env'], res['ind']), res['ps'], res['lay']):
        ok = abs(lhs - rhs) <= TOL['identity'] * scale + TOL['abs_floor']
        print('%-12s lhs=%.17g rhs=%.17g scale=%.3g %s' % (key, lhs, rhs, scale, 'ok' if ok else 'FAILS'))
        rc = rc or (0 if ok else 1)
    return rc
