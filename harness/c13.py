"""
C13 — Seawater properties follow the cited standards.

proof        : TamocV/Props/C13.lean over Gen.SeawaterPy (regenerated from seawater.py)
tie          : (G) translator re-run; generated definitions executed at Float against the
               functions they were generated from
real code    : seawater.density vs the independent Lean EOS-80 reference at Float; published
               check values; monotonicity in S and P; positivity of mu, sigma, k; mu decreasing in T
"""
import math
import numpy as np
from common import req, close, relerr, TOL, run_driver

META = {
    'text': 'Theorems (Lean 4, over the reals) about the definitions regenerated from seawater.py on every run: below 40 C the density IS the EOS-80 rational function of an independently typed coefficient table (all T,S,P); the eight published EOS-80 check values are reproduced to half a unit of the last digit (S=0 exactly, S=35 through a proved bracket of 35^(3/2)); the density increases strictly with salinity and with pressure on the oceanic box, below 40 C (EOS-80) and on the 313-373 K hot-water branch, and is positive there; mu, sigma, k are positive on the oceanic range; mu decreases strictly with temperature. The real code is compared with the Lean EOS-80 reference executed at Float on every sampled state, with the published check values, and for monotonicity/positivity.',
    'note': 'Trusted: Lean kernel + 3 standard axioms; translator py2ir/ir2lean (validated every run by executing the generated definitions against seawater.py); real arithmetic as stand-in for IEEE doubles; sigma positivity is proved up to 373.15 K; every analytic claim of the property statement is a theorem (see evidence.theorems), the sampling of the real code is the tie, not the decision.',
    'technique': 'Lean 4 proof over a model regenerated from source by a translator + differential execution against the real code',
}
GEN = ['seawater']
MODULES = ['TamocV.Props.C13Mono', 'TamocV.Props.C13', 'TamocV.Gen.SeawaterPy', 'TamocV.Model.EOS80']
RULE = ('(T,S,P) drawn from T 271-313.15 K (cold branch) and 313.15-373 K (hot branch), S 0-42, P 1e5-1.1e8 Pa: '
        'uniform + boundary points (branch edge, S=0, P=1 atm) + the 8 published EOS-80 check states; a case is '
        'non-trivial when distinct (rounded to 12 digits) and all of T,S,P differ from the previous case')
LEVEL_NOTE = ('theorems over the reals about the definitions regenerated from seawater.py; floating point, libm and the '
              'translator are trusted (translator validated by executing the generated code against seawater.py on every case)')

# UNESCO Tech. Pap. Mar. Sci. 44 (1983) p.19 check values: (S, t degC, p bar) -> rho, K
CHECK = [
    (0., 5., 0., 999.96675, 20337.80375), (0., 5., 1000., 1044.12802, 23643.52599),
    (0., 25., 0., 997.04796, 22100.72106), (0., 25., 1000., 1037.90204, 25405.09717),
    (35., 5., 0., 1027.67547, 22185.93358), (35., 5., 1000., 1069.48914, 25577.49819),
    (35., 25., 0., 1023.34306, 23726.34949), (35., 25., 1000., 1062.53817, 27108.94504),
]


def audit_files():
    return ['TamocV/Num.lean', 'TamocV/Real.lean', 'TamocV/Model/EOS80.lean', 'TamocV/Props/C13.lean',
            'TamocV/Lemmas/Basic.lean', 'TamocV/Lemmas/C20.lean', 'TamocV/Lemmas/C13.lean', 'TamocV/Lemmas/C13Mono.lean',
            'TamocV/Props/C13Mono.lean', 'TamocV/Gen/SeawaterPy.lean']


def gen_cases(ctx):
    r = ctx.rng
    n = ctx.n(3000, 200000)
    cases = []
    for S, t, p, _rho, _K in CHECK:
        cases.append((t + 273.15, S, p * 1e5))
    edge_T = [271.0, 273.15, 313.15 - 1e-9, 313.15, math.nextafter(313.15, 0), 313.15 + 1e-9, 373.0, 303.15 / (1 - 0.00025) + 0.0682875]
    for T in edge_T:
        for S in (0.0, 35.0, 42.0):
            for P in (1e5, 101325.0, 1.1e8):
                cases.append((T, S, P))
    while len(cases) < n:
        u = r.random()
        if u < 0.7:
            T = r.uniform(271., 313.15)
        elif u < 0.9:
            T = r.uniform(313.15, 373.)
        else:
            T = 313.15 + r.uniform(-1e-6, 1e-6)
        S = r.choice([0.0, r.uniform(0, 42), r.uniform(0, 42), r.uniform(30, 37)])
        P = r.choice([1e5, math.exp(r.uniform(math.log(1e5), math.log(1.1e8))), r.uniform(1e5, 1.1e8)])
        cases.append((T, S, P))
        # a fifth of the random states are followed by states that share one or two of (T, S, P) with the call before (a
        # profile at constant salinity, an isothermal tank, a pressure sweep): anything remembered between calls under an
        # incomplete key answers these with the previous sample's values
        if r.random() < 0.2:
            for _k in range(r.randint(1, 3)):
                keep = r.choice(['T', 'S', 'P', 'TS', 'TP', 'SP'])
                if 'T' not in keep:
                    T = r.uniform(271., 313.15) if T < 313.15 else r.uniform(313.15, 373.)
                if 'S' not in keep:
                    S = r.uniform(0, 42)
                if 'P' not in keep:
                    P = math.exp(r.uniform(math.log(1e5), math.log(1.1e8)))
                cases.append((T, S, P))
    return cases


def run(ctx, lean_ok):
    from tamoc import seawater
    cases = gen_cases(ctx)
    ctx.evaluations = len(cases)
    prev = None
    for c in cases:
        key = tuple(float('%.12g' % x) for x in c)
        if prev is None or all(a != b for a, b in zip(key, prev)):
            ctx.nontrivial.add(key)
        prev = key
        ctx.count('cold' if c[0] < 273.15 + 40 else 'hot')
        ctx.count('S=0' if c[1] == 0 else 'S>0')
    real = {}
    for f in ('density', 'mu', 'k'):
        real[f] = [float(getattr(seawater, f)(*c)) for c in cases]
    real['sigma'] = [float(seawater.sigma(c[0], c[1])) for c in cases]
    for i in range(3):
        ctx.sample({'T': cases[i + 8][0], 'S': cases[i + 8][1], 'P': cases[i + 8][2], 'density': real['density'][i + 8]})

    # ---- (G) translator validation + reference comparison through the driver -------------
    lines = []
    for c in cases:
        lines.append(req('SeawaterPy.density', *c))
        lines.append(req('SeawaterPy.mu', *c))
        lines.append(req('SeawaterPy.sigma', c[0], c[1]))
        lines.append(req('SeawaterPy.k', *c))
        lines.append(req('EOS80.rho', c[0] - 273.15, c[1], c[2] * 1e-5))
    out = run_driver(ctx, 'C13', lines) if lean_ok else None
    ref_out = None
    if out is None:
        # the generated model is unavailable: still compare the real code with the independent reference
        ref_lines = [req('EOS80.rho', c[0] - 273.15, c[1], c[2] * 1e-5) for c in cases]
        ref_out = run_driver(ctx, 'C13ref', ref_lines)
    worst = {'density': 0., 'mu': 0., 'sigma': 0., 'k': 0., 'eos80': 0.}
    ngen_bad = 0
    for i, c in enumerate(cases):
        ref = None
        if out is not None:
            o = out[5 * i:5 * i + 5]
            for j, f in enumerate(('density', 'mu', 'sigma', 'k')):
                got = o[j][0] if isinstance(o[j], list) else float('nan')
                e = relerr(got, real[f][i])
                worst[f] = max(worst[f], e)
                if not close(got, real[f][i], TOL['gen_vs_source']):
                    ngen_bad += 1
                    if ngen_bad <= 3:
                        ctx.broken.append(('correspondence', 'Gen.SeawaterPy.%s vs seawater.%s' % (f, f),
                                           'T,S,P=%r model=%r code=%r' % (c, got, real[f][i])))
            ref = o[4][0] if isinstance(o[4], list) else None
        elif ref_out is not None:
            ref = ref_out[i][0] if isinstance(ref_out[i], list) else None
        # ---- property predicate on the REAL code: density == EOS-80 below 40 C -----------
        if ref is not None and c[0] < 273.15 + 40:
            e = relerr(ref, real['density'][i])
            worst['eos80'] = max(worst['eos80'], e)
            if not close(ref, real['density'][i], TOL['gen_vs_source']):
                ctx.violation('density-ne-eos80', 'seawater.density differs from EOS-80 below 40 C',
                              {'T': c[0], 'S': c[1], 'P': c[2], 'seawater.density': real['density'][i],
                               'EOS80 reference': ref, 'relerr': e})
    if out is not None:
        ctx.oblige('correspondence Gen.SeawaterPy.{density,mu,sigma,k} == seawater.* on %d cases (rel %g)' % (len(cases), TOL['gen_vs_source']),
                   ngen_bad == 0, '%d disagreements' % ngen_bad)
    ctx.notes.append('worst relative differences: %r' % worst)

    # ---- published check values on the real code --------------------------------------
    for S, t, p, rho, K in CHECK:
        got = float(seawater.density(t + 273.15, S, p * 1e5))
        ctx.evaluations += 1
        if not abs(got - rho) <= 5e-6:
            ctx.violation('check-value-rho(%g,%g,%g)' % (S, t, p), 'published EOS-80 density check value not reproduced',
                          {'S': S, 't': t, 'p_bar': p, 'published': rho, 'seawater.density': got})
        if p > 0:
            # K from rho and rho(p=0):  rho = rho0 / (1 - p/K)  =>  K = p / (1 - rho0/rho)
            rho0 = float(seawater.density(t + 273.15, S, 0.))
            Kgot = p / (1. - rho0 / got)
            if not abs(Kgot - K) <= 5e-4:      # K recovered through a cancellation: 1e-8 relative
                ctx.violation('check-value-K(%g,%g,%g)' % (S, t, p), 'published EOS-80 secant bulk modulus check value not reproduced',
                              {'S': S, 't': t, 'p_bar': p, 'published': K, 'recovered': Kgot})

    # ---- monotonicity / positivity on the real code ----------------------------------
    r = ctx.rng
    nm = ctx.n(2000, 100000)
    for _ in range(nm):
        hot = r.random() < 0.25
        T = r.uniform(313.15, 373.) if hot else r.uniform(271., 313.15)
        S1 = r.uniform(0, 42)
        P1 = math.exp(r.uniform(math.log(1e5), math.log(1.1e8)))
        gap = 10 ** r.uniform(-6, 0)
        S2 = min(42., S1 + gap * 42)
        P2 = min(1.1e8, P1 * (1 + gap * 10))
        ctx.evaluations += 1
        d11 = float(seawater.density(T, S1, P1))
        if S2 > S1 and not float(seawater.density(T, S2, P1)) > d11:
            ctx.violation('density-not-increasing-in-S', 'density does not increase with salinity',
                          {'T': T, 'S1': S1, 'S2': S2, 'P': P1})
        if P2 > P1 and not float(seawater.density(T, S1, P2)) > d11:
            ctx.violation('density-not-increasing-in-P', 'density does not increase with pressure',
                          {'T': T, 'S': S1, 'P1': P1, 'P2': P2})
        T1 = r.uniform(271., 373.)
        T2 = min(373., T1 + gap * 100)
        m1, m2 = float(seawater.mu(T1, S1, P1)), float(seawater.mu(T2, S1, P1))
        if T2 > T1 and not m2 < m1:
            ctx.violation('mu-not-decreasing-in-T', 'viscosity does not decrease with temperature',
                          {'T1': T1, 'T2': T2, 'S': S1, 'P': P1, 'mu1': m1, 'mu2': m2})
    for i, c in enumerate(cases):
        for f in ('density', 'mu', 'sigma', 'k'):
            v = real[f][i]
            if not (math.isfinite(v) and v > 0):
                ctx.violation('%s-not-positive-finite' % f, 'seawater.%s is not finite and positive' % f,
                              {'T': c[0], 'S': c[1], 'P': c[2], f: v})
