"""
C05 — Single-particle trajectories obey mass and motion invariants   (PARTIAL by design).

proof        : TamocV/Props/C05.lean over the hand model TamocV/Model/Sbm.lean (derivs, loop control of
               calculate_path, sbm_ic, K_T bookkeeping of simulate) + TamocV/Model/Particle17.lean
tie          : (H) value correspondence: `derivs` on sampled states of real trajectories with the library
               answers recorded from the real call handed to the model as oracle; stop tests on every
               stored step (the real loop continued / stopped); post-step fixed point; initial row
real code    : complete single_bubble_model.Model(profile).simulate(...) runs over the property's quantifier,
               all predicates of the statement evaluated on the stored Model.t / Model.y
NOT modelled : the ODE integrator (scipy VODE): monotone times, step <= delta_t, monotone depth, mass never
               above initial are OBSERVED on the trajectories only
"""
import math
import numpy as np
from common import req, close, relerr, TOL, run_driver
import scen_sbm as S

META = {
    'text': 'PARTIAL. Theorems (Lean 4, over the reals, all states, all list lengths, EVERY integrator with hidden state): the right-hand side has depth rate <= 0 for zero vertical current and non-negative slip; zero mass rates for an inert particle without biodegradation and for K = 0; non-positive mass rates in water free of the compounds; the loop stores non-negative masses (clipping), resets the heat to sum(m) cp Ta after equilibration, returns within 300001 passes with one of surface / stall / dissolved / step cap / 14-day cap / integrator failure, drops negative-depth rows, keeps the initial row (release position, masses of the diameter / mole-fraction conversion with total pi/6 de^3 rho, heat T0 sum(m0) cp) first; simulate restores K_T. Real complete simulations over the quantifier are post-processed row by row for every predicate of the statement (incl. what VODE contributes: times, step size, monotone depth, mass bounds), derivs and the loop control are compared with the Lean model on sampled states, two identical runs are compared bit for bit.',
    'note': 'Partial: the ODE integrator (scipy VODE) is not modelled - times non-decreasing, step <= delta_t, depth monotone along the stored trajectory and masses not exceeding their initial values are observed on sampled real trajectories only (solver tolerance). Trusted: Lean kernel + 3 standard axioms; hand transcriptions Model/Sbm.lean, Model/Particle17.lean (validated each run by correspondence on sampled states); real arithmetic for IEEE doubles; equations of state and profile look-ups are oracle parameters.',
    'technique': 'Lean 4 proof over a hand-written model of right-hand side and loop control + complete real simulations post-processed + value correspondence on sampled states',
}
GEN = []
MODULES = ['TamocV.Props.C05', 'TamocV.Model.Sbm', 'TamocV.Model.Particle17']
RULE = ('complete simulations: gas bubbles / liquid drops of 1-4 database compounds and inert particles; release depth 50-3500 m '
        '(log-uniform, coupled to the maximum step through a crude rise-time estimate so that a run stays within the step budget); '
        'diameter 0.2-20 mm log-uniform; T0 ambient, +0..1 K, +0.3..30 K; K, K_T in {0, 1, U(0,10)}; fdis 1e-9..1e-1; t_hyd 0 or 1-2000 s; '
        'lag on/off; delta_t in {1,10,100,1000, log-uniform}; profiles: world-ocean average without / with computed dissolved gases, '
        'synthetic stratified profiles without / with dissolved methane, ethane, oxygen, nitrogen, benzene; still water. A simulation is non-trivial when its '
        '(particle kind, composition, profile, stop reason, rounded depth/diameter) is new; derivs states are stored rows '
        '(first, second, middle, last two, random) with the flag K_T set to the user factor or to 0')
LEVEL_NOTE = ('partial: theorems over the reals about the hand-written model of derivs / loop control / initial row for every '
              'integrator; VODE itself is not modelled, its contribution (times, step size, monotone depth, mass bounds) is observed '
              'on sampled real simulations within solver tolerance; model tied to /repo by correspondence on sampled states')

VODE_RTOL, VODE_ATOL = 1e-3, 1e-6      # calculate_path l.816-817
NAN = float('nan')


def audit_files():
    return ['TamocV/Num.lean', 'TamocV/Real.lean', 'TamocV/Proto.lean', 'TamocV/Lemmas/Basic.lean',
            'TamocV/Lemmas/C17.lean', 'TamocV/Lemmas/C05.lean', 'TamocV/Model/Particle17.lean',
            'TamocV/Model/Sbm.lean', 'TamocV/Props/C05.lean']


def build_profiles(ctx):
    r = ctx.rng
    chems = ['methane', 'ethane', 'oxygen', 'nitrogen', 'benzene']
    world = [('world-ocean', S.world_profile(False)), ('world-ocean+gases', S.world_profile(True))]
    profs = [('synthetic-3600', S.synthetic_profile(r, z_max=3600.)),
             ('synthetic-3600+chem', S.synthetic_profile(r, z_max=3600., chems=chems))]
    for i in range(ctx.n(1, 6)):
        profs.append(('synthetic-%d' % i, S.synthetic_profile(r)))
        profs.append(('synthetic-%d+chem' % i, S.synthetic_profile(r, chems=r.sample(chems, r.randint(1, 4)))))
    # about 40 % of the simulations in the world-ocean average profile (half of them with dissolved gases)
    k = max(1, (2 * len(profs)) // 6)
    return profs + world * k


def case_public(c):
    return {k: (v if not isinstance(v, np.ndarray) else [float(x) for x in v]) for k, v in c.items()
            if k not in ('obj', 'prf')}


def stop_flags(zmin, fdis, f, k, tP, zP, t, z):
    """the tests of calculate_path l.863-870, in the same floating-point operations"""
    with np.errstate(all='ignore'):
        us = -(np.float64(zP) - np.float64(z)) / (np.float64(tP) - np.float64(t))
    return dict(surface=bool(z <= zmin), stall=bool(us <= 0.), dissolved=bool(f < fdis), capK=bool(k > 300000),
                capT=bool(t > 1209600))


# ---------------------------------------------------------------------------
# predicates on one finished simulation
# ---------------------------------------------------------------------------

def check_sim(ctx, idx, c, m, m2, stats):
    """all predicates of the statement on the stored trajectory; returns the stop-reason string"""
    from tamoc import seawater
    prf, obj = c['prf'], c['obj']
    pub = dict(case_public(c), sim_index=idx)

    def viol(key, what, **kw):
        ctx.violation(key, what, dict(pub, **kw))
    t, y = np.asarray(m.t, dtype=float), np.asarray(m.y, dtype=float)
    n = len(t)
    nc = y.shape[1] - 4
    ctx.evaluations += n
    masses = y[:, 3:-1]
    z = y[:, 2]
    k_steps = m._k_steps
    removed = (k_steps + 1 - n) if k_steps is not None else 0
    ctx.count('rows', n)
    # ---- finite, non-negative masses ----------------------------------------------------
    if not np.isfinite(masses).all() or not np.isfinite(y[:, :3]).all() or not np.isfinite(t).all():
        i = int(np.argmax(~np.isfinite(y).all(axis=1)))
        viol('nonfinite-state', 'stored time / position / mass is not finite', row=i, t=float(t[i]), y=[float(v) for v in y[i]])
    if (masses < 0).any():
        i = int(np.argmax((masses < 0).any(axis=1)))
        viol('negative-mass', 'a stored component mass is negative', row=i, t=float(t[i]), y=[float(v) for v in y[i]])
    # ---- times ----------------------------------------------------------------------------
    dt = np.diff(t)
    if n and t[0] != 0.:
        viol('first-time', 'first stored time is not 0', t0=float(t[0]))
    if (dt < 0).any():
        i = int(np.argmax(dt < 0))
        viol('time-decreases', 'recorded times decrease', row=i, t=[float(t[i]), float(t[i + 1])])
    lim = c['delta_t'] * (1 + 8 * np.finfo(float).eps)
    # the step is measured against t[i] + delta_t in floating point: one rounding of the sum
    over = dt - c['delta_t']
    if len(dt) and (dt > lim).any() and (over > 4 * np.spacing(t[1:])).any():
        i = int(np.argmax(over))
        viol('step-exceeds-delta_t', 'successive outputs further apart than the maximum step', row=i, dt=float(dt[i]), delta_t=c['delta_t'])
    if len(dt):
        stats['max dt/delta_t'] = max(stats.get('max dt/delta_t', 0.), float(dt.max() / c['delta_t']))
    # ---- stop reason ----------------------------------------------------------------------
    reason = None
    zmin = float(prf.z_min)
    if removed > 0:
        reason = 'surface(overshoot removed)'
        flags = None
    elif n >= 2:
        f = masses[-2].sum() / masses[0].sum()
        flags = stop_flags(zmin, c['fdis'], f, n - 1, t[-2], z[-2], t[-1], z[-1])
        on = [k for k in ('surface', 'stall', 'dissolved', 'capK', 'capT') if flags[k]]
        reason = '+'.join(on) if on else None
    if reason is None:
        viol('stop-undocumented', 'the run ended although none of surface / stall / dissolved / step cap / time cap holds (integrator gave up)',
             last_rows=[[float(v) for v in y[-2]], [float(v) for v in y[-1]]] if n >= 2 else [], t_last=[float(v) for v in t[-2:]], k=k_steps)
        reason = 'undocumented'
    ctx.count('stop:' + reason)
    # ---- depth ----------------------------------------------------------------------------
    dz = np.diff(z)
    for i in range(n - 1):
        final = (removed == 0 and i == n - 2)
        if dz[i] > 0.:
            tol = (VODE_RTOL * abs(z[i]) + VODE_ATOL) if final else 0.
            stats['max final-step depth increase (m)'] = max(stats.get('max final-step depth increase (m)', 0.), float(dz[i])) if final else stats.get('max final-step depth increase (m)', 0.)
            if final:
                ctx.count('final step: depth rose (stall)')
            if dz[i] > tol or (final and 'stall' not in reason):
                viol('depth-increases', 'depth increases in still water' + (' on the last step by more than the solver tolerance / without the stall stop' if final else ' on a step after which the loop continued'),
                     row=i, z=[float(z[i]), float(z[i + 1])], t=[float(t[i]), float(t[i + 1])])
                break
        elif dz[i] == 0. and not final:
            viol('loop-continued-after-stall', 'the particle did not rise on a step and the loop continued', row=i)
            break
    if (z < zmin).any() or (z > float(prf.z_max)).any():
        i = int(np.argmax((z < zmin) | (z > float(prf.z_max))))
        viol('outside-profile', 'stored depth outside the profile', row=i, z=float(z[i]), z_min=zmin, z_max=float(prf.z_max))
    if not ((y[:, 0] == c['x0']).all() and (y[:, 1] == c['y0']).all()):
        viol('horizontal-drift', 'horizontal position changes in still water')
    # ---- mass invariants --------------------------------------------------------------------
    kb = np.atleast_1d(np.array(obj.k_bio, dtype=float))
    tb = np.atleast_1d(np.array(obj.t_bio, dtype=float))
    if c['lag_time']:
        active = kb > 0
        t_on = float(tb[active].min()) if active.any() else math.inf
    else:
        t_on = 0. if (kb > 0).any() else math.inf
    nobio = t < t_on if math.isfinite(t_on) else np.ones(n, dtype=bool)      # rows before any biodegradation
    nobio = nobio & np.concatenate(([True], nobio[:-1]))
    if not obj.issoluble:
        ctx.count('inert: no biodegradation rows', int(nobio.sum()))
        if not (masses[nobio] == masses[0]).all():
            i = int(np.argmax((masses != masses[0]).any(axis=1) & nobio))
            viol('inert-mass-changes', 'inert particle without biodegradation does not keep exactly its initial mass', row=i, m=float(masses[i, 0]), m0=float(masses[0, 0]))
    elif c['K'] == 0.:
        ctx.count('K=0: no biodegradation rows', int(nobio.sum()))
        if not (masses[nobio] == masses[0]).all():
            i = int(np.argmax((masses != masses[0]).any(axis=1) & nobio))
            viol('K0-mass-changes', 'soluble particle with mass-transfer factor 0 (and no biodegradation yet) does not keep its component masses', row=i,
                 m=[float(v) for v in masses[i]], m0=[float(v) for v in masses[0]])
    # water free of the compound: the component never exceeds its initial mass by more than the solver tolerance
    comp = list(obj.composition)
    for j, name in enumerate(comp):
        if name in prf.f_names:
            ctx.count('component present in the water')
            continue
        ctx.count('component absent from the water')
        mx = float(masses[:, j].max())
        exc = mx / masses[0, j] - 1. if masses[0, j] > 0 else 0.
        stats['max clean-water mass excess (rel)'] = max(stats.get('max clean-water mass excess (rel)', 0.), exc)
        if mx > masses[0, j] * (1. + TOL['conservation_drift']):
            i = int(np.argmax(masses[:, j]))
            viol('clean-water-mass-grows', 'a component absent from the water exceeds its initial mass by more than the solver tolerance', row=i,
                 component=name, m=mx, m0=float(masses[0, j]))
    # ---- first row --------------------------------------------------------------------------
    Ta, Sa, P = [float(v) for v in prf.get_values(c['z0'], ['temperature', 'salinity', 'pressure'])]
    T0 = m._T0_used if m._T0_used is not None else Ta
    cp = float(m.particle.cp)
    tolg = TOL['gen_vs_source']
    if not (y[0, 0] == c['x0'] and y[0, 1] == c['y0'] and y[0, 2] == c['z0']):
        viol('first-row-position', 'first stored row is not the release position', row0=[float(v) for v in y[0]])
    m0 = masses[0]
    with S.quiet():
        if obj.issoluble:
            rho = float(obj.density(m0, T0, P))
            yk_back = np.array(obj.mol_frac(m0), dtype=float)
            ok_y = close([float(v) for v in yk_back], [float(v) for v in c['yk']], 1e-9)
        else:
            rho = float(obj.density(T0, P, Sa, Ta))
            ok_y = True
    vol = math.pi / 6. * c['de'] ** 3
    if not (ok_y and close(float(m0.sum()), vol * rho, 1e-9)):
        viol('first-row-masses', 'initial masses are not those implied by diameter and mole fractions (sum = pi/6 de^3 rho, mole fractions = yk)',
             m0=[float(v) for v in m0], rho=rho, expected_total=vol * rho)
    if not close(float(y[0, -1]), T0 * float(np.sum(m0)) * cp, tolg):
        viol('first-row-heat', 'initial heat is not T0 * sum(m0) * cp', H0=float(y[0, -1]), expected=T0 * float(np.sum(m0)) * cp)
    # ---- heat reset rows -----------------------------------------------------------------------
    nreset = m._n_reset
    # heat transfer is off from the first stored step on when the factor is 0 or the particle is released
    # within 0.5 K of the water (the very first right-hand-side evaluation switches the flag); otherwise
    # the rows are identified by the number of look-ups `get_values(z, 'temperature')` the loop made
    all_reset = (c['K_T'] == 0.) or (abs(Ta - T0) < 0.5)
    if all_reset:
        ctx.count('heat transfer off from the first step')
        if k_steps is not None and nreset != k_steps:
            viol('heat-not-reset', 'heat transfer is off from the first step but the loop did not reset the heat on every step',
                 resets=nreset, steps=k_steps)
    if k_steps is not None and (nreset or all_reset):
        first_reset = 1 if all_reset else k_steps + 1 - nreset          # raw row index of the first reset row
        idxs = [i for i in range(max(first_reset, 1), n) if (masses[i] > 0).all()]
        if idxs:
            Tas = np.array([float(prf.get_values(float(z[i]), ['temperature'])[0]) for i in idxs])
            exp = masses[idxs].sum(axis=1) * cp * Tas
            bad = [i for i, e in zip(idxs, exp) if not close(float(y[i, -1]), float(e), tolg)]
            ctx.count('heat-reset rows checked', len(idxs))
            if bad:
                i = bad[0]
                viol('heat-not-reset', 'with heat transfer switched off the stored heat is not sum(m) cp Ta(z)', row=i, H=float(y[i, -1]))
    # ---- K_T restored, determinism ---------------------------------------------------------------
    if m.particle.K_T != c['K_T']:
        viol('K_T-not-restored', 'simulate leaves the particle heat-transfer flag different from the factor it was called with',
             K_T_after=float(m.particle.K_T))
    if m2 is not None:
        t2, y2 = np.asarray(m2.t), np.asarray(m2.y)
        same = (t2.shape == t.shape and y2.shape == y.shape and np.array_equal(t2, t, equal_nan=True)
                and np.array_equal(y2, y, equal_nan=True))
        ctx.count('identical rerun compared')
        if not same:
            viol('rerun-differs', 'two runs with identical inputs give different trajectories',
                 rows=[int(n), int(len(t2))])
    return reason, removed, flags


# ---------------------------------------------------------------------------

def run(ctx, lean_ok):
    from tamoc import single_bubble_model, seawater
    r = ctx.rng
    profiles = build_profiles(ctx)
    nsim = ctx.n(32, 300)
    ncap = ctx.n(1, 4)             # runs sized to end at the 14-day cap
    nstall = ctx.n(3, 20)          # small soluble bubbles that dissolve completely (stall / dissolved stop)
    ndropped = 0
    budget = ctx.n(4000, 30000)
    rows_cap = ctx.n(400, 1500)
    stats = {}
    lines, expect = [], []          # driver requests and what to compare them with
    nder = 0
    for idx in range(nsim):
        if idx < ncap:
            c = S.sbm_cap_case(r, profiles)
        elif idx < ncap + nstall:
            c = S.sbm_stall_case(r, profiles)
        else:
            c = S.sbm_case(r, profiles, rows_cap=rows_cap)
        if c['descr']['kind'] == 'inert' and r.random() < 0.3:
            c['obj'].k_bio = r.uniform(1e-7, 1e-5)
            c['obj'].t_bio = r.choice([0., r.uniform(10., 5000.)])
            c['descr']['k_bio'], c['descr']['t_bio'] = c['obj'].k_bio, c['obj'].t_bio
        if c['K'] == 0. and r.random() < 0.6:
            c['lag_time'] = True
        try:
            m = S.run_sbm(c, budget)
        except S.BudgetExceeded:
            ctx.count('simulation dropped: more than %d right-hand-side evaluations' % budget)
            ndropped += 1
            continue
        m2 = None
        if m._n_rhs < budget // 2 and (ctx.thorough is False or r.random() < 0.5):
            try:
                m2 = S.run_sbm(c, budget)
            except S.BudgetExceeded:
                m2 = None
        reason, removed, flags = check_sim(ctx, idx, c, m, m2, stats)
        kind = c['descr']['kind']
        ctx.count('particle:' + kind)
        ctx.count('profile:' + c['profile'])
        ctx.nontrivial.add((kind, tuple(c['descr'].get('composition', ['inert'])), c['profile'], reason,
                            float('%.3g' % c['z0']), float('%.3g' % c['de'])))
        if idx < 4:
            ctx.sample(dict(case_public(c), rows=int(len(m.t)), t_end=float(m.t[-1]), z_end=float(m.y[-1, 2]), stop=reason,
                            mass_fraction_left=float(m.y[-1, 3:-1].sum() / m.y[0, 3:-1].sum())))
        if not lean_ok:
            continue
        # ---- driver requests for this simulation ----------------------------------------------
        t, y = np.asarray(m.t, dtype=float), np.asarray(m.y, dtype=float)
        n = len(t)
        prf, obj, sp = c['prf'], c['obj'], m.particle
        cp = float(sp.cp)
        Ta0, Sa0, P0 = [float(v) for v in prf.get_values(c['z0'], ['temperature', 'salinity', 'pressure'])]
        T0 = m._T0_used
        # initial row
        with S.quiet():
            if obj.issoluble:
                m1 = obj.masses(np.array(c['yk'], dtype=float))
                rho = float(obj.density(m1, T0 if T0 is not None else Ta0, P0))
                lines.append(req('Sbm.massesByDiameter', math.pi, c['de'], rho, c['yk'], np.array(obj.M, dtype=float)))
                expect.append(('ic-masses', idx, [float(v) for v in y[0, 3:-1]]))
            else:
                rho = float(obj.density(T0 if T0 is not None else Ta0, P0, Sa0, Ta0))
                lines.append(req('Sbm.massByDiameter', math.pi, c['de'], rho))
                expect.append(('ic-mass', idx, float(y[0, 3])))
        lines.append(req('Sbm.ic', [c['x0'], c['y0'], c['z0']], y[0, 3:-1], int(T0 is not None), T0 if T0 is not None else 0., Ta0, cp))
        expect.append(('ic-row', idx, [float(v) for v in y[0]]))
        # stop tests on stored steps: the real loop continued after every step but the last
        zmin = float(prf.z_min)
        steps = list(range(n - 1))
        if len(steps) > 300:
            steps = sorted(set(r.sample(steps[:-3], 297) + steps[-3:]))
        for i in steps:
            final = (removed == 0 and i == n - 2)
            f = float(y[i, 3:-1].sum() / y[0, 3:-1].sum())
            lines.append(req('Sbm.stopTests', zmin, c['fdis'], f, i + 1, t[i], y[i, 2], t[i + 1], y[i + 1, 2]))
            expect.append(('stop', idx, (i, final, flags if final else None)))
        # post-step fixed point on stored rows with a known flag state
        nreset = m._n_reset
        first_reset = (m._k_steps + 1 - nreset) if m._k_steps is not None else n
        if c['K_T'] == 0. or abs(Ta0 - (T0 if T0 is not None else Ta0)) < 0.5:
            first_reset = 1
        rows = [i for i in sorted(set([1, n // 2, n - 1] + [r.randrange(1, n) for _ in range(3)] if n > 1 else [])) if 1 <= i < n]
        for i in rows:
            KT_i = 0. if i >= first_reset else (c['K_T'] if c['K_T'] != 0. else 1.)
            if KT_i == 0. and not (y[i, 3:-1] > 0).all():
                continue                      # the reset used the masses before clipping
            Ta_i = float(prf.get_values(float(y[i, 2]), ['temperature'])[0])
            lines.append(req('Sbm.postStep', KT_i, cp, Ta_i, y[i]))
            expect.append(('post', idx, (i, [float(v) for v in y[i]])))
        # derivs on sampled stored states
        cand = sorted(set([0, 1, n // 2, n - 2, n - 1] + [r.randrange(n) for _ in range(3)]))
        for i in [k for k in cand if 0 <= k < n]:
            KT_in = r.choice([float(c['K_T']), 0.])
            yi = y[i].copy()
            zi = float(yi[2])
            Ta, Sa, P, ua, va, wa = [float(v) for v in prf.get_values(zi, ['temperature', 'salinity', 'pressure', 'ua', 'va', 'wa'])]
            C = [float(v) for v in prf.get_values(zi, list(sp.composition))]
            sp.K_T = KT_in
            try:
                with S.quiet(), S.Recorder(obj) as rec:
                    yp = single_bubble_model.derivs(float(t[i]), yi, prf, sp, m.p)
                KT_out = float(sp.K_T)
            except Exception as e:
                ctx.count('derivs raised on a stored state (%s)' % type(e).__name__)
                sp.K_T = c['K_T']
                continue
            sp.K_T = c['K_T']
            if len(rec.lib) != 1:
                ctx.broken.append(('correspondence', 'derivs calls return_all once', 'calls=%d' % len(rec.lib)))
                continue
            nder += 1
            ctx.nontrivial.add(('derivs', kind, tuple(c['descr'].get('composition', ['inert'])), KT_in == 0.,
                                float('%.6g' % t[i]), float('%.6g' % zi)))
            rho_l, us_l, A_l, Cs_l, beta_l, bT_l = S.lib_answer(bool(obj.issoluble), rec.lib[0][1])
            rho_amb = rec.swcalls[0][1] if rec.swcalls else NAN
            lines.append(req('Sbm.derivs', *(S.params_args(sp) + [KT_in, cp, float(t[i]), y[i], P, Sa, Ta, ua, va, wa, C,
                                                                   rho_l, us_l, A_l, Cs_l, beta_l, bT_l, rho_amb])))
            expect.append(('derivs', idx, (i, KT_out, [float(v) for v in yp])))
            # direct predicates on the real right-hand side
            ctx.evaluations += 1
            ypm = np.asarray(yp[3:-1], dtype=float)
            pubd = dict(case_public(c), sim_index=idx, row=i, t=float(t[i]), y=[float(v) for v in y[i]], K_T_in=KT_in, yp=[float(v) for v in yp])
            if np.isfinite(yp[2]) and not (yp[0] == 0. and yp[1] == 0. and yp[2] <= 0.):
                ctx.violation('rhs-depth-rate-positive', 'derivs: depth rate positive (or horizontal drift) in still water', pubd)
            kbn = np.atleast_1d(np.array(sp.biodegradation_rate(float(t[i])), dtype=float))
            if (not obj.issoluble or c['K'] == 0.) and (kbn == 0).all() and np.isfinite(ypm).all():
                ctx.count('rhs: zero mass rate expected')
                if not (ypm == 0.).all():
                    ctx.violation('rhs-mass-rate-nonzero', 'derivs: mass rate non-zero for an inert particle / K = 0 without biodegradation', pubd)
            if np.isfinite(ypm).all():
                for j, cj in enumerate(C if obj.issoluble else []):
                    if cj == 0. and ypm[j] > 0.:
                        ctx.violation('rhs-mass-rate-positive-clean-water', 'derivs: component mass rate positive in water free of the compound', dict(pubd, component=j))
    ctx.oblige('at least 80 %% of the %d generated simulations complete within the budget of %d right-hand-side evaluations' % (nsim, budget),
               ndropped <= 0.2 * nsim, '%d dropped' % ndropped)
    ctx.notes.append('the step cap (k > 300000) is not reachable within the time budget of a check: covered by the theorem stop_reason_sbm only')
    ctx.notes.append('observed on the trajectories (VODE not modelled): %r' % stats)
    ctx.notes.append('VODE tolerances rtol=%g atol=%g; depth may rise on the LAST step of a run that ends by stall (us <= 0 is that test) by at most rtol*|z|+atol' % (VODE_RTOL, VODE_ATOL))
    if not lean_ok:
        return
    out = run_driver(ctx, 'C05', lines)
    if out is None:
        return
    tol = TOL['gen_vs_source']
    bad = {'ic-masses': 0, 'ic-mass': 0, 'ic-row': 0, 'stop': 0, 'post': 0, 'derivs': 0}
    cnt = dict(bad)
    worst = 0.
    for (kind, idx, exp), o in zip(expect, out):
        cnt[kind] += 1
        ok = isinstance(o, list)
        detail = ''
        if ok:
            if kind in ('ic-masses', 'ic-row'):
                ok = close(o[0], exp, tol)
                detail = 'model=%r code=%r' % (o[0], exp)
            elif kind == 'ic-mass':
                ok = close(o[0], exp, tol)
                detail = 'model=%r code=%r' % (o[0], exp)
            elif kind == 'post':
                ok = close(o[0], exp[1], tol)
                detail = 'row %d model=%r stored=%r' % (exp[0], o[0], exp[1])
            elif kind == 'stop':
                i, final, flags = exp
                got = dict(zip(('surface', 'stall', 'dissolved', 'capK', 'capT'), [bool(v) for v in o]))
                if final:
                    ok = (flags is None) or got == {k: flags[k] for k in got}
                    detail = 'final step %d model=%r harness=%r' % (i, got, flags)
                else:
                    ok = not any(got.values())          # the real loop went on
                    detail = 'step %d: real loop continued, model flags=%r' % (i, got)
            elif kind == 'derivs':
                i, KT_out, yp = exp
                ok = (o[0] == KT_out) and close(o[1], yp, tol)
                if ok:
                    for a, b in zip(o[1], yp):
                        if math.isfinite(a) and math.isfinite(b):
                            worst = max(worst, relerr(a, b))
                detail = 'row %d K_T model=%r code=%r yp model=%r code=%r' % (i, o[0], KT_out, o[1], yp)
        else:
            detail = str(o)
        if not ok:
            bad[kind] += 1
            if sum(bad.values()) <= 4:
                ctx.broken.append(('correspondence', 'Sbm %s vs single_bubble_model (simulation %d)' % (kind, idx), detail[:1500]))
    ctx.oblige('correspondence Sbm.derivs (with Particle17.properties, recorded library answers) == single_bubble_model.derivs on %d sampled states (rel %g)' % (cnt['derivs'], tol),
               bad['derivs'] == 0, '%d disagreements' % bad['derivs'])
    ctx.oblige('correspondence Sbm.stopTests: no flag on the %d stored steps after which the real loop continued, same flags on the last step' % cnt['stop'],
               bad['stop'] == 0, '%d disagreements' % bad['stop'])
    ctx.oblige('correspondence Sbm.postStep leaves %d stored rows unchanged (clipping + heat reset already applied by the real loop) (rel %g)' % (cnt['post'], tol),
               bad['post'] == 0, '%d disagreements' % bad['post'])
    ctx.oblige('correspondence Sbm.ic / massesByDiameter == first stored row of %d simulations (rel %g)' % (cnt['ic-row'], tol),
               bad['ic-row'] + bad['ic-masses'] + bad['ic-mass'] == 0, '%d disagreements' % (bad['ic-row'] + bad['ic-masses'] + bad['ic-mass']))
    ctx.notes.append('derivs: worst relative difference model vs code %.3g' % worst)
