"""
C05 — Single-particle trajectories obey mass and motion invariants   (PARTIAL by design).

proof        : TamocV/Props/C05.lean over the hand model TamocV/Model/Sbm.lean (derivs, loop control of
               calculate_path, sbm_ic, K_T bookkeeping of simulate) + TamocV/Model/Particle17.lean
tie          : (H) value correspondence: `derivs` on sampled states — stored rows, the integrator's UNCLIPPED
               states (recorded by a recording subclass of scipy.integrate.ode installed from this process) and
               synthetic states with negative masses — with the library answers recorded from the real call
               handed to the model as oracle; the stop tests on every step (the real loop continued / stopped);
               post-step (heat reset + clipping) from the integrator's raw state to the stored row; initial row
real code    : complete single_bubble_model.Model(profile).simulate(...) runs over the property's quantifier,
               all predicates of the statement evaluated on the stored Model.t / Model.y
NOT modelled : the ODE integrator (scipy VODE): monotone times, step <= delta_t, monotone depth, mass never
               above initial are OBSERVED on the trajectories only
"""
import math
import numpy as np
from common import req, close, relerr, TOL, run_driver
import scen_sbm as S
import c01

META = {
    'text': 'PARTIAL. Theorems (Lean 4, over the reals, all states, all list lengths, EVERY integrator with hidden state): the right-hand side has depth rate <= 0 for zero vertical current and non-negative slip; zero mass rates for an inert particle without biodegradation and for K = 0 without biodegradation; non-positive mass rates in water free of the compounds; the loop stores non-negative masses (clipping), resets the heat to sum(m) cp Ta after equilibration, returns within 300001 passes with one of surface / stall / dissolved / step cap / 14-day cap (or the integrator reporting failure), drops negative-depth rows, keeps the initial row first (release position, masses of the diameter / mole-fraction conversion with total pi/6 de^3 rho, heat T0 sum(m0) cp); simulate writes K_T back. Real complete simulations over the quantifier are post-processed row by row for every predicate of the statement (incl. what VODE contributes: times, step size, monotone depth, mass bounds, depth inside the profile\'s own range), derivs / post-step / stop tests are compared with the Lean model on stored, raw (unclipped) and synthetic negative-mass states, two identical runs are compared bit for bit.',
    'note': 'Partial: the ODE integrator (scipy VODE) is not modelled - times non-decreasing, step <= delta_t, depth monotone along the stored trajectory and masses not exceeding their initial values are observed on sampled real trajectories only; the step cap (300000 passes) is covered by the theorem only. READING of the K = 0 clause: the mass-transfer factor scales dissolution only; "keeps its component masses" is checked exactly on the rows before any biodegradation acts (lag on and t below the smallest lag time, or all k_bio = 0); where database biodegradation acts the masses decrease by design (m_end/m0 = 0.95 after 5000 s with the lag off) and are only required not to increase. Trusted: Lean kernel + 3 standard axioms; hand transcriptions Model/Sbm.lean, Model/Particle17.lean (validated each run by correspondence on sampled states); real arithmetic for IEEE doubles; equations of state and profile look-ups are oracle parameters.',
    'technique': 'Lean 4 proof over a hand-written model of right-hand side and loop control + complete real simulations post-processed + value correspondence on stored / raw / synthetic states',
}
GEN = []
MODULES = ['TamocV.Props.C05', 'TamocV.Model.Sbm', 'TamocV.Model.Particle17']
RULE = ('complete simulations: gas bubbles / liquid drops of 1-4 database compounds and inert particles; release depth 50-3500 m '
        '(log-uniform, coupled to the maximum step through a crude rise-time estimate so that a run stays within the step budget); '
        'diameter 0.2-20 mm log-uniform; T0 ambient, +0..1 K, +0.3..30 K; K, K_T in {0, 1, U(0,10)}; fdis 1e-9..1e-1; t_hyd 0 or 1-2000 s; '
        'lag on/off; delta_t in {1,10,100,1000, log-uniform}; profiles: world-ocean average without / with computed dissolved gases, '
        'synthetic stratified profiles starting at 0 m or BELOW the surface (top at 10-50 m), without / with dissolved methane, ethane, oxygen, '
        'nitrogen, benzene; still water; plus runs sized to end at the 14-day cap and small soluble bubbles that dissolve completely. '
        'plus HISTORIES: one particle object and one Model re-used for 2-3 simulate calls that differ in exactly one of yk / de / T0 / z0, each compared with fresh objects. '
        'A simulation is non-trivial when its (particle kind, composition, profile, stop reason, rounded depth/diameter) is new; derivs states are stored rows '
        '(first, second, middle, last two, random), raw integrator states with negative masses and synthetic negative-mass variants, with the flag K_T set to the user factor or to 0')
LEVEL_NOTE = ('partial: theorems over the reals about the hand-written model of derivs / loop control / initial row for every '
              'integrator; VODE itself is not modelled, its contribution (times, step size, monotone depth, mass bounds) is observed '
              'on sampled real simulations; model tied to /repo by correspondence on sampled states')

NAN = float('nan')
DEPTH_ROUNDING = 1e-9          # m: anything above is a real increase of the depth, not rounding


def audit_files():
    return ['TamocV/Num.lean', 'TamocV/Real.lean', 'TamocV/Proto.lean', 'TamocV/Lemmas/Basic.lean',
            'TamocV/Lemmas/C17.lean', 'TamocV/Lemmas/C05.lean', 'TamocV/Model/Particle17.lean',
            'TamocV/Model/Sbm.lean', 'TamocV/Props/C05.lean']


def build_profiles(ctx):
    r = ctx.rng
    chems = ['methane', 'ethane', 'oxygen', 'nitrogen', 'benzene']
    world = [('world-ocean', S.world_profile(False)), ('world-ocean+gases', S.world_profile(True))]
    profs = [('synthetic-3600', S.synthetic_profile(r, z_max=3600.)),
             ('synthetic-3600+chem', S.synthetic_profile(r, z_max=3600., chems=chems))]
    for i in range(ctx.n(1, 6)):
        profs.append(('synthetic-%d' % i, S.synthetic_profile(r)))
        profs.append(('synthetic-%d+chem' % i, S.synthetic_profile(r, chems=r.sample(chems, r.randint(1, 4)))))
    # casts that start BELOW the surface: the profile's own range is [z_top, z_max]
    below = []
    for i in range(ctx.n(2, 6)):
        below.append(('synthetic-top-below-surface-%d' % i,
                      S.synthetic_profile(r, z_max=r.choice([600., 1500., 3600.]), z_top=r.uniform(10., 50.),
                                          chems=r.sample(chems, 2) if r.random() < 0.5 else None)))
    # about 35 % of the simulations in the world-ocean average profile (half of them with dissolved gases),
    # about 20 % in profiles whose top lies below the surface
    k = max(1, len(profs) // 3)
    kb = max(1, (len(profs) + 2 * k) // (3 * len(below)))
    return profs + world * k + below * kb


def case_public(c):
    return {k: (v if not isinstance(v, np.ndarray) else [float(x) for x in v]) for k, v in c.items()
            if k not in ('obj', 'prf')}


def stop_flags(zmin, fdis, f, k, tP, zP, t, z):
    """the tests of calculate_path l.863-870, in the same floating-point operations"""
    with np.errstate(all='ignore'):
        us = -(np.float64(zP) - np.float64(z)) / (np.float64(tP) - np.float64(t))
    return dict(surface=bool(z <= zmin), stall=bool(us <= 0.), dissolved=bool(f < fdis), capK=bool(k > 300000),
                capT=bool(t > 1209600))


def molar_masses(composition):
    """molar masses (kg/mol) from the harness's own SI reading of ChemData.csv (c01.feed_tables), not from the dbm object"""
    crit = c01.feed_tables()['crit']
    return np.array([crit[name]['M'] for name in composition], dtype=float)


def particle_cp():
    """SingleParticle.cp as documented (dispersed_phases l.141): half the heat capacity of seawater"""
    from tamoc import seawater
    return float(seawater.cp()) * 0.5


# ---------------------------------------------------------------------------
# predicates on one finished simulation
# ---------------------------------------------------------------------------

def check_sim(ctx, idx, c, m, m2, stats):
    """all predicates of the statement on the stored trajectory; returns (stop reason, rows removed, flags)"""
    prf, obj = c['prf'], c['obj']
    pub = dict(case_public(c), sim_index=idx)

    def viol(key, what, **kw):
        ctx.violation(key, what, dict(pub, **kw))
    t, y = np.asarray(m.t, dtype=float), np.asarray(m.y, dtype=float)
    raw = m._raw
    n = len(t)
    ctx.evaluations += n
    masses = y[:, 3:-1]
    z = y[:, 2]
    k_steps = len(raw)
    removed = k_steps + 1 - n
    ctx.count('rows', n)
    zmin, zmax = S.table_range(prf)           # depth range of OUR table, not the Profile object's attributes
    if (float(prf.z_min), float(prf.z_max)) != (zmin, zmax):
        viol('profile-bounds-differ-from-table', 'Profile.z_min / z_max differ from the first / last depth of the table the profile was built from',
             z_min=float(prf.z_min), z_max=float(prf.z_max), table=[zmin, zmax])
    # ---- finite, non-negative masses ----------------------------------------------------
    if not np.isfinite(masses).all() or not np.isfinite(y[:, :3]).all() or not np.isfinite(t).all():
        i = int(np.argmax(~np.isfinite(y).all(axis=1)))
        viol('nonfinite-state', 'stored time / position / mass is not finite', row=i, t=float(t[i]), y=[float(v) for v in y[i]])
    if (masses < 0).any():
        i = int(np.argmax((masses < 0).any(axis=1)))
        viol('negative-mass', 'a stored component mass is negative', row=i, t=float(t[i]), y=[float(v) for v in y[i]])
    # ---- times ----------------------------------------------------------------------------
    dt = np.diff(t)
    if n and t[0] != 0.:
        viol('first-time', 'first stored time is not 0', t0=float(t[0]))
    if (dt < 0).any():
        i = int(np.argmax(dt < 0))
        viol('time-decreases', 'recorded times decrease', row=i, t=[float(t[i]), float(t[i + 1])])
    # the step is taken towards t[i] + delta_t evaluated in floating point: a few roundings of that sum
    over = dt - c['delta_t']
    if len(dt) and (over > 4 * np.spacing(t[1:]) + 8 * np.finfo(float).eps * c['delta_t']).any():
        i = int(np.argmax(over))
        viol('step-exceeds-delta_t', 'successive outputs further apart than the maximum step', row=i, dt=float(dt[i]), delta_t=c['delta_t'])
    if len(dt):
        stats['max dt/delta_t'] = max(stats.get('max dt/delta_t', 0.), float(dt.max() / c['delta_t']))
    # ---- stop reason: the tests of the statement on the LAST pass (integrator's own last state) -------------
    reason, flags = None, None
    if k_steps >= 1 and n >= 1:
        tL, yL, okL, _kt = raw[-1]
        iP = k_steps - 1                               # stored row the last pass started from (never removed)
        if iP < n:
            f = masses[iP].sum() / masses[0].sum()
            flags = stop_flags(zmin, c['fdis'], f, k_steps, t[iP], z[iP], tL, yL[2])
            on = [k for k in ('surface', 'stall', 'dissolved', 'capK', 'capT') if flags[k]]
            reason = '+'.join(on) if on else None
        if not okL:
            ctx.count('integrator reported failure on the last pass')
    if reason is None:
        viol('stop-undocumented', 'the run ended although none of surface / stall / dissolved / step cap / time cap holds (integrator gave up)',
             last_rows=[[float(v) for v in y[-2]], [float(v) for v in y[-1]]] if n >= 2 else [], t_last=[float(v) for v in t[-2:]], k=k_steps)
        reason = 'undocumented'
    if removed > 0:
        ctx.count('negative-depth rows removed', removed)
        if not (flags and flags['surface']):
            viol('row-removed-without-surface', 'a stored row was removed although the surface test does not hold', removed=removed)
    ctx.count('stop:' + reason)
    # ---- depth: never increases (no tolerance is granted by the statement; 1e-9 m is rounding) ---------------
    dz = np.diff(z)
    for i in range(n - 1):
        final = (removed == 0 and i == n - 2)
        if dz[i] > 0.:
            if final:
                ctx.count('last step: depth rose')
                stats['max last-step depth increase (m)'] = max(stats.get('max last-step depth increase (m)', 0.), float(dz[i]))
                if dz[i] > DEPTH_ROUNDING:
                    if 'stall' in reason:
                        viol('depth-increases-on-last-step',
                             'the last stored step of a run that ends by stall (us <= 0) moves the particle DOWN in still water by more than rounding',
                             row=i, z=[float(z[i]), float(z[i + 1])], t=[float(t[i]), float(t[i + 1])], increase_m=float(dz[i]))
                    else:
                        viol('depth-increases', 'depth increases in still water on the last step without the stall stop',
                             row=i, z=[float(z[i]), float(z[i + 1])], t=[float(t[i]), float(t[i + 1])])
            else:
                viol('depth-increases', 'depth increases in still water on a step after which the loop continued',
                     row=i, z=[float(z[i]), float(z[i + 1])], t=[float(t[i]), float(t[i + 1])])
                break
        elif dz[i] == 0. and not final:
            viol('loop-continued-after-stall', 'the particle did not rise on a step and the loop continued', row=i)
            break
    # ---- depth stays inside the profile's OWN range -------------------------------------------------
    out = (z < zmin) | (z > zmax)
    if out.any():
        i = int(np.argmax(out))
        if i == n - 1 and z[i] < zmin and zmin > 0.:
            ctx.count('last row above the top of a profile that starts below the surface')
            viol('last-row-above-profile-top',
                 'profile whose top lies below the surface: the surface test runs after the step and only rows with depth < 0 are removed, so the last stored depth lies above the profile top (outside the profile)',
                 row=i, z=float(z[i]), z_min=zmin, z_max=zmax)
        else:
            viol('outside-profile', 'stored depth outside the profile', row=i, z=float(z[i]), z_min=zmin, z_max=zmax)
    if not ((y[:, 0] == c['x0']).all() and (y[:, 1] == c['y0']).all()):
        viol('horizontal-drift', 'horizontal position changes in still water')
    # ---- mass invariants --------------------------------------------------------------------
    kb = np.atleast_1d(np.array(obj.k_bio, dtype=float))
    tb = np.atleast_1d(np.array(obj.t_bio, dtype=float))
    if c['lag_time']:
        active = kb > 0
        t_on = float(tb[active].min()) if active.any() else math.inf
    else:
        t_on = 0. if (kb > 0).any() else math.inf
    nobio = t < t_on if math.isfinite(t_on) else np.ones(n, dtype=bool)      # rows before any biodegradation
    nobio = nobio & np.concatenate(([True], nobio[:-1]))
    if not obj.issoluble:
        ctx.count('inert: rows without biodegradation', int(nobio.sum()))
        if not (masses[nobio] == masses[0]).all():
            i = int(np.argmax((masses != masses[0]).any(axis=1) & nobio))
            viol('inert-mass-changes', 'inert particle without biodegradation does not keep exactly its initial mass', row=i, m=float(masses[i, 0]), m0=float(masses[0, 0]))
    elif c['K'] == 0.:
        ctx.count('K=0: rows without biodegradation', int(nobio.sum()))
        ctx.count('K=0: rows with biodegradation acting (masses only required not to increase)', int((~nobio).sum()))
        if not (masses[nobio] == masses[0]).all():
            i = int(np.argmax((masses != masses[0]).any(axis=1) & nobio))
            viol('K0-mass-changes', 'soluble particle with mass-transfer factor 0 (and no biodegradation yet) does not keep its component masses', row=i,
                 m=[float(v) for v in masses[i]], m0=[float(v) for v in masses[0]])
        if n > 1 and (np.diff(masses, axis=0) > 1e-12 * masses[0]).any():
            i = int(np.argmax((np.diff(masses, axis=0) > 1e-12 * masses[0]).any(axis=1)))
            viol('K0-mass-grows', 'soluble particle with mass-transfer factor 0: a component mass increases', row=i + 1,
                 m=[float(v) for v in masses[i + 1]], before=[float(v) for v in masses[i]])
    # water free of the compound: the component never exceeds its initial mass by more than the solver tolerance
    comp = list(obj.composition)
    for j, name in enumerate(comp):
        if name in prf.f_names:
            ctx.count('component present in the water')
            continue
        ctx.count('component absent from the water')
        mx = float(masses[:, j].max())
        exc = mx / masses[0, j] - 1. if masses[0, j] > 0 else 0.
        stats['max clean-water mass excess (rel)'] = max(stats.get('max clean-water mass excess (rel)', 0.), exc)
        if mx > masses[0, j] * (1. + TOL['conservation_drift']):
            i = int(np.argmax(masses[:, j]))
            viol('clean-water-mass-grows', 'a component absent from the water exceeds its initial mass by more than the solver tolerance', row=i,
                 component=name, m=mx, m0=float(masses[0, j]))
    # ---- first row --------------------------------------------------------------------------
    Ta, Sa, P = [float(v) for v in prf.get_values(c['z0'], ['temperature', 'salinity', 'pressure'])]
    T0 = m._T0_used if m._T0_used is not None else Ta
    cp = particle_cp()
    tolg = TOL['gen_vs_source']
    if not (y[0, 0] == c['x0'] and y[0, 1] == c['y0'] and y[0, 2] == c['z0']):
        viol('first-row-position', 'first stored row is not the release position', row0=[float(v) for v in y[0]])
    m0 = masses[0]
    with S.quiet():
        if obj.issoluble:
            rho = float(obj.density(m0, T0, P))
            Mcsv = molar_masses(obj.composition)
            if not close([float(v) for v in obj.M], [float(v) for v in Mcsv], TOL['gen_vs_source']):
                viol('molar-mass-differs-from-ChemData', 'FluidParticle.M differs from the molar masses of ChemData.csv (g/mol -> kg/mol)',
                     M=[float(v) for v in obj.M], ChemData=[float(v) for v in Mcsv])
            nmol = m0 / Mcsv
            yk_back = nmol / nmol.sum()
            ok_y = close([float(v) for v in yk_back], [float(v) for v in c['yk']], 1e-9)
        else:
            rho = float(obj.density(T0, P, Sa, Ta))
            ok_y = True
    vol = math.pi / 6. * c['de'] ** 3
    if not (ok_y and close(float(m0.sum()), vol * rho, 1e-9)):
        viol('first-row-masses', 'initial masses are not those implied by diameter and mole fractions (sum = pi/6 de^3 rho, mole fractions = yk)',
             m0=[float(v) for v in m0], rho=rho, expected_total=vol * rho)
    if not close(float(y[0, -1]), T0 * float(np.sum(m0)) * cp, tolg):
        viol('first-row-heat', 'initial heat is not T0 * sum(m0) * cp', H0=float(y[0, -1]), expected=T0 * float(np.sum(m0)) * cp)
    # ---- what the loop does to the integrator's state: clipping, heat reset (raw state -> stored row) -----------
    # heat transfer is off from the first pass on when the factor is 0 or the particle is released within 0.5 K of
    # the water (the very first right-hand-side evaluation switches the flag): reference independent of the object
    all_reset = (c['K_T'] == 0.) or (abs(Ta - T0) < 0.5)
    if all_reset:
        ctx.count('heat transfer off from the first pass')
    nclip = 0
    for i in range(1, n):
        tR, yR, _ok, ktR = raw[i - 1]
        if all_reset and ktR != 0.:
            viol('K_T-not-switched', 'released within 0.5 K of the water (or K_T = 0) but the flag is not 0 during the run', row=i, K_T=ktR)
            break
        mR = yR[3:-1]
        if (mR < 0).any():
            nclip += 1
        exp_m = np.where(mR < 0, 0., mR)
        if not (np.array_equal(masses[i], exp_m) and np.array_equal(y[i, :3], yR[:3]) and t[i] == tR):
            viol('post-step-masses', 'stored row is not the integrator state with negative masses set to zero', row=i,
                 stored=[float(v) for v in y[i]], raw=[float(v) for v in yR])
            break
        reset = (ktR == 0.) or all_reset
        if reset:
            Ta_i = float(prf.get_values(float(yR[2]), ['temperature'])[0])
            expH = float(np.sum(mR)) * cp * Ta_i
        else:
            expH = float(yR[-1])
        if not close(float(y[i, -1]), expH, tolg):
            viol('heat-not-reset' if reset else 'heat-changed',
                 'with heat transfer switched off the stored heat is not sum(m) cp Ta(z)' if reset else 'stored heat differs from the integrator state although heat transfer is on',
                 row=i, H=float(y[i, -1]), expected=expH)
            break
    ctx.count('stored rows compared with the raw integrator state', max(n - 1, 0))
    ctx.count('raw integrator states with a negative mass (clipped by the loop)', nclip)
    if (c['K_T'] == 0. or all_reset) and m._n_reset != k_steps:
        viol('heat-not-reset', 'heat transfer is off from the first pass but the loop did not look up the temperature for the reset on every pass',
             resets=m._n_reset, steps=k_steps)
    # ---- K_T restored, determinism ---------------------------------------------------------------
    if m.particle.K_T != c['K_T']:
        viol('K_T-not-restored', 'simulate leaves the particle heat-transfer flag different from the factor it was called with',
             K_T_after=float(m.particle.K_T))
    if m2 is not None:
        t2, y2 = np.asarray(m2.t), np.asarray(m2.y)
        same = (t2.shape == t.shape and y2.shape == y.shape and np.array_equal(t2, t, equal_nan=True)
                and np.array_equal(y2, y, equal_nan=True))
        ctx.count('identical rerun compared')
        if not same:
            viol('rerun-differs', 'two runs with identical inputs give different trajectories',
                 rows=[int(n), int(len(t2))])
    return reason, removed, flags


# ---------------------------------------------------------------------------

# ---------------------------------------------------------------------------
# histories: ONE particle object and ONE Model re-used for several simulate calls
# ---------------------------------------------------------------------------

def reuse_histories(ctx, profiles, budget, stats):
    """one dbm particle object + one single_bubble_model.Model re-used for 2-3 simulate calls that differ in exactly
    one of {yk, de, T0, z0} (the others fixed).  Every call is compared with (a) the initial masses a FRESH dbm object
    computes for the same inputs, (b) the complete trajectory of a fresh object in a fresh Model (identical inputs
    reproduce identical trajectories, whatever was simulated before), and goes through all predicates of check_sim."""
    r = ctx.rng
    kinds = ['yk', 'de', 'T0', 'z0']
    nh = ctx.n(4, 24)
    deep = [p for p in profiles if S.table_range(p[1])[1] >= 590. and S.table_range(p[1])[0] == 0.]
    for h in range(nh):
        vary = kinds[h % 4]
        name, prf = r.choice(deep)
        kind = r.choice(['gas', 'liquid']) if (vary == 'yk' or r.random() < 0.8) else 'inert'
        obj, yk, descr = S.make_dbm_particle(r, kind, nmax=4, nmin=2 if kind != 'inert' else 1)
        base = dict(z0=r.uniform(100., 400.), de=math.exp(r.uniform(math.log(1.5e-3), math.log(6e-3))),
                    dT=r.choice([None, r.uniform(1., 10.)]), yk=np.array(yk, dtype=float))
        variants = [dict(base)]
        for _ in range(r.randint(1, 2)):
            v = dict(base)
            if vary == 'yk':
                v['yk'] = S.random_yk(r, len(yk))
            elif vary == 'de':
                v['de'] = base['de'] * r.uniform(0.5, 1.6)
            elif vary == 'T0':
                v['dT'] = r.uniform(0.6, 15.)
            else:
                v['z0'] = base['z0'] + r.uniform(20., 150.)
            variants.append(v)
        model = None
        for j, v in enumerate(variants):
            c = dict(profile=name, descr=dict(descr, yk=[float(x) for x in v['yk']]), z0=v['z0'], x0=0., y0=0., de=v['de'],
                     dT=v['dT'], K=1., K_T=1., fdis=1e-6, t_hyd=0., lag_time=True, delta_t=100., obj=obj, yk=v['yk'], prf=prf)
            pub = dict(case_public(c), history=h, call=j, varied=vary,
                       previous_calls=[{k: (float(x) if not isinstance(x, np.ndarray) and x is not None else (None if x is None else [float(q) for q in x]))
                                        for k, x in w.items()} for w in variants[:j]])
            try:
                m = S.run_sbm(c, budget, model=model)
                model = m
                t_re, y_re = np.array(m.t, dtype=float, copy=True), np.array(m.y, dtype=float, copy=True)
                fresh = S.particle_from_descr(descr)
                mf = S.run_sbm(dict(c, obj=fresh), budget)
            except S.BudgetExceeded:
                ctx.count('re-use history: call dropped (budget)')
                break
            except Exception as e:
                ctx.violation('raises:simulate:' + S.raise_site(e), 'Model.simulate raised on a re-used particle / Model: %s' % str(e)[:200], pub)
                break
            ctx.count('re-use history calls')
            ctx.count('re-use history call %d, varied %s' % (j, vary))
            ctx.nontrivial.add(('reuse', vary, j, kind, tuple(descr.get('composition', ['inert'])), float('%.4g' % v['z0']), float('%.4g' % v['de'])))
            check_sim(ctx, 100000 + 10 * h + j, c, m, None, stats)
            # (a) initial masses against a FRESH dbm object
            Ta, Sa, P = [float(x) for x in prf.get_values(v['z0'], ['temperature', 'salinity', 'pressure'])]
            T0 = Ta if v['dT'] is None else Ta + v['dT']
            with S.quiet():
                fresh2 = S.particle_from_descr(descr)
                if kind != 'inert':
                    m0_ref = np.array(fresh2.masses_by_diameter(v['de'], T0, P, np.array(v['yk'], dtype=float)), dtype=float)
                else:
                    m0_ref = np.array([float(fresh2.mass_by_diameter(v['de'], T0, P, Sa, Ta))])
            if not close([float(x) for x in y_re[0, 3:-1]], [float(x) for x in m0_ref], TOL['gen_vs_source']):
                ctx.violation('first-row-masses-reused-object',
                              'particle object re-used for a second simulate: the first stored masses are not those a fresh object computes from the requested diameter and mole fractions',
                              dict(pub, stored=[float(x) for x in y_re[0, 3:-1]], fresh=[float(x) for x in m0_ref]))
            # (b) identical inputs, fresh objects: identical trajectory
            tf, yf = np.asarray(mf.t, dtype=float), np.asarray(mf.y, dtype=float)
            same = (tf.shape == t_re.shape and yf.shape == y_re.shape and np.array_equal(tf, t_re, equal_nan=True)
                    and np.array_equal(yf, y_re, equal_nan=True))
            if not same:
                ctx.violation('reused-object-differs-from-fresh',
                              'identical inputs give a different trajectory when the particle object / Model were used for another simulation before',
                              dict(pub, rows=[int(len(t_re)), int(len(tf))], first_row_reused=[float(x) for x in y_re[0]],
                                   first_row_fresh=[float(x) for x in yf[0]]))


FLOORS_QUICK = {'simulations completed': 24, 'derivs states': 150, 'derivs states with a negative mass': 25,
                'post-step states': 80, 'raw integrator states with a negative mass (clipped by the loop)': 2,
                'profile top below the surface': 3, 're-use history calls': 8, 're-use history call 1, varied yk': 1,
                're-use history call 1, varied de': 1, 're-use history call 1, varied T0': 1, 're-use history call 1, varied z0': 1, 'heat transfer off from the first pass': 8, 'identical rerun compared': 12}


def run(ctx, lean_ok):
    from tamoc import single_bubble_model, seawater
    r = ctx.rng
    profiles = build_profiles(ctx)
    nsim = ctx.n(38, 300)
    ncap = ctx.n(1, 4)             # runs sized to end at the 14-day cap
    nstall = ctx.n(3, 20)          # small soluble bubbles that dissolve completely (stall / dissolved stop)
    ndropped = 0
    budget = ctx.n(4000, 30000)
    rows_cap = ctx.n(400, 1500)
    stats = {}
    lines, expect = [], []          # driver requests and what to compare them with
    cp = particle_cp()
    corpus = S.sbm_corpus(profiles)
    for idx in range(nsim):
        if idx < len(corpus):
            c = corpus[idx]
        elif idx < ncap + len(corpus):
            c = S.sbm_cap_case(r, profiles)
        elif idx < ncap + len(corpus) + nstall:
            c = S.sbm_stall_case(r, profiles)
        else:
            c = S.sbm_case(r, profiles, rows_cap=rows_cap)
        if c['descr']['kind'] == 'inert' and r.random() < 0.3:
            c['obj'].k_bio = r.uniform(1e-7, 1e-5)
            c['obj'].t_bio = r.choice([0., r.uniform(10., 5000.)])
            c['descr']['k_bio'], c['descr']['t_bio'] = c['obj'].k_bio, c['obj'].t_bio
        if c['K'] == 0. and r.random() < 0.6:
            c['lag_time'] = True
        pub = dict(case_public(c), sim_index=idx)
        try:
            m = S.run_sbm(c, budget)
        except S.BudgetExceeded:
            ctx.count('simulation dropped: more than %d right-hand-side evaluations' % budget)
            ndropped += 1
            continue
        except Exception as e:
            # the code under test raised on an input of the quantifier: a failure of the property, never a skip
            ctx.count('simulate raised')
            ctx.violation('raises:simulate:' + S.raise_site(e), 'Model.simulate raised on an input of the quantifier: %s' % str(e)[:200], pub)
            continue
        ctx.count('simulations completed')
        m2 = None
        if m._n_rhs < budget // 2 and (ctx.thorough is False or r.random() < 0.5):
            try:
                m2 = S.run_sbm(c, budget)
            except S.BudgetExceeded:
                m2 = None
        reason, removed, flags = check_sim(ctx, idx, c, m, m2, stats)
        kind = c['descr']['kind']
        ctx.count('particle:' + kind)
        ctx.count('profile:' + c['profile'])
        if S.table_range(c['prf'])[0] > 0:
            ctx.count('profile top below the surface')
        ctx.nontrivial.add((kind, tuple(c['descr'].get('composition', ['inert'])), c['profile'], reason,
                            float('%.3g' % c['z0']), float('%.3g' % c['de'])))
        if idx < 4:
            ctx.sample(dict(case_public(c), rows=int(len(m.t)), t_end=float(m.t[-1]), z_end=float(m.y[-1, 2]), stop=reason,
                            mass_fraction_left=float(m.y[-1, 3:-1].sum() / m.y[0, 3:-1].sum())))
        # ---- states for the correspondences (and for the direct predicates on derivs) ------------------
        t, y = np.asarray(m.t, dtype=float), np.asarray(m.y, dtype=float)
        raw = m._raw
        n = len(t)
        prf, obj, sp = c['prf'], c['obj'], m.particle
        soluble = bool(obj.issoluble)
        Ta0, Sa0, P0 = [float(v) for v in prf.get_values(c['z0'], ['temperature', 'salinity', 'pressure'])]
        T0 = m._T0_used
        kb = [float(v) for v in np.atleast_1d(np.array(obj.k_bio, dtype=float))]
        tb = [float(v) for v in np.atleast_1d(np.array(obj.t_bio, dtype=float))]
        # Particle17.Params from what WE passed to simulate (+ the first stored row for m0), not from the object
        params = [int(soluble), float(c['K']), float(c['fdis']), float(c['t_hyd']), y[0, 3:-1].copy(),
                  len(obj.composition), int(bool(c['lag_time'])), kb, tb]
        # initial row
        with S.quiet():
            if soluble:
                m1 = np.array(c['yk'], dtype=float) * molar_masses(obj.composition)
                rho = float(obj.density(m1, T0 if T0 is not None else Ta0, P0))
                lines.append(req('Sbm.massesByDiameter', math.pi, c['de'], rho, c['yk'], molar_masses(obj.composition)))
                expect.append(('ic-masses', idx, [float(v) for v in y[0, 3:-1]]))
            else:
                rho = float(obj.density(T0 if T0 is not None else Ta0, P0, Sa0, Ta0))
                lines.append(req('Sbm.massByDiameter', math.pi, c['de'], rho))
                expect.append(('ic-mass', idx, float(y[0, 3])))
        lines.append(req('Sbm.ic', [c['x0'], c['y0'], c['z0']], y[0, 3:-1], int(T0 is not None), T0 if T0 is not None else 0., Ta0, cp))
        expect.append(('ic-row', idx, [float(v) for v in y[0]]))
        # stop tests on EVERY pass (sampled when long): the real loop continued after every pass but the last;
        # the last pass is judged on the integrator's own last state (also when that row was removed afterwards)
        zmin = S.table_range(prf)[0]
        passes = list(range(len(raw)))
        if len(passes) > 300:
            passes = sorted(set(r.sample(passes[:-3], 297) + passes[-3:]))
        for i in passes:
            if i >= n:
                continue
            final = (i == len(raw) - 1)
            tR, yR, okR, _kt = raw[i]
            f = float(y[i, 3:-1].sum() / y[0, 3:-1].sum())
            lines.append(req('Sbm.stopTests', zmin, c['fdis'], f, i + 1, t[i], y[i, 2], tR, yR[2]))
            expect.append(('stop', idx, (i, final, okR, flags if final else None)))
        # post-step: integrator state (UNCLIPPED) -> stored row
        cand = [i for i in range(1, n) if (raw[i - 1][1][3:-1] < 0).any()]
        rows = sorted(set(cand[:6] + ([1, n // 2, n - 1] if n > 1 else []) + [r.randrange(1, n) for _ in range(3 if n > 1 else 0)]))
        all_reset = (c['K_T'] == 0.) or (abs(Ta0 - (T0 if T0 is not None else Ta0)) < 0.5)
        for i in [k for k in rows if 1 <= k < n]:
            tR, yR, _ok, ktR = raw[i - 1]
            KT_i = 0. if all_reset else ktR
            Ta_i = float(prf.get_values(float(yR[2]), ['temperature'])[0])
            lines.append(req('Sbm.postStep', KT_i, cp, Ta_i, yR))
            expect.append(('post', idx, (i, [float(v) for v in y[i]])))
            ctx.count('post-step states')
        # derivs: stored rows, raw states with negative masses, synthetic negative-mass variants
        states = []
        for i in sorted(set([0, 1, n // 2, n - 2, n - 1] + [r.randrange(n) for _ in range(3)])):
            if 0 <= i < n:
                states.append((float(t[i]), y[i].copy(), 'stored'))
        for i in cand[:3]:
            states.append((raw[i - 1][0], raw[i - 1][1].copy(), 'raw-negative'))
        for _ in range(2):
            i = r.randrange(n)
            ys = y[i].copy()
            nm = len(ys) - 4
            js = r.sample(range(nm), r.randint(1, nm))
            for j in js:
                ys[3 + j] = -abs(y[0, 3 + j]) * 10 ** r.uniform(-15, -9)
            if soluble and not (ys[3:-1] > 0).any() and nm > 1 and r.random() < 0.7:
                j = r.randrange(nm)
                ys[3 + j] = y[0, 3 + j] * r.uniform(0.01, 1.)       # keep a positive component most of the time
            if not soluble:
                continue                                             # an inert mass never overshoots (no dissolution)
            # keep the particle temperature of the row: the heat content follows the changed masses
            msum = float(y[i, 3:-1].sum())
            Ti = float(y[i, -1]) / (msum * cp) if msum > 0 else float(prf.get_values(float(y[i, 2]), ['temperature'])[0])
            ys[-1] = Ti * float(np.where(ys[3:-1] < 0, 0., ys[3:-1]).sum()) * cp
            states.append((float(t[i]), ys, 'synthetic-negative'))
        for (ti, ystate, origin) in states:
            KT_in = r.choice([float(c['K_T']), 0.])
            yi = ystate.copy()
            zi = float(yi[2])
            Ta, Sa, P, ua, va, wa = [float(v) for v in prf.get_values(zi, ['temperature', 'salinity', 'pressure', 'ua', 'va', 'wa'])]
            C = [float(v) for v in prf.get_values(zi, list(obj.composition))]
            sp.K_T = KT_in
            pubd = dict(pub, t=ti, y=[float(v) for v in ystate], K_T_in=KT_in, state=origin)
            try:
                with S.quiet(), S.Recorder(obj) as rec:
                    yp = single_bubble_model.derivs(ti, yi, prf, sp, m.p)
                KT_out = float(sp.K_T)
            except Exception as e:
                ctx.count('derivs raised')
                ctx.violation('raises:derivs:' + S.raise_site(e), 'derivs raised on a state of a trajectory: %s' % str(e)[:200], pubd)
                sp.K_T = c['K_T']
                continue
            sp.K_T = c['K_T']
            ctx.count('derivs states')
            ctx.count('derivs state:' + origin)
            negm = bool((ystate[3:-1] < 0).any())
            if negm:
                ctx.count('derivs states with a negative mass')
            if len(rec.lib) != 1:
                ctx.broken.append(('correspondence', 'derivs calls return_all once', 'calls=%d' % len(rec.lib)))
                continue
            ctx.nontrivial.add(('derivs', kind, tuple(c['descr'].get('composition', ['inert'])), KT_in == 0., origin,
                                float('%.6g' % ti), float('%.6g' % zi)))
            rho_l, us_l, A_l, Cs_l, beta_l, bT_l = S.lib_answer(soluble, rec.lib[0][1])
            rho_amb = rec.swcalls[0][1] if rec.swcalls else NAN
            lines.append(req('Sbm.derivs', *(params + [KT_in, cp, ti, ystate, P, Sa, Ta, ua, va, wa, C,
                                                       rho_l, us_l, A_l, Cs_l, beta_l, bT_l, rho_amb])))
            expect.append(('derivs', idx, (origin, KT_out, [float(v) for v in yp])))
            # ---- direct predicates on the real right-hand side ------------------------------------
            ctx.evaluations += 1
            ypm = np.asarray(yp[3:-1], dtype=float)
            pubd['yp'] = [float(v) for v in yp]
            mcl = np.where(ystate[3:-1] < 0, 0., ystate[3:-1]) if soluble else ystate[3:-1]
            if not np.isfinite(np.asarray(yp, dtype=float)).all():
                if not (mcl > 0).any():
                    ctx.count('derivs non-finite at zero total mass (C17 finding properties-nan-all-masses-zero)')
                elif rho_l >= float(seawater.density(Ta, Sa, P)):
                    ctx.count('derivs non-finite for a particle denser than the water')
                else:
                    ctx.violation('rhs-nonfinite', 'derivs returns a non-finite rate for a buoyant particle with positive mass', pubd)
                continue
            if not (yp[0] == 0. and yp[1] == 0. and yp[2] <= 0.):
                ctx.violation('rhs-depth-rate-positive', 'derivs: depth rate positive (or horizontal drift) in still water', pubd)
            kbn = np.atleast_1d(np.array(obj.biodegradation_rate(ti, c['lag_time']), dtype=float))
            if (not soluble or c['K'] == 0.) and (kbn == 0).all():
                ctx.count('rhs: zero mass rate expected')
                if not (ypm == 0.).all():
                    ctx.violation('rhs-mass-rate-nonzero', 'derivs: mass rate non-zero for an inert particle / K = 0 without biodegradation', pubd)
            for j, cj in enumerate(C if soluble else []):
                if cj == 0. and ypm[j] > 0.:
                    ctx.violation('rhs-mass-rate-positive-clean-water', 'derivs: component mass rate positive in water free of the compound', dict(pubd, component=j))
    reuse_histories(ctx, profiles, budget, stats)
    # ---- floors ---------------------------------------------------------------------------------
    ctx.oblige('at least 80 %% of the %d generated simulations complete within the budget of %d right-hand-side evaluations' % (nsim, budget),
               ndropped <= 0.2 * nsim, '%d dropped' % ndropped)
    scale = 1 if not ctx.thorough else 6
    short = {k: (ctx.hist.get(k, 0), v * scale) for k, v in FLOORS_QUICK.items() if ctx.hist.get(k, 0) < v * scale}
    stops = [k for k in ctx.hist if k.startswith('stop:')]
    for need in ('surface', 'dissolved', 'capT'):
        if not any(need in k for k in stops):
            short['stop:' + need] = (0, 1)
    ctx.oblige('coverage floors (simulations, derivs / post-step states incl. negative masses, profiles with the top below the surface, stop reasons surface / dissolved / time cap)',
               not short, 'below floor (have, want): %r' % short)
    ctx.notes.append('the step cap (k > 300000) is not reachable within the time budget of a check: covered by the theorem stop_reason_sbm only')
    ctx.notes.append('observed on the trajectories (VODE not modelled): %r' % stats)
    ctx.notes.append('K = 0 clause: exact constancy on rows before biodegradation acts; with biodegradation acting the masses decrease by design (reading stated in META)')
    if not lean_ok:
        return
    out = run_driver(ctx, 'C05', lines)
    if out is None:
        return
    tol = TOL['gen_vs_source']
    bad = {'ic-masses': 0, 'ic-mass': 0, 'ic-row': 0, 'stop': 0, 'post': 0, 'derivs': 0}
    cnt = dict(bad)
    worst = 0.
    for (kind, idx, exp), o in zip(expect, out):
        cnt[kind] += 1
        ok = isinstance(o, list)
        detail = ''
        if ok:
            if kind in ('ic-masses', 'ic-row', 'ic-mass'):
                ok = close(o[0], exp, tol)
                detail = 'model=%r code=%r' % (o[0], exp)
            elif kind == 'post':
                ok = close(o[0], exp[1], tol)
                detail = 'row %d model(postStep of the raw integrator state)=%r stored=%r' % (exp[0], o[0], exp[1])
            elif kind == 'stop':
                i, final, okR, flags = exp
                got = dict(zip(('surface', 'stall', 'dissolved', 'capK', 'capT'), [bool(v) for v in o]))
                if final:
                    # the real loop ended here: a test of the model fires, or the integrator reported failure
                    ok = (any(got.values()) or not okR) and (flags is None or got == {k: flags[k] for k in got})
                    detail = 'last pass %d model=%r harness=%r integrator ok=%r' % (i, got, flags, okR)
                else:
                    ok = not any(got.values())          # the real loop went on
                    detail = 'pass %d: real loop continued, model flags=%r' % (i, got)
            elif kind == 'derivs':
                origin, KT_out, yp = exp
                ok = (o[0] == KT_out) and close(o[1], yp, tol)
                if ok:
                    for a, b in zip(o[1], yp):
                        if math.isfinite(a) and math.isfinite(b):
                            worst = max(worst, relerr(a, b))
                detail = '%s state K_T model=%r code=%r yp model=%r code=%r' % (origin, o[0], KT_out, o[1], yp)
        else:
            detail = str(o)
        if not ok:
            bad[kind] += 1
            if sum(bad.values()) <= 4:
                ctx.broken.append(('correspondence', 'Sbm %s vs single_bubble_model (simulation %d)' % (kind, idx), detail[:1500]))
    ctx.oblige('correspondence Sbm.derivs (with Particle17.properties, recorded library answers) == single_bubble_model.derivs on %d states (stored, raw unclipped, synthetic negative-mass) (rel %g)' % (cnt['derivs'], tol),
               bad['derivs'] == 0, '%d disagreements' % bad['derivs'])
    ctx.oblige('correspondence Sbm.stopTests: no flag on the %d passes after which the real loop continued, a flag (or integrator failure) on the last pass' % cnt['stop'],
               bad['stop'] == 0, '%d disagreements' % bad['stop'])
    ctx.oblige('correspondence Sbm.postStep (heat reset + clipping) maps %d raw integrator states to the stored rows (rel %g)' % (cnt['post'], tol),
               bad['post'] == 0, '%d disagreements' % bad['post'])
    ctx.oblige('correspondence Sbm.ic / massesByDiameter == first stored row of %d simulations (rel %g)' % (cnt['ic-row'], tol),
               bad['ic-row'] + bad['ic-masses'] + bad['ic-mass'] == 0, '%d disagreements' % (bad['ic-row'] + bad['ic-masses'] + bad['ic-mass']))
    ctx.notes.append('derivs: worst relative difference model vs code %.3g' % worst)
