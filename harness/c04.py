"""
C04 — Bent-plume simulations conserve every released compound   (partial by design)

proof        : TamocV/Props/C04.lean over Model/Lmp.lean: a linear functional annihilated by lmp.derivs is
               preserved by any integrator step of affine form and by the two post-step corrections; with C03's
               compound budget (ca = 0, k_bio = 0) the per-compound totals and inert masses are such functionals;
               exited particles get NaN-marked positions and a zero right-hand side; the loop of lmp.calculate
               returns within cap+1 iterations with a documented stop reason or an integrator failure.
tie          : complete REAL bent_plume_model.Model.simulate runs; the stored rows are replayed through the Lean
               model of the loop control (same iteration count, same reasons); the real correct_temperature /
               correct_particle_tracking are compared with their Lean models on rows of the simulation.
real code    : on Model.t / Model.q of every simulation: finiteness, per-compound drift, inert mass, NaN marking,
               frozen masses after exit, stop reason.
NOT covered  : VODE (contract: its steps are affine combinations of stored states and right-hand sides).
"""
import math
import types
import warnings
import numpy as np

from common import req, close, TOL, run_driver
import scen_bpm
import c03

META = {
    'text': 'PARTIAL. PROVED (Lean 4, reals; any particle list, any number of compounds, any run): a linear functional '
            'annihilated by the right-hand side is preserved by every integrator step q\' = sum a_j q_j + sum w_k f(x_k), '
            'sum a_j = 1, and along a WHOLE run in which every step may use any earlier solver states (run_invariant); by the '
            'C03 compound budget the per-compound totals are such functionals when ca = 0 and k_bio = 0, so every solver '
            'state and every STORED row (the corrected copy: correct_temperature, correct_particle_tracking touch heat / '
            'position slots only) carries the total of the first element (stored_rows_conserve); same for an inert mass; a '
            'particle with integrate=False has NaN-marked positions and an all-zero right-hand side; the loop returns after '
            '<= 50001 passes, stops in the FIRST pass in which one of the five tests fires, otherwise on integrator failure. '
            'SAMPLED on complete real simulations: finite values, compound drift <= 1e-6 (observed 1e-14), inert mass; exit '
            'detected from the stored geometry (distance from centreline > half-width) and the NaN marking judged against '
            'it; particle heat after heat transfer is switched off; per-step bounds on the masses of exited particles; '
            'stop reason as replayed tests and in the physical sense; lmp.derivs on stored rows incl. post-exit rows '
            '(budgets with oracle ambient values, slot-by-slot against the Lean model). The REAL loop body of lmp.calculate '
            'is also run with a stubbed integrator on crafted observation sequences (every threshold at its edge, stall, '
            'cap, integrator failure) and compared with the documented tests and the Lean model.',
    'note': 'Trusted / NOT proved: scipy VODE (assumed to advance by affine combinations of earlier solver states and '
            'right-hand-side evaluations, DESIGN §3 item 6; a Newton corrector with a finite-difference Jacobian also '
            'preserves such functionals but is not covered by the statement); my transcriptions (tied by replay / value '
            'correspondence); closures; floating point. "Masses stop changing after exit" is NOT a theorem: '
            'exited_slot_step_partial needs all history states of a step to agree, false for BDF right after the exit; on '
            'the real code it is a sampled per-step bound (known finding exit-masses-drift for the first 20 stored steps, '
            'anything later / faster is exit-masses-change). Stall and cap endings occur only in the stubbed-integrator '
            'runs, never in a sampled simulation. Known findings on /repo: neutral-stop-before-peak (phi_0 == 0 exactly), '
            'exit-masses-drift.',
    'technique': 'Lean 4 proof over a hand model of loop control + invariants; complete real simulations post-processed and replayed; real loop body driven by a stubbed integrator',
}
GEN = []
MODULES = ['TamocV.Props.C04', 'TamocV.Model.Lmp']
RULE = ('complete bent_plume_model.Model.simulate runs on random scenarios of the quantifier: release depth 100-2500 m, '
        'pure multiphase (Vj=0) or mixed jet/plume, phi_0 from vertical (-pi/2) to exactly horizontal (0), currents none/uniform/'
        'sheared 0-0.3 m/s any direction, 1-6 particle classes gas/liquid/inert, orifice 0.05-1 m, dt_max 10-600 s, '
        'normal or weak stratification, ambient free of the released compounds, all k_bio = 0; sd_max 30-300 or unbounded; '
        'designated classes: shallow surfacing release, cross-current exit, exactly horizontal release; plus crafted '
        'observation sequences for the stubbed-integrator runs of the real loop; floors on every regime are obligations; '
        'a scenario is non-trivial when the simulation has more than 3 rows')
LEVEL_NOTE = ('theorems over the reals about my model of lmp.calculate / corrections and about any affine integrator step and run; '
              'VODE, closures and floating point are trusted; the model is tied to /repo by replaying every stored simulation, '
              'by running the real loop body on crafted sequences and by lmp.derivs correspondence on stored rows')

# the tolerances lmp.calculate (l.241-242) hands to VODE; a component with zero right-hand side may move by the local
# error allowance of each accepted step (weighted RMS norm over N components: one component may use sqrt(N) of it)
VODE_RTOL = 1e-3
VODE_ATOL = 1e-6
CAP = 50000


def audit_files():
    return ['TamocV/Num.lean', 'TamocV/Real.lean', 'TamocV/Model/Lmp.lean', 'TamocV/Lemmas/C03.lean',
            'TamocV/Lemmas/C04.lean', 'TamocV/Props/C03.lean', 'TamocV/Props/C04.lean']


def extra(ctx):
    return {'solver_tolerances': {'VODE_RTOL': VODE_RTOL, 'VODE_ATOL': VODE_ATOL, 'iteration_cap': CAP}}


# ---------------------------------------------------------------------------------------------

def _scenario(ctx, i):
    r = ctx.rng
    npart = [1, 2, 3, 4, 5, 6][i % 6] if i < 6 else r.randint(1, 6)
    mix = ['gas+inert', 'oil+inert', 'gas', 'oil', 'inert', 'gas+inert'][i % 6] if i < 6 else 'random'
    depth = [150., 2400.][i % 2] if i < 2 else None
    if i % 8 == 1:
        # shallow vertical gas release into weakly stratified water with no distance limit: reaches the surface
        scn = scen_bpm.random_scenario(r, nparticles=r.randint(1, 3), depth=r.uniform(100., 130.), mix='gas', biodeg=False,
                                       background='none', current='none', strat='weak', wa=False)
        scn['release']['phi_0'] = -math.pi / 2
        for sp in scn['particles']:
            sp['mdot'] = r.uniform(2., 6.)
            sp['de'] = r.uniform(0.003, 0.01)
        scn['release']['sd_max'] = 1e5
        return scn
    if i % 8 == 3:
        # cross-current exit class (added after seeded change C04-1 was missed): vertical release in a uniform
        # 0.2-0.3 m/s current, small bubbles of >= 2 dissolving compounds that stay in the plume, LARGE inert
        # droplets that leave it while the bubbles still dissolve, one tracer, long travel distance; the inert
        # class is listed last or first
        scn = scen_bpm.random_scenario(r, nparticles=2, depth=r.uniform(400., 900.), mix='gas', biodeg=False,
                                       background='none', current='uniform', strat='normal', wa=False)
        speed, ang = r.uniform(0.2, 0.3), r.uniform(0., 2. * math.pi)
        H = scn['profile']['H']
        scn['profile']['current'] = {'nodes': [[0., speed * math.cos(ang), speed * math.sin(ang), 0.],
                                               [H, speed * math.cos(ang), speed * math.sin(ang), 0.]], 'wa': False}
        gas = scn['particles'][0]
        comp = r.choice([['methane', 'ethane'], ['methane', 'ethane', 'propane'], ['methane', 'carbon_dioxide']])
        yk = [r.uniform(0.5, 0.9)] + [r.uniform(0.05, 0.3) for _ in comp[1:]]
        yk = [y / sum(yk) for y in yk]
        gas.update(kind='gas', composition=comp, yk=yk, k_bio=[0.] * len(comp), t_bio=[0.] * len(comp),
                   mdot=r.uniform(0.05, 0.5), de=r.uniform(0.001, 0.002), K=1., K_T=1., fdis=1e-6, t_hyd=0., dT0=0.)
        inert = {'kind': 'inert', 'rho_p': r.uniform(800., 900.), 'compressible': False, 'gamma': 30.,
                 'mdot': r.uniform(0.5, 3.), 'de': r.uniform(0.008, 0.012), 'k_bio': 0., 't_bio': 0.,
                 'lambda_1': 0.9, 'K': 1., 'K_T': 1., 'fdis': 1e-6, 't_hyd': 0., 'lag_time': False, 'dT0': 0.}
        scn['particles'] = [gas, inert] if r.random() < 0.6 else [inert, gas]
        scn['release'].update(D=0.3, Vj=1.0, phi_0=-math.pi / 2, theta_0=0., dt_max=60., sd_max=3000.,
                              tracers=['tracer0'], cj=[1.0])
        return scn
    scn = scen_bpm.random_scenario(r, nparticles=npart, depth=depth, mix=mix, biodeg=False, background='none')
    if i % 8 == 2:
        scn['release']['phi_0'] = 0.           # exactly horizontal release (end of the quantifier's range)
    scn['release']['sd_max'] = r.choice([r.uniform(30., 300.), r.uniform(30., 300.), 1e5])
    return scn


def _nonzero_sign_changes(x):
    """indices k (transition row k -> k+1 in the zero-free sign sequence) where the sign genuinely reverses"""
    idx, last = [], 0.
    for k, v in enumerate(x):
        s = int(v > 0) - int(v < 0)
        if s == 0:
            continue
        if last != 0 and s != last:
            idx.append(k)
        last = s
    return idx


def _element_rows(tam, prf, q):
    """per stored row, evaluated by the harness from the packed state and ITS OWN raw table of the scenario (not the
    Profile object): rho_a - rho, the element
    temperature and the half-width b (the same formulas LagElement.update uses, l.3157-3176)"""
    sw = tam['seawater']
    cp = float(sw.cp())
    n = q.shape[0]
    dr, Te, b = np.zeros(n), np.zeros(n), np.zeros(n)
    for k in range(n):
        Pa, Ta, Sa = [scen_bpm.table_value(prf.verif_table, q[k, 9], nm) for nm in ('pressure', 'temperature', 'salinity')]
        T = q[k, 2] / (q[k, 0] * cp)
        S = q[k, 1] / q[k, 0]
        rho = sw.density(float(T), float(S), float(Pa))
        dr[k] = sw.density(float(Ta), float(Sa), float(Pa)) - rho
        Te[k] = T
        V = math.sqrt(q[k, 3] ** 2 + q[k, 4] ** 2 + q[k, 5] ** 2) / q[k, 0]
        b[k] = math.sqrt(q[k, 0] / (rho * math.pi * (q[k, 6] * V))) if V > 0 else float('nan')
    return dr, Te, b


TAIL = 20           # stored steps after an exit until the ringing of the BDF history (order 5, variable step) has decayed
                    # (measured on 500 exits: up to 30 tol in step 1, up to 5 tol until step ~15, < 0.2 tol/step after step 20)


def replay_python(q, dr, D, sd_max):
    """the stop tests of lmp.calculate l.287-318 replayed on the stored rows -> (iteration index k or None, reasons)"""
    top = neu = 0
    Jz = q[:, 5]
    for k in range(q.shape[0] - 1):
        if np.sign(Jz[k]) != np.sign(Jz[k + 1]):
            top += 1
        if top > 0 and np.sign(dr[k]) != np.sign(dr[k + 1]):
            neu += 1
        r = []
        if neu >= 1:
            r.append('neutral')
        if q[k + 1, 10] / D > sd_max:
            r.append('distance')
        if k >= CAP:
            r.append('cap')
        if q[k + 1, 9] <= 0.:
            r.append('surface')
        if q[k + 1, 10] == q[k, 10]:
            r.append('stall')
        if r:
            return k + 1, r
    return None, []


_MOLAR = {}


def _molar_mass(name):
    """molar mass (kg/mol) from the harness's own parse of tamoc/data/ChemData.csv (column M, g/mol)"""
    if not _MOLAR:
        import os
        import csv
        import tamoc
        path = os.path.join(os.path.dirname(tamoc.__file__), 'data', 'ChemData.csv')
        with open(path) as fh:
            rows = list(csv.reader(fh))
        jM = rows[0].index('M')
        for row in rows[3:]:
            if row and row[0]:
                try:
                    _MOLAR[row[0]] = float(row[jM]) / 1000.
                except ValueError:
                    pass
    return _MOLAR[name]


CODE = {'neutral': 1, 'distance': 2, 'cap': 4, 'surface': 8, 'stall': 16}


def check_simulation(ctx, scn, bpm, prf, parts, tam):
    """property predicates on Model.t / Model.q; returns data for the Lean replay"""
    t, q = np.array(bpm.t, dtype=float), np.array(bpm.q, dtype=float)
    n = len(t)
    nch, ntr = len(bpm.chem_names), len(bpm.tracers)
    lay = scen_bpm.layout(parts, nch, ntr)
    base = {'scenario': scn, 'rows': n}
    if lay['len'] != q.shape[1]:
        ctx.violation('layout-length', 'state vector length is not 11 + sum(nc_i+5) + nchems + ntracers',
                      dict(base, expected=lay['len'], got=int(q.shape[1])))
        return None
    # ---- finiteness; NaN only in the position slots of exited particles, all three, for good ------------------
    posmask = np.zeros(q.shape[1], dtype=bool)
    for sl in lay['particles']:
        posmask[sl['X'][0]:sl['X'][1]] = True
    bad = np.argwhere(~np.isfinite(q[:, ~posmask]))
    if len(bad):
        k = int(bad[0][0])
        col = int(np.arange(q.shape[1])[~posmask][bad[0][1]])
        ctx.violation('nonfinite-value', 'a stored element quantity / particle mass / heat / age / concentration is not finite',
                      dict(base, row=k, slot=col, value=float(q[k, col]), t=float(t[k])))
    # ---- exit detected INDEPENDENTLY of the marks: Particle.track sets p_fac = 0 (and correct_particle_tracking then
    # switches the particle off) in the first stored row in which the particle is farther from the centreline than the
    # half-width b; the NaN marking is judged against that
    dr, Te, bw = _element_rows(tam, prf, q)
    exits = {}
    for i, sl in enumerate(lay['particles']):
        X = q[:, sl['X'][0]:sl['X'][1]]
        nanrow = np.isnan(X).any(axis=1)
        allnan = np.isnan(X).all(axis=1)
        if np.any(np.isinf(X)) or np.any(nanrow != allnan):
            k = int(np.argmax(np.isinf(X).any(axis=1) | (nanrow != allnan)))
            ctx.violation('position-marking', 'position slots of a particle are partly invalid (not all three NaN)',
                          dict(base, particle=i, row=k, X=[float(v) for v in X[k]]))
            continue
        lp = np.sqrt(np.sum(X ** 2, axis=1))
        kg, ambiguous = None, False
        for k in range(n):
            if nanrow[k]:
                break
            if abs(lp[k] - bw[k]) <= 1e-9 * bw[k]:
                ambiguous = True
                break
            if lp[k] > bw[k]:
                kg = k
                break
        if ambiguous:
            ctx.count('exit-geometry-ambiguous')
            continue
        first_nan = int(np.argmax(nanrow)) if nanrow.any() else None
        if kg is None:
            if first_nan is not None:
                ctx.violation('marked-without-exit', 'positions of a particle are NaN-marked although it was never farther from the centreline than the half-width in a stored row',
                              dict(base, particle=i, first_nan_row=first_nan, lp_over_b=float(lp[first_nan - 1] / bw[first_nan - 1]) if first_nan else None))
            continue
        ctx.count('particle-exits')
        exits[i] = kg
        if kg < n - 1:
            if first_nan != kg + 1 or not nanrow[kg + 1:].all():
                ctx.violation('exit-not-marked', 'a particle left the plume (distance from the centreline > half-width) in a stored row but its positions are not NaN-marked from the next row on',
                              dict(base, particle=i, exit_row=kg, lp_over_b=float(lp[kg] / bw[kg]), first_nan_row=first_nan,
                                   X_next=[float(v) for v in X[kg + 1]]))
        if bool(parts[i].integrate):
            ctx.violation('exit-not-marked', 'a particle left the plume in a stored row but is still flagged integrate=True at the end',
                          dict(base, particle=i, exit_row=kg))
    # ---- particle heat after heat transfer is switched off (correct_temperature): either the particle is still more than
    # 0.5 K from the element temperature, or its stored heat is m*cp*T_element
    for i, sl in enumerate(lay['particles']):
        a_, e_ = sl['m']
        cp_p = float(parts[i].cp)
        for k in range(1, n):
            msum = float(np.sum(np.where(q[k, a_:e_] < 0., 0., q[k, a_:e_])))
            if not (msum > 0.) or not math.isfinite(q[k, sl['H']]):
                continue
            Tp = q[k, sl['H']] / (msum * cp_p)
            if abs(Tp - Te[k]) < 0.5 * (1. - 1e-9) and not close(float(Tp), float(Te[k]), TOL['identity']):
                ctx.violation('particle-heat-not-corrected', 'stored particle heat is neither that of a particle still exchanging heat (more than 0.5 K from the element) nor m*cp*T of the element temperature',
                              dict(base, particle=i, row=k, T_particle=float(Tp), T_element=float(Te[k])))
                break
    # ---- the first element against the scenario spec: particle class i holds mdot_i * w_ic * dt_fill of compound c (w = mass
    # fraction from yk and the molar masses of ChemData.csv, parsed here), one common fill time dt_fill (= D / (5 Vj) for a
    # jet), and its dissolved pool is empty when the water holds none of the compounds
    fills = []
    for i, sp in enumerate(scn['particles']):
        a_, e_ = lay['particles'][i]['m']
        if sp['kind'] == 'inert':
            w = np.array([1.])
        else:
            M_ = np.array([_molar_mass(x) for x in sp['composition']])
            w = np.array(sp['yk'], dtype=float) * M_
            w = w / np.sum(w)
        for c_ in range(e_ - a_):
            if w[c_] > 0:
                fills.append((i, c_, q[0, a_ + c_] / (sp['mdot'] * w[c_])))
            elif q[0, a_ + c_] != 0.:
                ctx.violation('first-element-vs-spec', 'a compound released with mole fraction 0 has a non-zero mass in the first element',
                              dict(base, particle=i, compound_slot=c_, mass=float(q[0, a_ + c_])))
    if fills:
        dts = np.array([f[2] for f in fills])
        dt0 = float(np.median(dts))
        if scn['release']['Vj'] > 0:
            dt0 = scn['release']['D'] / (5. * scn['release']['Vj'])
        badf = [f for f in fills if not close(float(f[2]), dt0, 1e-9)]
        if badf:
            ctx.violation('first-element-vs-spec', 'the first element does not hold (mass flux of the class) x (mass fraction of the compound) x (one common fill time%s) of every particle compound'
                          % (' D/(5 Vj)' if scn['release']['Vj'] > 0 else ''),
                          dict(base, expected_fill_time=dt0, particle=badf[0][0], compound_slot=badf[0][1], implied_fill_time=float(badf[0][2])))
    if not scn['profile'].get('background') and not (scn.get('append_later') or {}).get('background'):
        a_, e_ = lay['chems']
        if np.any(q[0, a_:e_] != 0.):
            ctx.violation('first-element-vs-spec', 'the dissolved pool of the first element is not empty although the water holds none of the released compounds',
                          dict(base, pool=[float(x) for x in q[0, a_:e_]]))
    # ---- compound totals ---------------------------------------------------------------------------------
    worst = 0.
    names = [str(x) for x in bpm.chem_names]
    tracked = []
    for p in parts:
        if p.particle.issoluble:
            tracked += [str(x) for x in p.composition if str(x) not in tracked]
    for X in tracked:
        # BY NAME: the particle's own composition.index(X) slot + the element's chem_names.index(X) pool slot
        if X not in names:
            ctx.violation('compound-not-tracked', 'a compound of a dissolving particle has no dissolved-pool slot', dict(base, compound=X))
            continue
        tot = q[:, lay['chems'][0] + names.index(X)].copy()
        scale = np.abs(tot).copy()
        for i, p in enumerate(parts):
            comp = [str(x) for x in p.composition]
            if p.particle.issoluble and X in comp:
                col = lay['particles'][i]['m'][0] + comp.index(X)
                tot += q[:, col]
                scale += np.abs(q[:, col])
        if not np.all(np.isfinite(tot)) or scale[0] == 0.:
            continue
        dev = np.abs(tot - tot[0]) / scale[0]
        worst = max(worst, float(np.max(dev)))
        if np.max(dev) > TOL['conservation_drift']:
            k = int(np.argmax(dev))
            ctx.violation('compound-drift', 'total mass of a compound (its slot in every particle + its dissolved-pool slot, matched by NAME) departs from the amount carried by the first element',
                          dict(base, compound=X, row=k, t=float(t[k]), total0=float(tot[0]),
                               total=float(tot[k]), relative=float(dev[k])))
    # ---- inert mass --------------------------------------------------------------------------------------
    for i, p in enumerate(parts):
        if not p.particle.issoluble:
            m = q[:, lay['particles'][i]['m'][0]]
            if np.all(np.isfinite(m)) and m[0] > 0:
                dev = np.abs(m - m[0]) / m[0]
                worst = max(worst, float(np.max(dev)))
                if np.max(dev) > TOL['conservation_drift']:
                    k = int(np.argmax(dev))
                    ctx.violation('inert-mass-changes', 'mass of an inert particle class is not constant',
                                  dict(base, particle=i, row=k, m0=float(m[0]), m=float(m[k])))
    # ---- masses after exit: PER-STEP bounds.  tol = rtol*|m_exit| + atol is what one accepted step may add to a
    # component with zero right-hand side.  Steps 1..TAIL after the exit: the BDF history still holds pre-exit values
    # (known finding exit-masses-drift) but cannot move the slot faster than 1.5 x the pre-exit rate; later: <= tol per step
    # and <= 3 tol in total
    worst_frozen = 0.
    drifts = []
    for i, kg in exits.items():
        a_, e_ = lay['particles'][i]['m']
        ref = q[kg, a_:e_]                        # the state in which the exit was detected (particles[i].me)
        tol = VODE_RTOL * np.abs(ref) + VODE_ATOL
        lo = max(1, kg - 4)
        trend = np.max(np.abs(np.diff(q[lo - 1:kg + 1, a_:e_], axis=0)) / np.diff(t[lo - 1:kg + 1])[:, None], axis=0) if kg >= 1 else np.zeros(e_ - a_)
        for k in range(kg + 1, n):
            j = k - kg
            d = np.abs(q[k, a_:e_] - q[k - 1, a_:e_])
            worst_frozen = max(worst_frozen, float(np.max(d / tol)))
            info = dict(base, particle=i, exit_row=kg, row=k, steps_after_exit=j)
            if j <= TAIL:
                over = d > 1.5 * trend * (t[k] - t[k - 1]) + tol
                if np.any(over):
                    c = int(np.argmax(over))
                    ctx.violation('exit-masses-change', 'a mass slot of a particle that left the plume moves faster than before the exit (not an extrapolation of the integrator history)',
                                  dict(info, slot=a_ + c, step_change=float(d[c]), pre_exit_rate_times_dt=float(trend[c] * (t[k] - t[k - 1])), tol=float(tol[c])))
                    break
                if np.any(d > tol):
                    c = int(np.argmax(d / tol))
                    drifts.append((float(d[c] / tol[c]), dict(info, slot=a_ + c, mass_at_exit=float(ref[c]), mass_before=float(q[k - 1, a_ + c]),
                                                              mass=float(q[k, a_ + c]), step_change=float(d[c]), step_change_over_tol=float(d[c] / tol[c]))))
            else:
                cum = np.abs(q[k, a_:e_] - q[kg + TAIL, a_:e_])
                if np.any(d > tol) or np.any(cum > 3. * tol):
                    c = int(np.argmax(np.maximum(d / tol, cum / (3. * tol))))
                    ctx.violation('exit-masses-change', 'recorded masses of a particle still change more than %d stored steps after it left the plume (per step > rtol |m| + atol or in total > 3 (rtol |m| + atol))' % TAIL,
                                  dict(info, slot=a_ + c, mass_at_exit=float(ref[c]), mass=float(q[k, a_ + c]), step_change=float(d[c]),
                                       change_since_tail=float(cum[c]), tol=float(tol[c])))
                    break
    # ---- stop reason ---------------------------------------------------------------------------------------
    rel = scn['release']
    kstop, reasons = replay_python(q, dr, float(bpm.D), float(rel['sd_max']))
    if kstop != n - 1:
        # the neutral-buoyancy test compares np.sign(rho_a - rho) of consecutive rows; a first element made of ambient
        # water (pure multiphase release) has rho_a - rho == 0. EXACTLY in the code, while the harness's own table
        # interpolation of P, T, S may differ from the code's in the last bit (|difference| ~ 1e-13 kg/m^3).  A density
        # difference below 5e-12 kg/m^3 (a few units in the last place of rho) is therefore also tried as exactly zero; the ending must match one reading
        dr_z = np.where(np.abs(dr) < 5e-12, 0., dr)
        k2, r2 = replay_python(q, dr_z, float(bpm.D), float(rel['sd_max']))
        if k2 == n - 1:
            kstop, reasons, dr = k2, r2, dr_z
            ctx.count('density-difference-read-as-exact-zero')
    if n < 2:
        ctx.violation('stopped-for-no-listed-reason', 'simulation returned without taking a step', dict(base))
    elif kstop is None:
        ctx.violation('stopped-for-no-listed-reason',
                      'simulation ended although none of surface / neutral-after-peak / distance / stall / cap holds in the last row (integrator failure or an undocumented stop test)',
                      dict(base, z_end=float(q[-1, 9]), s_over_D=float(q[-1, 10] / bpm.D), sd_max=float(rel['sd_max'])))
    elif kstop != n - 1:
        ctx.violation('ran-past-stop-test', 'simulation continued after a row that satisfies a documented stop test',
                      dict(base, stop_row=kstop, reasons=reasons))
    else:
        for rs in reasons:
            ctx.count('stop=' + rs)
        if reasons == ['neutral']:
            # physical meaning of "neutral buoyancy after the peak": the vertical momentum really reversed, and the
            # density difference really reversed at or after that
            peaks = _nonzero_sign_changes(q[:, 5])
            neutr = _nonzero_sign_changes(dr)
            ok = bool(peaks) and any(kk >= peaks[0] for kk in neutr)
            if not ok:
                ctx.violation('neutral-stop-before-peak' if rel['phi_0'] == 0. else 'neutral-stop-without-peak',
                              'simulation stopped by the neutral-buoyancy counter although the plume never passed a peak (vertical momentum never reversed) / never re-crossed neutral buoyancy after it',
                              dict(base, phi_0=rel['phi_0'], Vj=rel['Vj'], Jz_first=[float(v) for v in q[:3, 5]],
                                   drho_first=[float(v) for v in dr[:3]], t_end=float(t[-1]), s_end=float(q[-1, 10]),
                                   genuine_momentum_reversals=len(peaks), genuine_density_reversals=len(neutr)))
    obs = [[q[k, 5], q[k + 1, 5], dr[k], dr[k + 1], q[k + 1, 10], q[k, 10], q[k + 1, 9], float(bpm.D), float(rel['sd_max'])]
           for k in range(n - 1)]
    return {'n': n, 'obs': obs, 'kstop': kstop, 'reasons': reasons, 'worst': worst, 'worst_frozen': worst_frozen, 'lay': lay,
            'q': q, 'drifts': drifts}


def corrections_case(ctx, tam, parts, lay, row):
    """call the REAL correct_temperature / correct_particle_tracking on a synthetic pre-correction vector"""
    r = ctx.rng
    y = np.array(row, dtype=float)
    y[np.isnan(y)] = 0.25
    flags = [r.random() < 0.6 for _ in parts]
    pfz = [r.random() < 0.3 for _ in parts]
    for i, sl in enumerate(lay['particles']):
        y[sl['H']] *= r.uniform(0.5, 1.5)                   # the heat slot the solver holds is "wrong"
    saved = [(pt.integrate, getattr(pt, 'p_fac', 1.)) for pt in parts]
    for pt, f, z in zip(parts, flags, pfz):
        pt.integrate = bool(f)
        pt.p_fac = 0. if z else 0.5
    before = y.copy()
    rr = types.SimpleNamespace(y=y)
    rr = tam['lmp'].correct_temperature(rr, parts)
    rr = tam['lmp'].correct_particle_tracking(rr, parts)
    after = np.array(rr.y, dtype=float)
    flags_after = [bool(pt.integrate) for pt in parts]
    args = [before, float('nan')]
    for pt, f in zip(parts, flags):
        args += [int(f), int(bool(pt.particle.issoluble)), int(pt.particle.nc), np.atleast_1d(np.asarray(pt.m, dtype=float)),
                 [float(pt.nbe), float(pt.cp), float(pt.T)]]
    for pt, (fl, pf) in zip(parts, saved):
        pt.integrate, pt.p_fac = fl, pf
    return {'before': before, 'after': after, 'flags': flags, 'pfz': pfz, 'flags_after': flags_after,
            'line': req('Lmp.correct', *args)}



# ---------------------------------------------------------------------------------------------
# the REAL loop of lmp.calculate driven by a stubbed integrator on crafted observation sequences
# ---------------------------------------------------------------------------------------------

class _FakeLocal(object):
    """stands in for LagElement: the stop tests read Jz, rho_a, rho, D only"""
    def __init__(self, D):
        self.D = D
        self.Jz = self.rho_a = self.rho = 0.

    def update(self, t, q, profile, p, particles=[]):
        self.Jz, self.rho_a, self.rho = float(q[5]), float(q[11]), float(q[12])


def _row(Jz, dr, s, z):
    q = np.zeros(13)
    q[0], q[5], q[9], q[10], q[11], q[12] = 1., Jz, z, s, 1000. + dr, 1000.
    return q


def run_real_loop(tam, rowfn, nsucc, D, sd_max):
    """call the real lmp.calculate with scipy's ode replaced by a stub that returns rowfn(k) as the state after step k;
    nsucc = number of steps after which r.successful() turns False; returns the number of stored rows"""
    lmp = tam['lmp']

    class FakeODE(object):
        def __init__(self, f):
            self.k = 0

        def set_integrator(self, *a, **kw):
            return self

        def set_initial_value(self, y, t):
            self.y, self.t = np.array(y, dtype=float), t
            return self

        def set_f_params(self, *a):
            pass

        def successful(self):
            return self.k < nsucc

        def integrate(self, t, step=True):
            self.k += 1
            self.y, self.t = np.array(rowfn(self.k), dtype=float), t

    saved = lmp.integrate
    lmp.integrate = types.SimpleNamespace(ode=FakeODE)
    try:
        q0 = np.array(rowfn(0), dtype=float)
        loc = _FakeLocal(D)
        loc.update(0., q0, None, None)
        with scen_bpm.silence():
            t, q = lmp.calculate(0., q0, loc, None, None, [], None, 1., sd_max)
    finally:
        lmp.integrate = saved
    return len(t), q


def stop_logic_cases(ctx):
    """(name, rows or generator, nsucc, D, sd_max): every threshold at its edge, every ending"""
    r = ctx.rng
    up = lambda k: _row(-1., 1., float(k), 100. - 0.001 * k)        # rising, buoyant, advancing: nothing fires
    cases = []
    seq = lambda rows: (lambda k: rows[min(k, len(rows) - 1)])
    # distance: s/D == sd_max does NOT stop (>), the next row does
    cases.append(('distance-edge', seq([_row(-1, 1, 0, 50), _row(-1, 1, 5, 49), _row(-1, 1, 10, 48), _row(-1, 1, 10.5, 47), _row(-1, 1, 11, 46)]), 99, 2., 5.))
    # surface: z = 1e-12 does not stop, z == 0 stops (<=)
    cases.append(('surface-edge', seq([_row(-1, 1, 0, 3), _row(-1, 1, 1, 1e-12), _row(-1, 1, 2, 0.), _row(-1, 1, 3, -1.)]), 99, 1., 1e9))
    cases.append(('surface-negative', seq([_row(-1, 1, 0, 3), _row(-1, 1, 1, -0.5), _row(-1, 1, 2, -1.)]), 99, 1., 1e9))
    # stall: equal arc length in consecutive rows
    cases.append(('stall', seq([_row(-1, 1, 0, 50), _row(-1, 1, 1, 49), _row(-1, 1, 1, 48), _row(-1, 1, 2, 47)]), 99, 1., 1e9))
    # NOT a stall: one stored step advances the arc length by a tiny but non-zero amount (the solver cut its step after a
    # derivative discontinuity), then normal steps; the loop must go on and end for the reason the sequence triggers later
    for eps in (1e-12, 1e-9, 1e-7, 3e-7):
        s1 = 10. * (1. + eps)
        assert s1 != 10.
        cases.append(('tiny-advance-%g-then-distance' % eps, seq([_row(-1, 1, 0, 50), _row(-1, 1, 10., 49), _row(-1, 1, s1, 48.9), _row(-1, 1, 11, 48), _row(-1, 1, 12, 47),
                                                                  _row(-1, 1, 40, 46), _row(-1, 1, 41, 45)]), 99, 2., 15.))
        cases.append(('tiny-advance-%g-then-surface' % eps, seq([_row(-1, 1, 0, 5), _row(-1, 1, 10., 4), _row(-1, 1, s1, 3.9), _row(-1, 1, s1 * (1. + eps), 3.8), _row(-1, 1, 11, 2),
                                                                 _row(-1, 1, 12, 0.), _row(-1, 1, 13, -1)]), 99, 2., 1e9))
        cases.append(('tiny-advance-%g-then-exact-stall' % eps, seq([_row(-1, 1, 0, 50), _row(-1, 1, 10., 49), _row(-1, 1, s1, 48.9), _row(-1, 1, 11, 48), _row(-1, 1, 11, 47),
                                                                     _row(-1, 1, 12, 46)]), 99, 2., 1e9))
    # neutral buoyancy: a density reversal BEFORE the peak does not count, the first one at/after the peak stops
    cases.append(('neutral-after-peak', seq([_row(-1, 1, 0, 50), _row(-1, -1, 1, 49), _row(1, -1, 2, 48), _row(1, -1, 3, 49), _row(1, 1, 4, 50), _row(1, 1, 5, 51)]), 99, 1., 1e9))
    cases.append(('neutral-same-step', seq([_row(-1, 1, 0, 50), _row(-1, 1, 1, 49), _row(1, -1, 2, 48), _row(1, -1, 3, 49)]), 99, 1., 1e9))
    cases.append(('no-peak-no-stop', seq([_row(-1, 1, 0, 50), _row(-1, -1, 1, 49), _row(-1, 1, 2, 48), _row(-1, -1, 3, 47), _row(-1, -1, 4, 46)] + [up(k) for k in range(5, 12)]), 9, 1., 1e9))
    # integrator failure: nothing fires, r.successful() turns False after 3 steps
    cases.append(('integrator-failure', up, 3, 1., 1e9))
    # iteration cap: nothing fires for 50 000 passes
    cases.append(('cap', up, 10 ** 9, 1., 1e9))
    for i in range(ctx.n(20, 200)):
        nrow = r.randint(3, 25)
        Jz, dr, s, z = r.choice([-1., 1.]), r.choice([-1., 1.]), 0., r.uniform(1., 20.)
        D, sd = r.choice([0.5, 1., 2.]), r.choice([4., 8., 1e9])
        rows = []
        for k in range(nrow):
            rows.append(_row(Jz, dr, s, z))
            if r.random() < 0.15:
                Jz = -Jz
            if r.random() < 0.1:
                Jz = 0.
            if r.random() < 0.15:
                dr = -dr
            s += r.choice([1., 1., 0.5, 0., max(s, 1.) * r.choice([1e-12, 1e-9, 1e-7, 3e-7])])
            if r.random() < 0.2:
                s = sd * D if r.random() < 0.5 else s
            z -= r.choice([1., 2., 0.5])
            if r.random() < 0.1:
                z = 0.
        rows += [_row(Jz, dr, s + 1. + k, z) for k in range(3)]
        cases.append(('random-%d' % i, seq(rows), r.choice([99, r.randint(1, nrow)]), D, sd))
    return cases


def check_stop_logic(ctx, tam, lean_ok):
    cases = stop_logic_cases(ctx)
    lines, want = [], []
    for name, rowfn, nsucc, D, sd_max in cases:
        nrows, q = run_real_loop(tam, rowfn, nsucc, D, sd_max)
        ctx.evaluations += 1
        dr = q[:, 11] - q[:, 12]
        # what the documented tests say on the rows the stub produces (as many as the real loop could have used)
        nmax = min(nsucc, CAP + 1)
        qfull = np.array([rowfn(k) for k in range(min(nmax, 40) + 1)]) if name != 'cap' else None
        if name == 'cap':
            exp_rows, exp = CAP + 2, ['cap']
        else:
            kstop, rs = replay_python(qfull, qfull[:, 11] - qfull[:, 12], D, sd_max)
            exp_rows, exp = ((kstop + 1), rs) if kstop is not None else (nmax + 1, ['integrator-failed'])
        ctx.count('stop-logic:' + (name if not name.startswith('random') else 'random') + ':' + '+'.join(exp))
        if nrows != exp_rows:
            ctx.violation('stop-logic:' + (name if not name.startswith('random') else 'random'),
                          'the loop of lmp.calculate, driven by a stubbed integrator, stored %d rows where the documented stop tests (neutral after peak, s/D > sd_max, k >= 50000, z <= 0, stalled) give %d (%s)'
                          % (nrows, exp_rows, '+'.join(exp)),
                          {'case': name, 'D': D, 'sd_max': sd_max, 'steps_before_integrator_failure': nsucc,
                           'rows_Jz_dr_s_z': [[float(x[5]), float(x[11] - x[12]), float(x[10]), float(x[9])] for x in (qfull if qfull is not None else q[:5])]})
        if name == 'cap':
            o0 = rowfn(0)
            o1 = rowfn(1)
            lines.append(req('Lmp.calculateConst', CAP, nsucc if nsucc < 10 ** 8 else CAP + 5,
                             [o0[5], o1[5], o0[11] - o0[12], o1[11] - o1[12], o1[10], o0[10], o1[9], D, sd_max]))
        else:
            obs = [[qfull[k, 5], qfull[k + 1, 5], qfull[k, 11] - qfull[k, 12], qfull[k + 1, 11] - qfull[k + 1, 12], qfull[k + 1, 10], qfull[k, 10],
                    qfull[k + 1, 9], D, sd_max] for k in range(len(qfull) - 1)]
            lines.append(req('Lmp.calculate', CAP, nsucc, *obs))
        want.append((name, nrows))
    floors = ['distance', 'surface', 'stall', 'neutral', 'cap', 'integrator-failed']
    seen = {f: sum(v for k, v in ctx.hist.items() if k.startswith('stop-logic:') and f in k.split(':')[-1].split('+')) for f in floors}
    ctx.oblige('floor: the stubbed-integrator runs of the real loop end in every way (%r)' % seen, all(v >= 1 for v in seen.values()), repr(seen))
    return lines, want


def _tamoc():
    from tamoc import lmp, seawater, bent_plume_model
    return {'lmp': lmp, 'seawater': seawater, 'bpm': bent_plume_model}


def run(ctx, lean_ok):
    warnings.filterwarnings('ignore')
    tam = _tamoc()
    nscn = ctx.n(8, 160)
    sims = []
    lines = []
    corr = []
    drv = []
    nrej = 0
    all_drifts = []
    worst = worst_frozen = 0.
    for i in range(nscn):
        scn = _scenario(ctx, i)
        try:
            with np.errstate(all='ignore'):
                bpm, prf, parts = scen_bpm.simulate(scn)
        except Exception as e:
            # an exception is not among the admissible endings of a simulation (surface, neutral buoyancy after the
            # peak, travel distance, stall, iteration cap): every generated scenario is a valid input and completes on
            # the unchanged tree, so a raise is reported with the scenario as replay
            ctx.count('simulation-raised:' + type(e).__name__)
            ctx.notes.append('scenario %d raised %s: %s' % (i, type(e).__name__, str(e)[:120]))
            ctx.violation('simulation-raised:' + type(e).__name__,
                          'bent-plume simulation of a valid scenario raised %s instead of ending in a documented way' % type(e).__name__,
                          {'scenario': scn, 'exception': '%s: %s' % (type(e).__name__, str(e)[:300])})
            nrej += 1
            continue
        ctx.evaluations += 1
        kinds = [sp['kind'] for sp in scn['particles']]
        ctx.count('particles=%d' % len(parts))
        ctx.count('release=' + ('multiphase' if scn['release']['Vj'] == 0. else 'jet+particles'))
        ctx.count('orientation=' + ('vertical' if scn['release']['phi_0'] == -math.pi / 2 else 'horizontal' if scn['release']['phi_0'] == 0. else 'oblique'))
        for kd in set(kinds):
            ctx.count('class=' + kd)
        with np.errstate(all='ignore'):
            res = check_simulation(ctx, scn, bpm, prf, parts, tam)
        if res is None:
            continue
        if res['n'] > 3:
            ctx.nontrivial.add(i)
        worst = max(worst, res['worst'])
        worst_frozen = max(worst_frozen, res['worst_frozen'])
        ctx.sample({'kinds': kinds, 'depth': scn['depth'], 'phi_0': scn['release']['phi_0'], 'Vj': scn['release']['Vj'],
                    'rows': res['n'], 'stop': res['reasons'], 'worst_total_drift': res['worst']})
        sims.append((scn, res))
        all_drifts.extend(res['drifts'])
        lines.append(req('Lmp.calculate', CAP, res['n'] - 1, *res['obs']))
        # lmp.derivs on stored rows of this simulation (first, last, one after an exit): budgets on the real vector with
        # oracle ambient values, and the rows are kept for the slot-by-slot comparison with the Lean model
        qq, tt = res['q'], np.array(bpm.t, dtype=float)
        nanany = np.isnan(qq).any(axis=1)
        ks = sorted(set([1, res['n'] - 1] + ([int(np.argmax(nanany)) + ctx.rng.randint(0, 2)] if nanany.any() else [])))
        for k in [k for k in ks if 1 <= k < res['n']]:
            flags = [not np.isnan(qq[k, sl['X'][0]]) for sl in res['lay']['particles']]
            try:
                with np.errstate(all='ignore'):
                    rs = c03.eval_state(tam, bpm, prf, parts, qq[k - 1], tt[k - 1], qq[k], tt[k], flags, 'stored')
            except Exception as e:
                ctx.count('stored-row-derivs-rejected:' + type(e).__name__)
                continue
            ctx.count('stored-row-derivs' + (':post-exit' if not all(flags) else ''))
            case = {'scenario': scn, 'row': k, 'flags': flags}
            c03.closure_checks_python(ctx, case, rs)
            for i_, blk in c03.outside_nonzero(rs['qp'], rs['ps'], rs['lay']):
                ctx.violation('outside-particle-contributes', 'a particle outside the plume has a non-zero derivative slot in a stored row', dict(case, particle=i_, block=blk))
            if np.all(np.isfinite(rs['qp'])):
                for key, lhs, rhs, scale in c03.budgets(rs['qp'], c03._oracle_env(rs['env'], rs['ind']), rs['ps'], rs['lay'], q=rs['q']):
                    if abs(lhs - rhs) > TOL['identity'] * scale + TOL['abs_floor']:
                        ctx.violation(key + '-budget', 'budget does not close on lmp.derivs of a stored row: %s' % key,
                                      dict(case, budget=key, lhs=float(lhs), rhs=float(rhs), scale=float(scale)))
            drv.append((case, rs))
        # corrections on two rows of this simulation
        for k in sorted(set([res['n'] - 1, ctx.rng.randint(0, res['n'] - 1)])):
            try:
                corr.append((scn, k, corrections_case(ctx, tam, parts, res['lay'], res['q'][k])))
            except Exception as e:
                ctx.count('corrections-rejected:' + type(e).__name__)
    ctx.oblige('floor: at least 85 %% of the scenarios completed (%d of %d)' % (len(sims), nscn), len(sims) >= 0.85 * nscn, '')
    floors = {'particle-exits': ctx.n(1, 60), 'stop=surface': 1, 'stop=neutral': 1, 'stop=distance': 1, 'orientation=horizontal': 1,
              'release=multiphase': 1, 'release=jet+particles': 1, 'class=inert': 1, 'class=gas': 1, 'stored-row-derivs:post-exit': ctx.n(1, 40)}
    short = {k: ctx.hist.get(k, 0) for k, v in floors.items() if ctx.hist.get(k, 0) < v}
    ctx.oblige('floor: every regime reached (%s)' % ', '.join('%s>=%d' % kv for kv in sorted(floors.items())), not short, 'below floor: %r' % short)
    if nrej:
        ctx.notes.append('%d of %d scenarios raised before completing (counted, not judged here)' % (nrej, nscn))
    if not sims:
        ctx.oblige('at least one complete simulation', False, 'every scenario raised')
        return
    for _ratio, case in sorted(all_drifts, key=lambda x: -x[0]):
        ctx.violation('exit-masses-drift', 'within the first %d stored steps after a particle left the plume its recorded masses still move by more than rtol*|m| + atol per step (integrator history; never faster than 1.5 x the rate before the exit)' % TAIL,
                      case)
    if all_drifts:
        ctx.notes.append('%d stored steps (first %d after an exit) moved a mass slot by more than rtol*|m|+atol; worst %.1f times that; largest relative step %.3g'
                         % (len(all_drifts), TAIL, max(x[0] for x in all_drifts),
                            max(x[1]['step_change'] / abs(x[1]['mass_at_exit']) for x in all_drifts if x[1]['mass_at_exit'] != 0)))
    ctx.notes.append('worst relative drift of a compound total / inert mass over all simulations: %.3g' % worst)
    ctx.notes.append('largest per-step change of a mass slot after its particle left the plume, in units of rtol*|m|+atol: %.3g' % worst_frozen)

    # ---- corrections: property of the real functions (heat / position slots only) ----------------------------
    for scn, k, cc in corr:
        before, after = cc['before'], cc['after']
        changed = np.where(~((before == after) | (np.isnan(before) & np.isnan(after))))[0]
        ctx.evaluations += 1
        allowed = set()
        idx = 11
        for sp, f in zip(scn['particles'], cc['flags']):
            nc = 1 if sp['kind'] == 'inert' else len(sp['composition'])
            allowed.add(idx + nc)
            if not f:
                allowed.update([idx + nc + 2, idx + nc + 3, idx + nc + 4])
                if not all(math.isnan(after[j]) for j in (idx + nc + 2, idx + nc + 3, idx + nc + 4)):
                    ctx.violation('position-marking', 'correct_particle_tracking did not NaN-mark the positions of a particle with integrate=False',
                                  {'scenario': scn, 'row': k, 'flags': cc['flags'], 'after': [float(v) for v in after]})
            idx += nc + 5
        extra_changed = [int(j) for j in changed if int(j) not in allowed]
        if extra_changed:
            ctx.violation('correction-touches-other-slot', 'correct_temperature / correct_particle_tracking changed a slot that is neither a particle heat slot nor a position slot of an exited particle',
                          {'scenario': scn, 'row': k, 'flags': cc['flags'], 'slots': extra_changed,
                           'before': [float(before[j]) for j in extra_changed], 'after': [float(after[j]) for j in extra_changed]})
        want = [False if z else f for f, z in zip(cc['flags'], cc['pfz'])]
        if want != cc['flags_after']:
            ctx.violation('exit-flag', 'integrate flag after correct_particle_tracking is not (False if p_fac == 0 else unchanged)',
                          {'scenario': scn, 'row': k, 'flags': cc['flags'], 'p_fac_zero': cc['pfz'], 'flags_after': cc['flags_after']})

    # ---- the real stop logic on crafted observation sequences (stubbed integrator) ------------------------------
    sl_lines, sl_want = check_stop_logic(ctx, tam, lean_ok)

    # ---- Lean: replay of the loop control, corrections ----------------------------------------------------------
    if not lean_ok:
        return
    drv_lines = [c03._encode(rs['env'], rs['ps']) for _c, rs in drv]
    out = run_driver(ctx, 'C04', lines + [cc['line'] for _s, _k, cc in corr] + sl_lines + drv_lines)
    if out is None:
        return
    nbad = 0
    for (case, rs), o in zip(drv, out[len(lines) + len(corr) + len(sl_lines):]):
        sc = c03._slot_scales(rs['env'], rs['ps'], rs['lay'], rs['qp'])
        ok = isinstance(o, list) and isinstance(o[0], list) and len(o[0]) == len(rs['qp']) and all(
            close(float(a), float(b), TOL['gen_vs_source'], abs_floor=TOL['gen_vs_source'] * (sc[j] if math.isfinite(sc[j]) else 0.) + TOL['abs_floor'])
            for j, (a, b) in enumerate(zip(o[0], rs['qp'])))
        if not ok:
            nbad += 1
            if nbad <= 3:
                ctx.broken.append(('correspondence', 'Model.Lmp.derivs vs lmp.derivs on a stored row', 'row %d flags %r' % (case['row'], case['flags'])))
    ctx.oblige('correspondence Model.Lmp.derivs == lmp.derivs slot by slot on %d stored rows (%d after an exit)' % (len(drv), ctx.hist.get('stored-row-derivs:post-exit', 0)),
               nbad == 0, '%d rows disagree' % nbad)
    nbad = 0
    for (name, nrows), o in zip(sl_want, out[len(lines) + len(corr):]):
        # rows stored by the real loop = passes + 1; the model reports the pass counter
        ok = isinstance(o, list) and len(o) == 5 and o[1] + 1 == nrows
        if not ok:
            nbad += 1
            if nbad <= 3:
                ctx.broken.append(('correspondence', 'Model.Lmp.calculate vs the real loop of lmp.calculate (stubbed integrator)',
                                   'case %s: model %r, real loop stored %d rows' % (name, o, nrows)))
    ctx.oblige('correspondence Model.Lmp.calculate == real lmp.calculate loop on %d crafted observation sequences (all thresholds at their edges, cap, stall, integrator failure)' % len(sl_want),
               nbad == 0, '%d sequences disagree' % nbad)
    nbad = 0
    for (scn, res), o in zip(sims, out[:len(sims)]):
        want_kind = 'stopped' if res['kstop'] is not None else 'failed'
        want_k = res['kstop'] if res['kstop'] is not None else res['n'] - 1
        want_code = sum(CODE[x] for x in res['reasons'])
        ok = isinstance(o, list) and len(o) == 5 and o[0] == want_kind and o[1] == want_k and o[4] == want_code
        if not ok:
            nbad += 1
            if nbad <= 3:
                ctx.broken.append(('correspondence', 'Model.Lmp.calculate replay vs stored simulation',
                                   'model %r; stored rows say %s at iteration %r reasons %r' % (o, want_kind, want_k, res['reasons'])))
    ctx.oblige('replay of %d stored simulations through Model.Lmp.calculate: same iteration count and stop reasons' % len(sims),
               nbad == 0, '%d simulations disagree' % nbad)
    nbad = 0
    for (scn, k, cc), o in zip(corr, out[len(sims):]):
        ok = isinstance(o, list) and len(o) == 1 and isinstance(o[0], list) and \
            close([float(x) for x in o[0]], [float(x) for x in cc['after']], TOL['gen_vs_source'])
        if not ok:
            nbad += 1
            if nbad <= 3:
                ctx.broken.append(('correspondence', 'Model.Lmp.correct{Temperature,ParticleTracking} vs lmp.correct_*',
                                   'row %d flags %r: model %r code %r' % (k, cc['flags'], o, [float(x) for x in cc['after']])))
    ctx.oblige('correspondence Model.Lmp.correctTemperature/correctParticleTracking == lmp.correct_* on %d vectors' % len(corr),
               nbad == 0, '%d vectors disagree' % nbad)


def replay(ctx, path):
    """re-run the recorded scenario on the real code and re-evaluate the predicates"""
    import json
    warnings.filterwarnings('ignore')
    tam = _tamoc()
    rec = json.load(open(path))
    scn = rec['case']['scenario']
    with np.errstate(all='ignore'):
        bpm, prf, parts = scen_bpm.simulate(scn)
        res = check_simulation(ctx, scn, bpm, prf, parts, tam)
    for _ratio, case in (res['drifts'] if res else []):
        ctx.violation('exit-masses-drift', 'recorded masses still move by more than rtol*|m|+atol per step within the first stored steps after the exit (integrator history)', case)
    for v in ctx.violations:
        print('%s: %s %r' % (v['key'], v['what'], {k: x for k, x in v['case'].items() if k != 'scenario'}))
    print('rows %d, %d violation(s) reproduced' % (len(bpm.t), len(ctx.violations)))
    return 1 if ctx.violations else 0
