"""
C17 — Particle behaviour switches and definitional densities hold.

proof        : TamocV/Props/C17.lean over the hand model TamocV/Model/Particle17.lean
               (SingleParticle.properties as a state machine over K_T, PlumeParticle.update,
               InsolubleParticle.density, the two biodegradation_rate methods)
tie          : (H) oracle-table correspondence over call HISTORIES: the real particle's `return_all`
               (and seawater.density) are wrapped by recorders from this process, random histories of
               properties/update calls run on real SingleParticle/PlumeParticle objects, the recorded
               library answers are handed to the Lean model as its oracle; questions asked, outputs
               and the K_T trace are compared call by call
real code    : the property predicates themselves on every real output (scaling, status, cut-off,
               neutralisation, persistent flag, zero-mass shortcut, finiteness/non-negativity,
               API density + the two exact ratios, biodegradation lag)
"""
import math
import numpy as np
from common import req, close, relerr, TOL, run_driver
import scen_sbm as S

META = {
    'text': 'Theorems (Lean 4, over the reals, for every particle, every input and EVERY call history, by induction over the history): returned mass/heat-transfer coefficients are exactly K / K_T times the library values; status is clean iff t < t_hyd; a released component\'s coefficient is zeroed iff m_i/m0_i < fdis and unreleased ones are untouched; zero slip and ambient density exactly under the code\'s dissolved-particle condition; K_T switches exactly when K_T>0 and |Ta-T|<0.5, is absorbing at 0 over any history and then the ambient temperature is handed to the library and returned; zero-mass shortcut outputs; API density at 60 F/1 atm, rho(T,P2)/rho(T,P1)=exp(co(P2-P1)), rho(T,P)/rho(T_stp,P)=1-beta(T-T_stp); biodegradation rate 0 before / k_bio after the lag. The model is tied to the real code by replaying recorded library answers of random call histories on real SingleParticle/PlumeParticle objects through the model and comparing questions, outputs and the K_T trace; the predicates are also evaluated directly on every real output.',
    'note': 'Trusted: Lean kernel + 3 standard axioms; the hand transcription Model/Particle17.lean (validated each run by the history correspondence); real arithmetic for IEEE doubles. The equations of state behind return_all and seawater.density are NOT modelled (oracle parameters): finiteness and non-negativity of the library outputs are SAMPLED on the generated histories only, not proved.',
    'technique': 'Lean 4 proof over a hand-written state-machine model + oracle-table correspondence over recorded call histories + direct predicates on real outputs',
}
GEN = []
MODULES = ['TamocV.Props.C17', 'TamocV.Model.Particle17']
RULE = ('call histories on real particle objects: gas bubbles / liquid drops of 1-5 database compounds (some with unreleased, '
        'zero-initial-mass components) and inert particles; K, K_T in {0, 1, U(0,10)}; fdis 1e-9..1e-1; per call masses from '
        'full, partial, log-uniform down to 1e-12, at the threshold (fdis*(1+-eps)), all released below threshold, exactly zero, '
        'slightly negative, MIXED signs with every released component below threshold (tiny positive remainders 1e-14..fdis of m0 plus negative '
        'overshoots of 1e-3..1e3 times the remainder on released / unreleased components, 2-5 compounds); ages 0, around t_hyd (exact, next float), around the lag times; T = Ta + d with d across +-0.5 K '
        '(+-0.49, +-0.5, +-0.499999, +-0.500001, +-0.51, 0, U(0.6,30), -U(0.6,2)); properties and update calls in random order; a call is non-trivial when its '
        '(kind, mass pattern, temperature pattern, age pattern, K_T state, particle kind) combination or its rounded inputs are new; '
        'InsolubleParticle.density on random (gamma, beta, co, T, P) incl. the standard state')
LEVEL_NOTE = ('theorems over the reals about the hand-written model of the particle wrapper; the model is tied to /repo by '
              'oracle-table correspondence on recorded call histories (sampled); library (EOS) outputs are an oracle: their '
              'finiteness/non-negativity is sampled only; floating point and libm are trusted')


def audit_files():
    return ['TamocV/Num.lean', 'TamocV/Real.lean', 'TamocV/Proto.lean', 'TamocV/Lemmas/Basic.lean',
            'TamocV/Lemmas/C17.lean', 'TamocV/Model/Particle17.lean', 'TamocV/Props/C17.lean']


# ---------------------------------------------------------------------------
# generators
# ---------------------------------------------------------------------------

def gen_masses(r, m0, fdis, soluble, upd):
    """one mass vector for a call + the name of its pattern"""
    nc = len(m0)
    rel = m0 > 0
    if not soluble:
        pats = ['full', 'partial', 'partial', 'partial', 'full', 'zero' if upd else 'partial', 'negative' if upd else 'partial']
        if r.random() < 0.04:
            pats = ['zero', 'negative']          # also through properties (biodegraded to nothing / overshoot)
        pat = r.choice(pats)
        if pat == 'full':
            return m0.copy(), pat
        if pat == 'partial':
            return m0 * 10 ** r.uniform(-3, 0), pat
        if pat == 'zero':
            return np.zeros(1), pat
        return np.array([-m0[0] * 10 ** r.uniform(-15, -9)]), pat
    pat = r.choice(['full', 'full', 'partial', 'partial', 'partial', 'partial', 'log', 'log', 'log', 'log', 'threshold', 'threshold',
                    'threshold', 'exact-threshold', 'exact-threshold', 'some-negative', 'some-negative', 'all-below',
                    'all-below', 'all-below', 'all-below', 'zero', 'all-negative', 'mixed-sign', 'mixed-sign', 'mixed-sign',
                    'mixed-sign'])
    if pat == 'mixed-sign' and nc < 2:
        pat = 'all-below'
    m = m0.copy()
    if pat == 'partial':
        m = m0 * np.array([r.uniform(0., 1.) for _ in range(nc)])
    elif pat == 'log':
        m = m0 * np.array([10 ** r.uniform(-12, 0) for _ in range(nc)])
    elif pat == 'threshold':
        m = m0 * np.array([r.choice([1., r.uniform(0., 1.), fdis, fdis * (1 + 1e-12), fdis * (1 - 1e-12),
                                     fdis * (1 + 1e-6), fdis * (1 - 1e-6), math.nextafter(fdis, 1.),
                                     math.nextafter(fdis, 0.)]) for _ in range(nc)])
    elif pat == 'exact-threshold':
        # m_i / m0_i == fdis exactly in floating point on the released components (searched within a few ulps):
        # the cut-off is `<`, so these components are KEPT
        m = m0 * np.array([r.uniform(0., 1.) for _ in range(nc)])
        for i in range(nc):
            if rel[i] and r.random() < 0.7:
                x = m0[i] * fdis
                for _ in range(4):
                    if x / m0[i] == fdis:
                        break
                    x = math.nextafter(x, math.inf if x / m0[i] < fdis else 0.)
                m[i] = x
    elif pat == 'mixed-sign':
        # every released component below its threshold, MIXED signs: at least one tiny positive remainder
        # (1e-14 .. fdis of m0) and at least one negative solver overshoot whose total magnitude is 1e-3 .. 1e3 times
        # the positive remainder (on released and/or unreleased components).  By the property the particle is
        # dissolved (clipped masses: all released cut) => zero slip, neutral density.
        relidx = [i for i in range(nc) if rel[i]]
        m = np.zeros(nc)
        npos = r.randint(1, max(1, len(relidx) - (1 if r.random() < 0.7 else 0)))
        pos = r.sample(relidx, npos)
        for i in pos:
            m[i] = m0[i] * 10 ** r.uniform(-14., math.log10(fdis)) * 0.999
        remainder = float(m[pos].sum())
        others = [i for i in range(nc) if i not in pos]
        if not others:                       # every component carries a positive remainder: turn one into the overshoot
            others = [pos.pop()]
            m[others[0]] = 0.
            remainder = float(m[pos].sum()) if pos else 0.
        if not pos:
            pos = [others.pop()] if len(others) > 1 else pos
        neg = r.sample(others, r.randint(1, len(others)))
        total = max(remainder, 1e-300) * 10 ** r.uniform(-3., 3.)
        w = [r.uniform(0.1, 1.) for _ in neg]
        for i, wi in zip(neg, w):
            m[i] = -total * wi / sum(w)
        for i in others:
            if i not in neg and not rel[i]:
                # unreleased component: nothing, a trace below the remainder, or (rarely) a dominant stripped mass
                m[i] = r.choice([0., 0., remainder * r.uniform(0., 0.9), remainder * r.uniform(1.1, 100.)])
        return m, pat
    elif pat == 'some-negative':
        m = m0 * np.array([r.choice([r.uniform(0., 1.), -10 ** r.uniform(-15, -8), 0.]) for _ in range(nc)])
        if not (m > 0).any():
            m[int(np.argmax(m0))] = m0.max() * r.uniform(0.01, 1.)
    elif pat == 'all-below':
        m = m0 * np.array([fdis * r.uniform(0., 0.999) for _ in range(nc)])
    elif pat == 'zero':
        m = np.zeros(nc)
    elif pat == 'all-negative':
        m = -m0 * np.array([10 ** r.uniform(-15, -8) for _ in range(nc)])
    # unreleased components (m0_i = 0) carry what the particle stripped from the water: nothing or a trace
    for i in range(nc):
        if not rel[i]:
            m[i] = r.choice([0., 0., m0.max() * 10 ** r.uniform(-12, -3), -m0.max() * 1e-14])
    if pat in ('zero', 'all-negative'):
        for i in range(nc):
            if not rel[i]:
                m[i] = 0. if pat == 'zero' else min(m[i], 0.)
    return m, pat


def gen_T(r, Ta):
    pat = r.choice(['far', 'far', 'far', 'in', 'edge', 'edge', 'out', 'equal'])
    if pat == 'far':
        # warmer than the water by up to 30 K (the quantifier), colder by at most 2 K (never below freezing)
        d = r.choice([r.uniform(0.6, 30.), r.uniform(0.6, 30.), -r.uniform(0.6, 2.)])
    elif pat == 'in':
        d = r.uniform(-0.49, 0.49)
    elif pat == 'edge':
        d = r.choice([-0.5, 0.5, -0.499999, 0.499999, -0.500001, 0.500001])
    elif pat == 'out':
        d = r.choice([-0.51, 0.51])
    else:
        d = 0.
    return Ta + d, pat


def gen_t(r, t_hyd, tbio):
    opts = ['zero', 'uniform']
    if t_hyd > 0:
        opts += ['hyd-before', 'hyd-exact', 'hyd-next', 'hyd-after']
    if len(tbio) and max(tbio) > 0:
        opts += ['bio']
    pat = r.choice(opts)
    if pat == 'zero':
        return 0., pat
    if pat == 'uniform':
        return r.uniform(0., 2. * max(t_hyd, 100.)), pat
    if pat == 'hyd-before':
        return r.choice([t_hyd * r.uniform(0., 1.), math.nextafter(t_hyd, 0.)]), pat
    if pat == 'hyd-exact':
        return t_hyd, pat
    if pat == 'hyd-next':
        return math.nextafter(t_hyd, math.inf), pat
    if pat == 'hyd-after':
        return t_hyd * r.uniform(1., 3.), pat
    tb = r.choice([x for x in tbio if x > 0])
    return r.choice([tb, math.nextafter(tb, 0.), math.nextafter(tb, math.inf), tb * r.uniform(0.5, 1.5)]), pat


def out_tuple(o):
    us, rho_p, A, Cs, beta, beta_T, T = o
    return (float(us), float(rho_p), float(A), [float(v) for v in np.atleast_1d(Cs)],
            [float(v) for v in np.atleast_1d(beta)], float(beta_T), float(T))


def plan_history(r, idx):
    """draw a particle, its model parameters and the list of calls to make (nothing is run yet, apart from
    the library's diameter -> mass conversion that fixes the initial masses)"""
    kind = r.choice(['gas', 'gas', 'liquid', 'liquid', 'inert'])
    obj, yk, descr = S.make_dbm_particle(r, kind, nmax=5)
    if kind == 'inert':
        descr['k_bio'] = r.choice([0., r.uniform(0., 1e-5)])
        descr['t_bio'] = r.choice([0., r.uniform(1., 2000.)])
        obj = S.particle_from_descr(descr)
    soluble = kind != 'inert'
    P, Sa, Ta = S.ambient_state(r)
    T0 = Ta + r.choice([0., 0., r.uniform(0., 30.)])
    de = math.exp(r.uniform(math.log(0.2e-3), math.log(20e-3)))
    with S.quiet():
        if soluble:
            m0 = np.array(obj.masses_by_diameter(de, T0, P, yk), dtype=float)
            if len(m0) > 1 and r.random() < 0.35:
                k = r.randint(1, len(m0) - 1)
                for i in r.sample(range(len(m0)), k):
                    m0[i] = 0.
        else:
            m0 = np.array([float(obj.mass_by_diameter(de, T0, P, Sa, Ta))])
    K = r.choice([1., 0., r.uniform(0., 10.), r.uniform(0., 10.)])
    K_T = r.choice([1., 0., r.uniform(0., 10.), r.uniform(0., 10.)])
    fdis = 10 ** r.uniform(-9, -1)
    t_hyd = r.choice([0., r.uniform(1., 2000.), r.uniform(1., 2000.)])
    lag = r.random() < 0.6
    plume = r.random() < 0.45
    tbio = [float(v) for v in np.atleast_1d(obj.t_bio)]
    planned = []
    for _ in range(r.randint(4, 14)):
        upd = plume and r.random() < 0.6
        Pc = P * r.uniform(0.7, 1.1)
        Sc = Sa + r.uniform(-0.5, 0.5)
        Tc = Ta + r.uniform(-1., 1.)
        m, mp = gen_masses(r, m0, fdis, soluble, upd)
        T, Tp = gen_T(r, Tc)
        t, tp = gen_t(r, t_hyd, tbio if upd else [])
        planned.append(dict(upd=upd, m=[float(v) for v in m], T=float(T), P=float(Pc), Sa=float(Sc), Ta=float(Tc),
                            t=float(t), pats=(mp, Tp, tp)))
    return dict(idx=idx, descr=descr, kind=kind, soluble=soluble, plume=plume, m0=[float(v) for v in m0], T0=float(T0),
                de=de, K=float(K), K_T=float(K_T), fdis=float(fdis), t_hyd=float(t_hyd), lag=bool(lag),
                ctor=(float(P), float(Sa), float(Ta)), planned=planned), obj


def run_history(ctx, spec, obj):
    """run the planned calls on a REAL SingleParticle / PlumeParticle under the recorder.
    Everything the model and the predicates are told about the particle (Params) is what WE handed to the
    constructor (spec), never read back from the object after the calls."""
    from tamoc import dispersed_phases
    h = dict(spec)
    h['calls'] = []
    h['raised'] = None
    m0 = np.array(spec['m0'], dtype=float)
    K, K_T, fdis, t_hyd, lag, T0 = spec['K'], spec['K_T'], spec['fdis'], spec['t_hyd'], spec['lag'], spec['T0']
    kb = [float(v) for v in np.atleast_1d(np.array(obj.k_bio, dtype=float))]
    tb = [float(v) for v in np.atleast_1d(np.array(obj.t_bio, dtype=float))]
    h['kbio0'], h['tbio0'] = kb, tb
    # Particle17.Params without K_T: soluble K fdis tHyd m0 nc lag kbio tbio
    h['params'] = [int(spec['soluble']), K, fdis, t_hyd, m0.copy(), len(m0) if spec['soluble'] else 1, int(lag), kb, tb]
    with S.quiet(), S.Recorder(obj) as rec:
        def do(c, first=False):
            a, b = rec.mark()
            m_in = np.array(c['m'], dtype=float, copy=True)
            c = dict(c)
            try:
                if first:
                    h['sp'] = dispersed_phases.PlumeParticle(obj, m0.copy(), T0, 1.5, 0.9, c['P'], c['Sa'], c['Ta'], K, K_T,
                                                             fdis, t_hyd, lag)
                    sp = h['sp']
                    o = (sp.us, sp.rho_p, sp.A, sp.Cs, sp.beta, sp.beta_T, sp.T)
                    c['kbio'] = [float(v) for v in np.atleast_1d(sp.k_bio)]
                elif c['upd']:
                    sp = h['sp']
                    sp.update(m_in, c['T'], c['P'], c['Sa'], c['Ta'], c['t'])
                    o = (sp.us, sp.rho_p, sp.A, sp.Cs, sp.beta, sp.beta_T, sp.T)
                    c['kbio'] = [float(v) for v in np.atleast_1d(sp.k_bio)]
                else:
                    o = h['sp'].properties(m_in, c['T'], c['P'], c['Sa'], c['Ta'], c['t'])
                    c['kbio'] = []
            except Exception as e:
                # the code under test raised on an input of the quantifier: that IS a failure of the property
                # ("returns ... for every particle, state and history"), never a skip
                site = S.raise_site(e)
                h['raised'] = site
                c['raised'] = '%s: %s' % (site, str(e)[:200])
                h['calls'].append(c)
                return False
            a2, b2 = rec.mark()
            c['lib'] = rec.lib[a] if a2 > a else None
            c['nlib'] = a2 - a
            c['sw'] = rec.swcalls[b] if b2 > b else None
            c['nsw'] = b2 - b
            c['out'] = out_tuple(o)
            c['KT'] = float(h['sp'].K_T)
            h['calls'].append(c)
            return True
        ok = True
        if spec['plume']:
            P, Sa, Ta = spec['ctor']
            ok = do(dict(upd=True, m=spec['m0'], T=T0, P=P, Sa=Sa, Ta=Ta, t=0., pats=('ctor', 'ctor', 'ctor')), first=True)
        else:
            h['sp'] = dispersed_phases.SingleParticle(obj, m0.copy(), T0, K, K_T, fdis, t_hyd, lag)
        if ok:
            for c in spec['planned']:
                if not do(c):
                    break
    return h


def build_history(ctx, r, idx):
    spec, obj = plan_history(r, idx)
    return run_history(ctx, spec, obj)


# ---------------------------------------------------------------------------
# correspondence through the driver
# ---------------------------------------------------------------------------

NAN = float('nan')


def good_calls(h):
    """the calls that returned (a raising call ends its history and is reported by the predicates)"""
    return [c for c in h['calls'] if not c.get('raised')]


def history_line(h):
    args = list(h['params'])
    args.insert(2, float(h['K_T']))          # soluble K KT0 fdis tHyd m0 nc lag kbio tbio
    for c in good_calls(h):
        if c['lib'] is not None:
            rho_p, us, A, Cs, beta, beta_T = S.lib_answer(h['soluble'], c['lib'][1])
        else:
            rho_p, us, A, Cs, beta, beta_T = NAN, NAN, NAN, [], [], NAN      # never asked: must not be used
        rho_amb = c['sw'][1] if c['sw'] is not None else NAN
        args += [int(c['upd']), c['m'], c['T'], c['P'], c['Sa'], c['Ta'], c['t'], rho_p, us, A, Cs, beta, beta_T, rho_amb]
    return req('P17.history', *args)


def compare_history(ctx, h, resp, worst):
    """returns list of disagreement strings"""
    bad = []
    calls = good_calls(h)
    if not isinstance(resp, list) or len(resp) != 17 * len(calls):
        return ['driver answered %r' % (resp[:2] if isinstance(resp, (list, tuple)) else resp,)]
    tol = TOL['gen_vs_source']
    for j, c in enumerate(calls):
        (KT, asksLib, asksSw, qm, qT, clean, us, rhoP, A, Cs, beta, betaT, T, kbio, swT, swS, swP) = resp[17 * j:17 * j + 17]
        o = c['out']

        def cmp(name, a, b):
            if isinstance(a, list) or isinstance(b, list):
                ok = close(list(a), list(b), tol)
                if ok:
                    for x, y in zip(a, b):
                        worst[0] = max(worst[0], relerr(x, y) if (math.isfinite(x) and math.isfinite(y)) else 0.)
            else:
                ok = close(a, b, tol)
                if ok and math.isfinite(a) and math.isfinite(b):
                    worst[0] = max(worst[0], relerr(a, b))
            if not ok:
                bad.append('history %d call %d %s: model=%r code=%r' % (h['idx'], j, name, a, b))
        if KT != c['KT']:
            bad.append('history %d call %d K_T: model=%r code=%r' % (h['idx'], j, KT, c['KT']))
        if bool(asksLib) != (c['lib'] is not None):
            bad.append('history %d call %d library asked: model=%r code=%r' % (h['idx'], j, asksLib, c['nlib']))
        if bool(asksSw) != (c['sw'] is not None):
            bad.append('history %d call %d seawater.density asked: model=%r code=%r' % (h['idx'], j, asksSw, c['nsw']))
        if c['sw'] is not None and tuple(c['sw'][0]) != (swT, swS, swP):
            bad.append('history %d call %d seawater.density question: model=%r code=%r' % (h['idx'], j, (swT, swS, swP), c['sw'][0]))
        if c['lib'] is not None:
            (am, aT, _aP, _aS, _aTa, ast) = c['lib'][0]
            cmp('question.m', qm, [float(v) for v in np.atleast_1d(am)])
            cmp('question.T', qT, aT)
            if bool(clean) != (ast == 1):
                bad.append('history %d call %d question.status: model clean=%r code status=%r' % (h['idx'], j, clean, ast))
        cmp('us', us, o[0])
        cmp('rho_p', rhoP, o[1])
        cmp('A', A, o[2])
        cmp('Cs', Cs, o[3])
        cmp('beta', beta, o[4])
        cmp('beta_T', betaT, o[5])
        cmp('T', T, o[6])
        if c['upd']:
            cmp('k_bio', kbio, c['kbio'])
    return bad


# ---------------------------------------------------------------------------
# the property predicates on the real outputs
# ---------------------------------------------------------------------------

def predicates(ctx, h):
    """the PROPERTY (not the code) evaluated on every real output of one history"""
    from tamoc import seawater
    m0 = np.array(h['m0'])
    rel = m0 > 0
    K, fdis, t_hyd = h['K'], h['fdis'], h['t_hyd']
    kt = h['K_T']                  # reference trace of the persistent flag, from the statement
    tbio = np.array(h['tbio0'], dtype=float)      # read from the dbm object BEFORE the wrapper was built
    kb0 = np.array(h['kbio0'], dtype=float)
    nc = len(m0) if h['soluble'] else 1
    base = dict(particle=h['descr'], plume=h['plume'], m0=h['m0'], K=K, K_T0=h['K_T'], fdis=fdis, t_hyd=t_hyd,
                lag_time=h['lag'], T0=h['T0'], ctor=list(h['ctor']))

    def viol(key, what, j, **kw):
        case = dict(base)
        case['history'] = [{k: c[k] for k in ('upd', 'm', 'T', 'P', 'Sa', 'Ta', 't')} for c in h['calls'][:j + 1]]
        case['failing_call'] = j
        case.update(kw)
        ctx.violation(key, what, case)

    for j, c in enumerate(h['calls']):
        ctx.evaluations += 1
        if c.get('raised'):
            ctx.count('code under test raised')
            viol('raises:' + c['raised'].split(': ')[0], 'properties/update raised on an input of the quantifier: ' + c['raised'], j)
            break
        us, rho_p, A, Cs, beta, beta_T, Tret = c['out']
        m_in = np.array(c['m'])
        shortcut = c['upd'] and not (np.sum(m_in) > 0.)
        ctx.count('call:' + ('update' if c['upd'] else 'properties') + (':shortcut' if shortcut else ''))
        ctx.count('mass:' + c['pats'][0])
        ctx.count('temp:' + c['pats'][1])
        ctx.count('age:' + c['pats'][2])
        ctx.nontrivial.add((h['kind'], c['upd'], tuple(c['pats']), kt == 0., tuple(float('%.6g' % v) for v in c['m'][:2])))
        rho_amb = float(seawater.density(c['Ta'], c['Sa'], c['P']))
        if shortcut:
            # zero-mass shortcut: neutral state, flag untouched, library not consulted
            ok = (us == 0. and rho_p == rho_amb and A == 0. and Cs == [0.] * nc and beta == [0.] * nc
                  and beta_T == 0. and Tret == c['Ta'] and c['kbio'] == [0.] * nc and c['lib'] is None
                  and c['KT'] == kt)
            if not ok:
                viol('zero-mass-shortcut', 'PlumeParticle.update with non-positive total mass does not return the neutral state',
                     j, out=c['out'], kbio=c['kbio'], K_T=c['KT'])
            continue
        # ---- persistent flag: switches exactly when K_T > 0 and |Ta - T| < 0.5, then stays 0
        fired = kt > 0. and abs(c['Ta'] - c['T']) < 0.5
        if fired:
            ctx.count('K_T switch fired')
            kt = 0.
        if c['KT'] != kt:
            viol('K_T-trace', 'persistent heat-transfer flag differs from "0 once |Ta-T|<0.5 was seen with K_T>0, else the user factor"',
                 j, K_T_code=c['KT'], K_T_expected=kt)
            kt = c['KT']
        Texp = c['Ta'] if kt == 0. else c['T']
        if Tret != Texp:
            viol('T-returned', 'returned temperature is not Ta with heat transfer off / T otherwise', j, T_returned=Tret, expected=Texp)
        if c['lib'] is None:
            viol('library-not-called', 'properties did not consult return_all', j)
            continue
        (am, aT, aP, aS, aTa, ast) = c['lib'][0]
        rho_l, us_l, A_l, Cs_l, beta_l, betaT_l = S.lib_answer(h['soluble'], c['lib'][1])
        if aT != Texp or aP != c['P'] or aS != c['Sa'] or aTa != c['Ta']:
            viol('library-arguments', 'T handed to the library is not Ta with heat transfer off / T otherwise (or P,Sa,Ta altered)',
                 j, asked=[aT, aP, aS, aTa], expected_T=Texp)
        # ---- status
        st = 1 if c['t'] < t_hyd else -1
        ctx.count('status clean' if st == 1 else 'status dirty')
        if ast != st:
            viol('status', 'clean/dirty status handed to the library is not (t < t_hyd)', j, status=ast, expected=st)
        # ---- heat-transfer scaling
        if not close(beta_T, kt * betaT_l, TOL['gen_vs_source']):
            viol('beta_T-scaling', 'heat-transfer coefficient is not K_T * library value', j, beta_T=beta_T, K_T=kt, library=betaT_l)
        if not close(A, A_l, 0.):
            viol('area-changed', 'surface area differs from the library value', j, A=A, library=A_l)
        # "buoyant particle": the library's own density of the particle is below the ambient density (a NaN
        # library density is NOT excused)
        sinking = rho_l >= rho_amb
        if h['soluble']:
            mc = np.where(m_in < 0, 0., m_in)
            if not close([float(v) for v in np.atleast_1d(am)], [float(v) for v in mc], 0.):
                viol('clip', 'masses handed to the library are not the masses with negatives set to zero', j, asked=list(map(float, am)))
            # ---- cut-off and mass-transfer scaling, component by component
            exp_beta = []
            all_rel_cut = True
            for i in range(len(m0)):
                if rel[i]:
                    cut = (mc[i] / m0[i]) < fdis
                    all_rel_cut = all_rel_cut and cut
                    ctx.count('component cut' if cut else 'component kept')
                else:
                    cut = False
                    ctx.count('component unreleased')
                exp_beta.append(0. if cut else K * beta_l[i])
            if not close(beta, exp_beta, TOL['gen_vs_source']):
                viol('cutoff-or-K-scaling', 'returned beta_i is not (0 if released and m_i/m0_i < fdis else K*library beta_i)', j,
                     beta=beta, expected=exp_beta, library=[float(v) for v in beta_l], frac=[float(mc[i] / m0[i]) if rel[i] else None for i in range(len(m0))])
            if not close(Cs, [float(v) for v in Cs_l], 0.):
                viol('Cs-changed', 'solubilities differ from the library values', j, Cs=Cs)
            vals = [us, rho_p, A, beta_T, Tret] + Cs + beta
            allfin = all(math.isfinite(v) for v in vals)
            zero_all = not (mc > 0).any()
            if all_rel_cut:
                # ---- the PROPERTY: once all released components are dissolved (cut off) the wrapper reports zero
                #      slip and neutral density, and everything returned is finite
                neutral_ok = (us == 0. and rho_p == rho_amb)
                ctx.count('all released cut: ' + ('neutralised' if neutral_ok else 'NOT neutralised'))
                if c['pats'][0] == 'mixed-sign' and not zero_all and np.sum(mc[rel]) > np.sum(mc[~rel]):
                    ctx.count('mixed-sign state: dissolved by the clipped masses (neutralisation demanded)')
                    ctx.count('mixed-sign via ' + ('update' if c['upd'] else 'properties'))
                if zero_all:
                    ctx.count('all masses exactly zero after clipping')
                    if not allfin:
                        viol('properties-nan-all-masses-zero',
                             'fully dissolved particle (every mass exactly zero after clipping): properties returns non-finite values instead of zero slip, ambient density and finite outputs',
                             j, out=c['out'])
                    elif not neutral_ok:
                        viol('not-neutralised-all-masses-zero', 'fully dissolved particle (every mass zero): no zero slip / ambient density', j, out=c['out'])
                elif not neutral_ok:
                    if np.sum(mc[rel]) <= np.sum(mc[~rel]):
                        ctx.count('all released cut, unreleased (stripped) mass dominates')
                        viol('not-neutralised-stripped-mass-dominant',
                             'every released component is below its dissolution threshold (beta = 0) but the particle still reports non-zero slip and a non-ambient density, because the mass of the unreleased (zero-initial-mass) components is not smaller than that of the released ones',
                             j, us=us, rho_p=rho_p, ambient=rho_amb, released_mass=float(np.sum(mc[rel])), unreleased_mass=float(np.sum(mc[~rel])))
                    else:
                        viol('neutralisation', 'all released components are dissolved (cut off) but the particle does not report zero slip and ambient density',
                             j, us=us, rho_p=rho_p, ambient=rho_amb)
                elif not allfin:
                    if sinking:
                        ctx.count('soluble particle not buoyant here (library density >= ambient): finiteness not demanded')
                    else:
                        viol('nonfinite-output', 'non-finite quantity returned for a dissolved (neutralised) buoyant particle with positive mass', j, out=c['out'])
            else:
                ctx.count('not all released cut: library values pass through')
                if not (close(us, us_l, 0.) and close(rho_p, rho_l, 0.)):
                    viol('neutralisation-spurious', 'slip velocity / density differ from the library values although a released component is still above its dissolution threshold',
                         j, us=us, rho_p=rho_p, library=[us_l, rho_l])
                if not allfin:
                    if sinking:
                        ctx.count('soluble particle not buoyant here (library density >= ambient): finiteness not demanded')
                    else:
                        viol('nonfinite-output', 'non-finite physical quantity returned for a buoyant particle with positive mass', j, out=c['out'])
            if sinking:
                allfin = False
        else:
            if beta != [] or Cs != []:
                viol('inert-has-transfer', 'inert particle returns mass-transfer data', j, beta=beta, Cs=Cs)
            if not (close(us, us_l, 0.) and close(rho_p, rho_l, 0.)):
                viol('inert-changed', 'inert particle: slip/density differ from library', j)
            vals = [us, rho_p, A, beta_T, Tret]
            allfin = all(math.isfinite(v) for v in vals)
            if sinking:
                ctx.count('inert particle not buoyant here (density >= ambient): finiteness not demanded')
                allfin = False
            elif not allfin:
                if m_in[0] <= 0.:
                    ctx.count('inert particle with non-positive mass -> non-finite')
                    viol('properties-nan-inert-nonpositive-mass',
                         'inert particle whose mass is zero or a slightly negative solver overshoot: properties returns non-finite slip velocity / heat-transfer coefficient',
                         j, out=c['out'])
                else:
                    viol('nonfinite-output', 'non-finite physical quantity returned for a buoyant inert particle with positive mass', j, out=c['out'])
        if allfin and not all(v >= 0. for v in vals):
            viol('negative-output', 'negative physical quantity returned', j, out=c['out'])
        # ---- biodegradation lag (update stores the rates)
        if c['upd']:
            expk = [0. if (h['lag'] and tbio[i] > c['t']) else float(kb0[i]) for i in range(len(kb0))]
            if c['kbio'] != expk:
                viol('bio-lag', 'biodegradation rate is not (0 before the lag time, k_bio after)', j, kbio=c['kbio'], expected=expk)
    return kt


# ---------------------------------------------------------------------------
# InsolubleParticle.density, biodegradation_rate (direct)
# ---------------------------------------------------------------------------

def density_part(ctx, lean_ok):
    from tamoc import dbm, seawater
    r = ctx.rng
    n = ctx.n(400, 20000)
    rho_stp = float(seawater.density(S.T_STP, 0., S.P_STP))
    cases = []
    for i in range(n):
        comp = r.random() < 0.9
        p = dict(comp=comp, rho_p=r.uniform(600., 1100.), gamma=r.choice([r.uniform(5., 70.), 10., 30.]),
                 beta=r.choice([0., 7e-4, r.uniform(0., 2e-3)]), co=r.choice([0., 2.90075e-9, r.uniform(0., 1e-8)]),
                 T=r.choice([S.T_STP, r.uniform(270., 340.)]), P=r.choice([S.P_STP, r.uniform(1e5, 4e7), math.exp(r.uniform(math.log(1e5), math.log(4e7)))]),
                 P2=r.uniform(1e5, 4e7), Sa=r.uniform(0., 40.), Ta=r.uniform(271., 303.))
        cases.append(p)
    lines = []
    real = []
    for p in cases:
        oil = dbm.InsolubleParticle(True, p['comp'], rho_p=p['rho_p'], gamma=p['gamma'], beta=p['beta'], co=p['co'])
        d = float(oil.density(p['T'], p['P'], p['Sa'], p['Ta']))
        real.append(d)
        lines.append(req('P17.density', int(p['comp']), p['rho_p'], p['gamma'], p['beta'], p['co'], rho_stp, p['T'], p['P']))
        ctx.evaluations += 1
        ctx.count('density:' + ('compressible' if p['comp'] else 'constant'))
        ctx.nontrivial.add(('density', float('%.9g' % p['gamma']), float('%.9g' % p['T']), float('%.9g' % p['P'])))
        if not p['comp']:
            if d != p['rho_p']:
                ctx.violation('density-constant', 'incompressible inert particle does not return its constant density', p)
            continue
        # the three definitional identities on the REAL function
        d_std = float(oil.density(S.T_STP, S.P_STP, p['Sa'], p['Ta']))
        api = 141.5 / (p['gamma'] + 131.5) * rho_stp
        if not close(d_std, api, TOL['identity']):
            ctx.violation('api-density-std', 'density at 60 F, 1 atm is not 141.5/(gamma+131.5) * rho_water(60 F, 1 atm)',
                          dict(p, density_std=d_std, api=api))
        d2 = float(oil.density(p['T'], p['P2'], p['Sa'], p['Ta']))
        if not close(d2 / d, math.exp(p['co'] * (p['P2'] - p['P'])), TOL['identity']):
            ctx.violation('compressibility', 'rho(T,P2)/rho(T,P1) is not exp(co (P2-P1))',
                          dict(p, ratio=d2 / d, expected=math.exp(p['co'] * (p['P2'] - p['P']))))
        dT = float(oil.density(S.T_STP, p['P'], p['Sa'], p['Ta']))
        if not close(d / dT, 1. - p['beta'] * (p['T'] - S.T_STP), TOL['identity']):
            ctx.violation('expansion', 'rho(T,P)/rho(T_stp,P) is not 1 - beta (T - T_stp)',
                          dict(p, ratio=d / dT, expected=1. - p['beta'] * (p['T'] - S.T_STP)))
        if not (math.isfinite(d) and d > 0):
            ctx.violation('density-not-positive', 'inert particle density not finite and positive', dict(p, density=d))
    out = run_driver(ctx, 'C17', lines) if lean_ok else None
    if out is not None:
        nbad, worst = 0, 0.
        for p, d, o in zip(cases, real, out):
            got = o[0] if isinstance(o, list) else NAN
            worst = max(worst, relerr(got, d))
            if not close(got, d, TOL['gen_vs_source']):
                nbad += 1
                if nbad <= 3:
                    ctx.broken.append(('correspondence', 'Particle17.density vs InsolubleParticle.density',
                                       'case=%r model=%r code=%r' % (p, got, d)))
        ctx.oblige('correspondence Particle17.density == dbm.InsolubleParticle.density on %d cases (rel %g)' % (len(cases), TOL['gen_vs_source']),
                   nbad == 0, '%d disagreements' % nbad)
        ctx.notes.append('density: worst relative difference model vs code %.3g' % worst)


def biorate_part(ctx, lean_ok):
    from tamoc import dbm
    r = ctx.rng
    n = ctx.n(150, 3000)
    lines, real = [], []
    for i in range(n):
        lag = r.random() < 0.7
        if r.random() < 0.6:
            kind = r.choice(['gas', 'liquid'])
            obj, _yk, descr = S.make_dbm_particle(r, kind, nmax=5)
        else:
            obj, _yk, descr = S.make_dbm_particle(r, 'inert')
            obj.k_bio = r.choice([0., r.uniform(0., 1e-5)])
            obj.t_bio = r.choice([0., r.uniform(1., 1e6)])
        kb = [float(v) for v in np.atleast_1d(obj.k_bio)]
        tb = [float(v) for v in np.atleast_1d(obj.t_bio)]
        t, _ = gen_t(r, 0., tb)
        if r.random() < 0.3:
            t = r.uniform(0., 2. * max(tb + [1.]))
        got = [float(v) for v in np.atleast_1d(obj.biodegradation_rate(t, lag))]
        exp = [0. if (lag and t < tb[k]) else kb[k] for k in range(len(kb))]
        ctx.evaluations += 1
        ctx.count('biorate:' + ('lag' if lag else 'nolag'))
        if got != exp:
            ctx.violation('bio-lag', 'biodegradation_rate is not (0 before the lag time, k_bio after; k_bio when the lag is off)',
                          dict(particle=descr, t=t, lag_time=lag, k_bio=kb, t_bio=tb, got=got, expected=exp))
        lines.append(req('P17.biorate', int(lag), kb, tb, t))
        real.append(got)
    out = run_driver(ctx, 'C17', lines) if lean_ok else None
    if out is not None:
        nbad = 0
        for o, g in zip(out, real):
            if not (isinstance(o, list) and close(o[0], g, 0.)):
                nbad += 1
                if nbad <= 3:
                    ctx.broken.append(('correspondence', 'Particle17.bioRate vs biodegradation_rate', 'model=%r code=%r' % (o, g)))
        ctx.oblige('correspondence Particle17.bioRate == {FluidMixture,InsolubleParticle}.biodegradation_rate on %d cases (exact)' % len(lines),
                   nbad == 0, '%d disagreements' % nbad)


# ---------------------------------------------------------------------------

FLOORS_QUICK = {'histories': 150, 'calls': 1500, 'all released cut: neutralised': 100, 'not all released cut: library values pass through': 400,
                'component cut': 500, 'component kept': 500, 'component unreleased': 150, 'K_T switch fired': 50, 'status clean': 150,
                'status dirty': 400, 'call:update:shortcut': 30, 'mass:exact-threshold': 30, 'mass:mixed-sign': 30,
                'mixed-sign state: dissolved by the clipped masses (neutralisation demanded)': 30,
                'mixed-sign via properties': 25, 'mixed-sign via update': 5, 'temp:edge': 150, 'age:hyd-exact': 50}


def run(ctx, lean_ok):
    r = ctx.rng
    nh = ctx.n(220, 6000)
    hists = []
    for i in range(nh):
        h = build_history(ctx, r, i)
        hists.append(h)
        ctx.count('particle:' + h['kind'] + (':plume' if h['plume'] else ':single'))
        if any(v == 0. for v in h['m0']):
            ctx.count('particle with unreleased components')
    for h in hists[:3]:
        calls = good_calls(h)
        if not calls:
            continue
        c = calls[-1]
        ctx.sample({'particle': h['descr'], 'K': h['K'], 'K_T0': h['K_T'], 'fdis': h['fdis'], 't_hyd': h['t_hyd'],
                    'ncalls': len(calls), 'last_call': {k: c[k] for k in ('upd', 'm', 'T', 'Ta', 't')},
                    'last_out': c['out'], 'K_T_trace': [x['KT'] for x in calls]})
    # ---- property predicates on the real outputs (always) -------------------------------
    for h in hists:
        predicates(ctx, h)
    # ---- floors: the generator must have reached every regime the statement names ----------
    ncalls_all = sum(len(good_calls(h)) for h in hists)
    scale = 1 if not ctx.thorough else 20
    have = dict(ctx.hist)
    have['histories'] = sum(1 for h in hists if good_calls(h))
    have['calls'] = ncalls_all
    short = {k: (have.get(k, 0), v * scale) for k, v in FLOORS_QUICK.items() if have.get(k, 0) < v * scale}
    ctx.oblige('coverage floors: %d histories, %d returned calls, every branch counter above its floor' % (have['histories'], ncalls_all),
               not short, 'below floor (have, want): %r' % short)
    # ---- oracle-table correspondence over the histories ---------------------------------
    if lean_ok:
        hs = [h for h in hists if good_calls(h)]
        lines = [history_line(h) for h in hs]
        out = run_driver(ctx, 'C17', lines)
        if out is not None:
            worst = [0.]
            nbad = 0
            ncalls = 0
            for h, o in zip(hs, out):
                ncalls += len(good_calls(h))
                bad = compare_history(ctx, h, o, worst)
                if bad:
                    nbad += 1
                    if nbad <= 3:
                        ctx.broken.append(('correspondence', 'Particle17 history vs real particle object', '; '.join(bad[:4])))
            ctx.oblige('correspondence Particle17.run (questions, outputs, K_T trace) == real SingleParticle/PlumeParticle over %d histories / %d calls (rel %g)'
                       % (len(hs), ncalls, TOL['gen_vs_source']), nbad == 0, '%d histories disagree' % nbad)
            ctx.notes.append('histories: worst relative difference model vs code %.3g' % worst[0])
    density_part(ctx, lean_ok)
    biorate_part(ctx, lean_ok)
    ctx.notes.append('finiteness / non-negativity of the library (EOS) outputs is sampled on the generated histories only (oracle in the proofs)')
    ctx.notes.append('"buoyant particle" is read as: the library density of the particle is below the ambient density; for sinking particles '
                     '(e.g. CO2-rich drops at depth) the statement demands no finiteness and none is checked (counted in the histogram)')


def replay(ctx, path):
    """re-run the failing history of a replay file on the real code and re-evaluate the predicates"""
    import json
    d = json.load(open(path))
    case = d['case']
    if 'history' not in case:
        print('replay: %s is not a call-history case (key %s); inputs:' % (path, d.get('key')))
        print(json.dumps(case, indent=1)[:3000])
        return 0
    descr = case['particle']
    obj = S.particle_from_descr(descr)
    hist = case['history']
    planned = [dict(c, pats=('replay', 'replay', 'replay')) for c in hist]
    if case['plume']:
        planned = planned[1:]                  # the first entry is the constructor's own update call
    spec = dict(idx=0, descr=descr, kind=descr['kind'], soluble=descr['kind'] != 'inert', plume=case['plume'], m0=case['m0'],
                T0=case['T0'], de=None, K=case['K'], K_T=case['K_T0'], fdis=case['fdis'], t_hyd=case['t_hyd'],
                lag=case['lag_time'], ctor=tuple(case.get('ctor', (hist[0]['P'], hist[0]['Sa'], hist[0]['Ta']))), planned=planned)
    h = run_history(ctx, spec, obj)
    for j, c in enumerate(h['calls']):
        print('call %d %s m=%r T=%r Ta=%r t=%r ->' % (j, 'update' if c['upd'] else 'properties', c['m'], c['T'], c['Ta'], c['t']),
              c.get('raised') or (c['out'], 'K_T', c['KT']))
    predicates(ctx, h)
    keys = sorted(set(v['key'] for v in ctx.violations))
    print('replay of key %r: predicates now report %r' % (d.get('key'), keys))
    return 1 if d.get('key') in keys else 0
