"""
C16 — Size distributions are normalised, ordered and capped at the stable size.

proof        : TamocV/Props/C16.lean over Model/Psf.lean (transcription of psf.py, ModelBase, sintef.rosin_rammler)
tie          : the Lean model executed at Float through the driver against the real functions on every generated case;
               fsolve / Grace et al. / methane-EOS results enter the model as oracles recorded from the real run
real code    : every clause of the property evaluated directly on the real outputs; jet-breakup drivers and ModelBase
               run under np.errstate(divide/invalid/over = 'raise')
"""
import io
import os
import math
import contextlib
import traceback
import numpy as np

import common
from common import req, close, relerr, TOL, run_driver

META = {
    'text': 'Theorems (Lean 4, over the reals, EVERY bin count n, all k<0, alpha>0 resp. sigma>0, d50>0): Rosin-Rammler and '
            'log-normal bin edges and diameters are positive and strictly increasing, diameters are linear in the median, volume '
            'fractions are non-negative, sum to one and do not depend on the median; after rosin_rammler_fit / log_normal_fit the '
            '95th percentile is <= d_max, the median is unchanged when it already satisfies the cap and is never increased; a phase '
            'with zero flow gives median 0 / no d_max in sintef, li_etal, wang_etal and the empty distribution in ModelBase for every '
            'model/pdf choice; with one phase absent and the other flowing sintef, li_etal (incl. li_etal_d50) and wang_etal evaluate no operation outside its '
            'domain — the definedness predicate is the model itself elaborated at a domain-tracking Num instance, not a separate list; the legacy truncation conserves the '
            'total mass flux; li_etal evaluates no zero denominator for zero flow of either or both phases and ModelBase '
            'wang_etal + rosin-rammler yields the converted Rosin-Rammler distribution (both found defective by this check and repaired '
            'in /repo: 9f1b754, 99832ec). Negation proved by witness where the code still falsifies the property: li_etal never applies '
            'the d95 rule (known finding). The model is compared '
            'with the real psf / particle_size_models / sintef functions through a driver on every generated case and every clause '
            'is evaluated on the real outputs, the drivers under np.errstate(raise).',
    'note': 'Trusted: Lean kernel + 3 standard axioms; the hand transcription Model/Psf.lean (tied by correspondence only, no '
            'translator); real arithmetic for IEEE doubles (normalisation and the cap hold to rounding on the code: compared at 1e-12 / '
            '1e-9); scipy fsolve/minimize (psf.grace, sintef_d50) and the methane EOS are oracles of the model (recorded from the real '
            'run, residual of the fsolve root checked); numpy.logspace modelled from its source. The clause "after fitting, the 95th-percentile size never '
            'exceeds the maximum stable size" is read as a statement about the FITTED PARAMETERS (properties.jsonl observe_at: "(d50, k, alpha) / '
            '(d50, sigma) returned by the fit functions"): d95 is the analytic 95 % point of the fitted Rosin-Rammler / log-normal law. It is not '
            'demanded of the binned (de, vf) output (bins span the 1 %..99.5 % points, so the largest bin centres exceed d_max; counted) nor of '
            'psf.sintef(use_d95=False), the documented switch that turns the rule off (there the promised cap on the median is checked).',
    'technique': 'Lean 4 proofs (induction on the bin count, rpow/exp/log monotonicity) + differential execution of the model against the real code',
}
GEN = []
MODULES = ['TamocV.Props.C16', 'TamocV.Model.Psf']
RULE = ('distributions: nbins in {1,2,3,5,10,50,200} + uniform 1-200, d50 log-uniform 1e-6..1e-1 m (+ both ends), Rosin-Rammler k in '
        '{log 0.5} u [-3,-0.05], alpha 0.5-6, log-normal sigma 0.05-1.5, scale factors 1e-3..1e3; fits: d_max = d50 x 10^U(-2,2) and '
        'None, boundary d95 = d_max; legacy truncation: d50 0.2-20 x d_max; drivers sintef / li_etal / wang_etal and ModelBase (all 16 '
        'model x pdf choices): orifice log-uniform 0.01-1 m, gas and oil mass flux each 0 or log-uniform 1e-4..3e3 kg/s (gas up to and '
        'beyond choked flow), fluid property sets drawn from gas 5-300 kg/m3, oil 600-980 kg/m3, interfacial tension 0.0005-0.08 N/m; '
        'a case is non-trivial when its inputs are distinct from every other case (12 digits)')
LEVEL_NOTE = ('theorems over the reals about a hand transcription of psf.py / ModelBase / sintef.rosin_rammler, tied to the code by '
              'differential execution; fsolve, Grace et al. maximum stable size and the methane EOS are oracles; floating point trusted')

ERR = dict(divide='raise', invalid='raise', over='raise', under='ignore')


def audit_files():
    return ['TamocV/Num.lean', 'TamocV/Real.lean', 'TamocV/Model/Psf.lean', 'TamocV/Lemmas/C16.lean', 'TamocV/Props/C16.lean']


def quiet(f, *a, **k):
    with contextlib.redirect_stdout(io.StringIO()):
        return f(*a, **k)


def key12(*xs):
    out = []
    for x in xs:
        if isinstance(x, (list, tuple, np.ndarray)):
            out.append(tuple(float('%.12g' % v) for v in np.asarray(x, dtype=float).ravel()))
        elif isinstance(x, str) or x is None:
            out.append(x)
        else:
            out.append(float('%.12g' % x))
    return tuple(out)


def fl(v):
    return [float(x) for x in v]


def tamoc_site(e):
    """(file, function, line number, source line) of the innermost tamoc frame of an exception"""
    tb = traceback.extract_tb(e.__traceback__)
    for fr in reversed(tb):
        if os.sep + 'tamoc' + os.sep in fr.filename:
            return os.path.basename(fr.filename), fr.name, fr.lineno, (fr.line or '')
    fr = tb[-1]
    return os.path.basename(fr.filename), fr.name, fr.lineno, (fr.line or '')


def slug(msg):
    return ''.join(c if c.isalnum() else '-' for c in str(msg).lower()).strip('-')[:40]


def exc_key(e, mg, mo):
    """violation key of an exception raised by the real code = its exact failure signature:
    [no-flow:]<exception>:<tamoc function>:<mechanism>.  Mechanisms recognised (everything else is `other:<message>`):
      void-fraction-0/0   ZeroDivisionError on the line n = q_gas / (q_gas + q_oil) (resp. Qg / (Qg + Ql)) with neither phase flowing
      log-of-zero-median  'divide by zero encountered in log' inside rr2ln / ln2rr while one phase has zero flow (d50 = 0 is converted)"""
    _f, func, _l, line = tamoc_site(e)
    pre = 'no-flow:' if (mg == 0 and mo == 0) else ''
    if isinstance(e, ZeroDivisionError) and mg == 0 and mo == 0 and ('/ (q_gas + q_oil)' in line or '/ (Qg + Ql)' in line):
        sig = 'void-fraction-0/0'
    elif (isinstance(e, FloatingPointError) and func in ('rr2ln', 'ln2rr') and 'divide by zero encountered in log' in str(e)
          and (mg == 0) != (mo == 0)):
        sig = 'log-of-zero-median'
    else:
        sig = 'other:' + slug(e)
    return '%s%s:%s:%s' % (pre, type(e).__name__, func, sig)


def dist_predicates(ctx, kind, de, vf, nbins, case, tag=''):
    """the clauses of C16 about one generated distribution, on the real output"""
    de, vf = fl(de), fl(vf)
    if len(de) != nbins or len(vf) != nbins:
        ctx.violation(kind + ':length' + tag, 'distribution does not have the requested number of bins', dict(case, de=de, vf=vf))
        return False
    ok = True
    if not all(math.isfinite(x) and x > 0 for x in de):
        ctx.violation(kind + ':de-not-positive' + tag, 'a diameter is not positive and finite', dict(case, de=de))
        ok = False
    if not all(a < b for a, b in zip(de, de[1:])):
        ctx.violation(kind + ':de-not-increasing' + tag, 'diameters are not strictly increasing', dict(case, de=de))
        ok = False
    if not all(math.isfinite(x) and x >= 0 for x in vf):
        ctx.violation(kind + ':vf-negative' + tag, 'a volume fraction is negative or not finite', dict(case, vf=vf))
        ok = False
    if not abs(math.fsum(vf) - 1.0) <= 1e-12 * max(1, nbins):
        ctx.violation(kind + ':vf-sum' + tag, 'volume fractions do not sum to one', dict(case, sum=math.fsum(vf)))
        ok = False
    return ok


# ------------------------------------------------------------------------------------------------
def run(ctx, lean_ok):
    r = ctx.rng
    _viol = ctx.violation
    ctx.violation = lambda key, what, case: _viol(key.replace(' ', '_'), what, case)
    from tamoc import psf, sintef, dbm
    from tamoc import particle_size_models as psm

    lines, after = [], []
    bad = {'n': 0}
    worst = {}

    def ask(line, cb):
        after.append((len(lines), cb))
        lines.append(line)

    def corr(name, got, want, case, tol=TOL['gen_vs_source']):
        try:
            ok = close(got, want, tol)
        except TypeError:
            ok = False
        if ok and isinstance(got, list):
            for a, b in zip(got, want):
                worst[name] = max(worst.get(name, 0.0), relerr(a, b))
        elif ok and not isinstance(got, list):
            worst[name] = max(worst.get(name, 0.0), relerr(got, want))
        if not ok:
            bad['n'] += 1
            if bad['n'] <= 5:
                ctx.broken.append(('correspondence', name, 'model=%r code=%r case=%r' % (got, want, case)))
        return ok

    K05 = math.log(0.5)
    RESID_TOL = 1e-6          # |residual(dp)| <= 1e-6 dp  (fsolve's xtol is 1.5e-8 relative; d residual / d dp is about 1)
    resid = {'n': 0, 'bad': []}

    def rnd_d50():
        return r.choice([1e-6, 1e-1, 10 ** r.uniform(-6, -1), 10 ** r.uniform(-6, -1), 10 ** r.uniform(-4, -2)])

    def rnd_bins(i):
        fixed = [1, 2, 3, 5, 10, 50, 200]
        return fixed[i] if i < len(fixed) else r.randint(1, 200)

    # ================= (A) psf.rosin_rammler / psf.log_normal ===================================
    ndist = ctx.n(120, 6000)
    for i in range(ndist):
        nb = rnd_bins(i)
        d50 = rnd_d50()
        lam = 10 ** r.uniform(-3, 3)
        # --- Rosin-Rammler
        k = K05 if r.random() < 0.6 else -r.uniform(0.05, 3.0)
        alpha = r.choice([1.8, r.uniform(0.5, 6.0), r.uniform(0.5, 6.0)])
        case = {'nbins': nb, 'd50': d50, 'k': k, 'alpha': alpha}
        ctx.evaluations += 1
        ctx.count('rosin_rammler nbins %s' % ('1' if nb == 1 else '2-9' if nb < 10 else '10-99' if nb < 100 else '100-200'))
        ctx.nontrivial.add(('rr',) + key12(nb, d50, k, alpha))
        try:
            with np.errstate(**ERR):
                de, vf = psf.rosin_rammler(nb, d50, k, alpha)
                de2, vf2 = psf.rosin_rammler(nb, lam * d50, k, alpha)
        except Exception as e:
            ctx.violation('rosin_rammler:raises:%s' % type(e).__name__, 'psf.rosin_rammler raised %s: %s' % (type(e).__name__, e), case)
            continue
        if dist_predicates(ctx, 'rosin_rammler', de, vf, nb, case):
            if not close(fl(de2), [lam * x for x in fl(de)], 1e-11):
                ctx.violation('rosin_rammler:de-not-linear-in-d50', 'diameters do not scale linearly with the median', dict(case, lam=lam))
            if not close(fl(vf2), fl(vf), 1e-10):
                ctx.violation('rosin_rammler:vf-depends-on-d50', 'volume fractions depend on the median', dict(case, lam=lam))
        if i < 2:
            ctx.sample(dict(case, de=fl(de)[:4], vf=fl(vf)[:4]))
        ask(req('Psf.rosin_rammler', nb, d50, k, alpha),
            lambda o, de=de, vf=vf, case=case: (corr('Model.Psf.rosinRammler de vs psf.rosin_rammler', o[0], fl(de), case),
                                                corr('Model.Psf.rosinRammler vf vs psf.rosin_rammler', o[1], fl(vf), case)))
        # --- log-normal
        sigma = r.choice([0.27, r.uniform(0.05, 1.5), r.uniform(0.05, 1.5)])
        case = {'nbins': nb, 'd50': d50, 'sigma': sigma}
        ctx.evaluations += 1
        ctx.count('log_normal nbins %s' % ('1' if nb == 1 else '2-9' if nb < 10 else '10-99' if nb < 100 else '100-200'))
        ctx.nontrivial.add(('ln',) + key12(nb, d50, sigma))
        try:
            with np.errstate(**ERR):
                de, vf = psf.log_normal(nb, d50, sigma)
                de2, vf2 = psf.log_normal(nb, lam * d50, sigma)
        except Exception as e:
            ctx.violation('log_normal:raises:%s' % type(e).__name__, 'psf.log_normal raised %s: %s' % (type(e).__name__, e), case)
            continue
        if dist_predicates(ctx, 'log_normal', de, vf, nb, case):
            if not close(fl(de2), [lam * x for x in fl(de)], 1e-11):
                ctx.violation('log_normal:de-not-linear-in-d50', 'diameters do not scale linearly with the median', dict(case, lam=lam))
            if not close(fl(vf2), fl(vf), 1e-10):
                ctx.violation('log_normal:vf-depends-on-d50', 'volume fractions depend on the median', dict(case, lam=lam))
        ask(req('Psf.log_normal', nb, d50, sigma),
            lambda o, de=de, vf=vf, case=case: (corr('Model.Psf.logNormal de vs psf.log_normal', o[0], fl(de), case),
                                                corr('Model.Psf.logNormal vf vs psf.log_normal', o[1], fl(vf), case)))

    # ================= (B) fits and conversions ================================================
    nfit = ctx.n(400, 20000)
    for i in range(nfit):
        d50 = rnd_d50()
        alpha = r.choice([1.8, r.uniform(0.5, 6.0)])
        sigma = r.choice([0.27, r.uniform(0.05, 1.5)])
        C95 = (math.log(1. - 0.95) / K05) ** (1. / alpha)
        mode = r.random()
        if mode < 0.1:
            dmax = None
        elif mode < 0.2:
            dmax = d50 * C95 * r.choice([1.0, 1 + 1e-12, 1 - 1e-12])       # on the boundary d95 = d_max
        else:
            dmax = d50 * 10 ** r.uniform(-2, 2)
        ctx.evaluations += 2
        # --- rosin_rammler_fit
        case = {'d50': d50, 'd_max': dmax, 'alpha': alpha}
        ctx.nontrivial.add(('rrfit',) + key12(d50, dmax, alpha))
        try:
            with np.errstate(**ERR):
                f = quiet(psf.rosin_rammler_fit, d50, dmax, alpha)
            f = fl(f)
        except Exception as e:
            ctx.violation('rosin_rammler_fit:raises:%s' % type(e).__name__, 'psf.rosin_rammler_fit raised %s: %s' % (type(e).__name__, e), case)
            f = None
        if f is not None:
            d95_before = d50 * C95
            d95_after = f[0] * (math.log(1. - 0.95) / f[1]) ** (1. / f[2])
            if dmax is None:
                ctx.count('rr fit: no d_max')
                if f[0] != d50:
                    ctx.violation('rosin_rammler_fit:none-changes-median', 'median changed although no d_max was given', dict(case, got=f))
            else:
                ctx.count('rr fit: capped' if d95_before > dmax else 'rr fit: already within cap')
                if not d95_after <= dmax * (1 + 1e-12):
                    ctx.violation('rosin_rammler_fit:d95-exceeds-dmax', 'after the fit the 95th percentile exceeds the maximum stable size',
                                  dict(case, got=f, d95_after=d95_after))
                # clearly inside the cap: bit-identical median; within rounding of the boundary d95 = d_max: equal to rounding
                if (d95_before <= dmax * (1 - 1e-12) and f[0] != d50) or (d95_before <= dmax and not close(f[0], d50, 1e-11)):
                    ctx.violation('rosin_rammler_fit:median-changed', 'median changed although it already satisfied the cap', dict(case, got=f))
                if not f[0] <= d50 * (1 + 1e-12):
                    ctx.violation('rosin_rammler_fit:median-increased', 'the fit increased the median', dict(case, got=f))
            if dmax is not None and d95_before > dmax and i % 10 == 0:
                # NOT demanded (the cap clause is about the fitted parameters, see META): where does the 95 % point of the BINNED output lie?
                de_b, vf_b = psf.rosin_rammler(10, f[0], f[1], f[2])
                cum = np.cumsum(vf_b)
                d_q = float(de_b[int(np.searchsorted(cum, 0.95 - 1e-12))])
                ctx.count('binned output (10 bins) after a capped fit: bin holding the 95 %% point %s d_max (counted only)' % ('<=' if d_q <= dmax else '>'))
            if f[1] != K05 or f[2] != alpha:
                ctx.violation('rosin_rammler_fit:parameters', 'k or alpha not returned as documented', dict(case, got=f))
            ask(req('Psf.rr_fit', d50, 0 if dmax is None else 1, 0.0 if dmax is None else dmax, alpha),
                lambda o, f=f, case=case: corr('Model.Psf.rrFit vs psf.rosin_rammler_fit', o, f, case))
        # --- log_normal_fit
        dmax_ln = None if dmax is None else dmax / C95 * math.exp(1.6449 * sigma)   # same relative position of the cap
        case = {'d50': d50, 'd_max': dmax_ln, 'sigma': sigma}
        ctx.nontrivial.add(('lnfit',) + key12(d50, dmax_ln, sigma))
        try:
            with np.errstate(**ERR):
                g = quiet(psf.log_normal_fit, d50, dmax_ln, sigma)
            g = fl(g)
        except Exception as e:
            ctx.violation('log_normal_fit:raises:%s' % type(e).__name__, 'psf.log_normal_fit raised %s: %s' % (type(e).__name__, e), case)
            g = None
        if g is not None:
            d95_before = math.exp(math.log(d50) + 1.6449 * sigma)
            d95_after = math.exp(math.log(g[0]) + 1.6449 * g[1])
            if dmax_ln is None:
                ctx.count('ln fit: no d_max')
                if g[0] != d50:
                    ctx.violation('log_normal_fit:none-changes-median', 'median changed although no d_max was given', dict(case, got=g))
            else:
                ctx.count('ln fit: capped' if d95_before > dmax_ln else 'ln fit: already within cap')
                if not d95_after <= dmax_ln * (1 + 1e-12):
                    ctx.violation('log_normal_fit:d95-exceeds-dmax', 'after the fit the 95th percentile exceeds the maximum stable size',
                                  dict(case, got=g, d95_after=d95_after))
                if (d95_before <= dmax_ln * (1 - 1e-12) and g[0] != d50) or (d95_before <= dmax_ln and not close(g[0], d50, 1e-11)):
                    ctx.violation('log_normal_fit:median-changed', 'median changed although it already satisfied the cap', dict(case, got=g))
                if not g[0] <= d50 * (1 + 1e-12):
                    ctx.violation('log_normal_fit:median-increased', 'the fit increased the median', dict(case, got=g))
            ask(req('Psf.ln_fit', d50, 0 if dmax_ln is None else 1, 0.0 if dmax_ln is None else dmax_ln, sigma),
                lambda o, g=g, case=case: corr('Model.Psf.lnFit vs psf.log_normal_fit', o, g, case))
        if i % 4 == 0:
            a = fl(psf.ln2rr(d50, sigma))
            b = fl(psf.rr2ln(d50, K05, alpha))
            ctx.evaluations += 2
            ask(req('Psf.ln2rr', d50, sigma), lambda o, a=a: corr('Model.Psf.ln2rr vs psf.ln2rr', o, a, {'d50': d50, 'sigma': sigma}))
            ask(req('Psf.rr2ln', d50, K05, alpha), lambda o, b=b: corr('Model.Psf.rr2ln vs psf.rr2ln', o, b, {'d50': d50, 'alpha': alpha}))
            # the two parametrisations share median and 95th percentile
            d95_rr = a[0] * (math.log(0.05) / a[1]) ** (1. / a[2])
            if not close(d95_rr, math.exp(math.log(d50) + 1.6449 * sigma), 1e-10):
                ctx.violation('ln2rr:d95', 'ln2rr does not preserve the 95th percentile', {'d50': d50, 'sigma': sigma, 'got': a})

    # ================= (C) legacy sintef.rosin_rammler ========================================
    nleg = ctx.n(80, 4000)
    for i in range(nleg):
        nb = rnd_bins(i)
        sig, rho_p, rho = r.uniform(0.001, 0.05), r.uniform(600., 980.), r.uniform(1000., 1040.)
        dmax = float(psf.de_max_oil(rho_p, sig, rho))
        d50 = dmax * 10 ** r.uniform(-0.7, 1.3)
        mdt = 10 ** r.uniform(-3, 3)
        case = {'nbins': nb, 'd50': d50, 'md_total': mdt, 'sigma': sig, 'rho_p': rho_p, 'rho': rho}
        ctx.evaluations += 1
        ctx.nontrivial.add(('legacy',) + key12(nb, d50, mdt, sig, rho_p, rho))
        try:
            with np.errstate(**ERR):
                de, md = quiet(sintef.rosin_rammler, nb, d50, mdt, sig, rho_p, rho)
        except Exception as e:
            ctx.violation('legacy:raises:%s' % type(e).__name__, 'sintef.rosin_rammler raised %s: %s' % (type(e).__name__, e), case)
            continue
        de, md = fl(de), fl(md)
        ntr = sum(1 for x in de if x >= dmax)
        ctx.count('legacy truncation: %s' % ('none' if ntr == 0 else 'one bin' if ntr == 1 else 'several bins'))
        if not abs(math.fsum(md) - mdt) <= 1e-10 * mdt:
            ctx.violation('legacy:mass-not-conserved', 'legacy truncation does not conserve the total mass flux', dict(case, sum=math.fsum(md)))
        if any(m != 0 and d > dmax * (1 + 1e-15) for d, m in zip(de, md)):
            ctx.violation('legacy:mass-above-dmax', 'mass left in a bin larger than the maximum stable size', dict(case, de=de, md=md, dmax=dmax))
        if not all(m >= 0 for m in md):
            ctx.violation('legacy:negative-mass', 'negative mass flux in a bin', dict(case, md=md))
        ask(req('Psf.legacy_rr', nb, d50, mdt, sig, rho_p, rho),
            lambda o, de=de, md=md, case=case: (corr('Model.Psf.legacyRR de vs sintef.rosin_rammler', o[0], de, case),
                                                corr('Model.Psf.legacyRR md vs sintef.rosin_rammler', o[1], md, case)))

    # ================= recorders (oracles of the model) ========================================
    memo = {}
    _grace, _sd50, _dens, _lid50 = psf.grace, psf.sintef_d50, dbm.FluidMixture.density, psf.li_etal_d50
    rec = {}

    _find_de = psf.find_de
    cur = {'p': None, 'sd50': None, 'd0': None}      # harness-held inputs of the case being run
    GRACE_TOL = 1e-7          # |find_de(de_max)| <= 1e-7 s  (d residual / d ln de is about 0.1 s: 1e-6 relative in de_max)
    grace_bad = []

    def cap_gas(pp):
        """maximum stable bubble size from the HARNESS's property values (psf.grace is a pure function: evaluated once per
        property set), with the residual of Grace et al.'s root problem evaluated at it from the same harness-held values"""
        key = (pp['rho'], pp['rho_gas'], pp['mu'], pp['mu_gas'], pp['sigma_gas'])
        if key not in memo:
            rho_c, rho_d, mu_c, mu_d, sig = key
            de = float(_grace(rho_c, rho_d, mu_c, mu_d, sig, fp_type=0))
            dpr = abs(rho_c - rho_d)
            lam_crit = 2. * math.pi * math.sqrt(sig / (psf.G * dpr))
            res = float(_find_de(de, rho_d, rho_c, mu_d, mu_c, sig, mu_d / rho_d, mu_c / rho_c, psf.G, dpr, mu_d / mu_c, lam_crit, 3.8))
            if not (de > 0 and abs(res) <= GRACE_TOL):
                grace_bad.append({'properties': key, 'de_max': de, 'residual': res})
            memo[key] = de
        return memo[key]

    def cap_oil(pp):
        return 4. * math.sqrt(pp['sigma_oil'] / (9.81 * (pp['rho'] - pp['rho_oil'])))

    def grace_rec(*a, **k):
        pp = cur['p']
        want = (pp['rho'], pp['rho_gas'], pp['mu'], pp['mu_gas'], pp['sigma_gas'])
        got = tuple(float(x) for x in a[:5])
        fpt = a[5] if len(a) > 5 else k.get('fp_type', 0)
        if got != want or fpt != 0 or len(a) < 5:
            ctx.violation('grace-called-with-wrong-arguments', 'psf.grace (maximum stable bubble size) is called with other values than the gas / water '
                          'properties of the release', {'expected (rho, rho_gas, mu, mu_gas, sigma_gas, fp_type=0)': list(want), 'called with': [list(got), fpt]})
            v = float(_grace(*a, **k))
        else:
            v = cap_gas(pp)
        rec['grace'] = v
        return v

    def sd50_rec(u0, d0, rho_p, mu_p, sigma, rho, *a, **k):
        v = _sd50(u0, d0, rho_p, mu_p, sigma, rho, *a, **k)
        dp = float(v) / float(d0)
        rec['dp'] = dp
        exp = cur['sd50']
        if exp is not None:
            if (float(d0), float(rho_p), float(mu_p), float(sigma), float(rho)) != exp:
                ctx.violation('sintef_d50-called-with-wrong-arguments', 'psf.sintef_d50 is called with other values than the orifice / fluid properties of the requested phase',
                              {'expected (d0, rho_p, mu_p, sigma, rho)': list(exp), 'called with': [float(d0), float(rho_p), float(mu_p), float(sigma), float(rho)]})
            # residual of the modified Weber number equation from the harness-held properties and the velocity the code used
            We = exp[1] * float(u0) ** 2 * exp[0] / exp[3]
            Vi = exp[2] * float(u0) / exp[3]
            if We > 350. and dp > 0:
                resid['n2'] = resid.get('n2', 0) + 1
                rr_ = dp - 24.8 * (We / (1. + 0.08 * Vi * dp ** (1. / 3.))) ** (-3. / 5.)
                if not abs(rr_) <= RESID_TOL * dp:
                    resid['bad'].append({'d0': exp[0], 'rho_p': exp[1], 'mu_p': exp[2], 'sigma': exp[3], 'u0': float(u0), 'dp': dp, 'residual': rr_})
        return v

    def lid50_rec(*a, **k):
        v = _lid50(*a, **k)
        rec.setdefault('li_d50', []).append(float(v))
        return v

    def li_key():
        # exact signature of the recorded finding: the median returned IS the raw Li et al. correlation value (fit called with None)
        return 'd95-exceeds-dmax:li_etal:uncapped-median'

    def li_cap_key(d50):
        return li_key() if any(close(float(d50), raw, 1e-12) for raw in rec.get('li_d50', [])) else 'd95-exceeds-dmax:li_etal:other'

    def dens_rec(self, m, T_, P_):
        v = _dens(self, m, T_, P_)
        rec.setdefault('ch4', []).append(float(v[0, 0]))
        return v

    class Patched:
        def __enter__(self):
            rec.clear()
            psf.grace, psf.sintef_d50, dbm.FluidMixture.density, psf.li_etal_d50 = grace_rec, sd50_rec, dens_rec, lid50_rec

        def __exit__(self, *a):
            psf.grace, psf.sintef_d50, dbm.FluidMixture.density, psf.li_etal_d50 = _grace, _sd50, _dens, _lid50

    known_keys = set(kf['key'] for kf in common.load_known() if kf['property'] == 'C16')

    def call(f, mg, mo):
        """run the real code under errstate(raise); returns (result, exception, result without errstate).  The second run
        (errstate ignore, to evaluate the remaining clauses on what the code returns in normal use) is made ONLY when the
        failure is a recorded known finding; any other failure is reported and the case is not evaluated further"""
        with Patched():
            try:
                with np.errstate(**ERR):
                    return quiet(f), None, None
            except (FloatingPointError, ZeroDivisionError) as e:
                exc = e
            except Exception as e:
                return None, e, None
        if exc_key(exc, mg, mo) not in known_keys:
            return None, exc, None
        with Patched():
            try:
                with np.errstate(all='ignore'):
                    return None, exc, quiet(f)
            except Exception:
                return None, exc, None

    nprops = ctx.n(5, 60)
    props = []
    for _ in range(nprops):
        props.append(dict(rho_gas=r.choice([131.8, r.uniform(5., 300.)]), mu_gas=r.uniform(1e-5, 3e-5), sigma_gas=r.uniform(0.02, 0.08),
                          rho_oil=r.uniform(600., 980.), mu_oil=10 ** r.uniform(-4, -1.3), sigma_oil=r.choice([r.uniform(0.005, 0.04), 10 ** r.uniform(-3.3, -2)]),
                          rho=r.uniform(1000., 1040.), mu=r.uniform(0.001, 0.002)))

    def rnd_flux(pzero):
        return 0.0 if r.random() < pzero else 10 ** r.uniform(-4, 3.5)

    def fp_violation(site, e, case, mg, mo):
        fname, func, lineno, _line = tamoc_site(e)
        ctx.violation(exc_key(e, mg, mo), 'called through %s: %s raised in %s:%s (l.%d) — %s' % (site, type(e).__name__, fname, func, lineno, e), case)

    def opt(x):
        return None if x is None else float(x)

    def cap_check(site, phase, dm, cap, case):
        # the maximum stable size the code reports against the harness's own value (oil: Clift et al. formula from the harness's
        # properties; gas: psf.grace evaluated by the harness on its own properties, residual-checked)
        if dm is None or not close(float(dm), cap, 1e-12):
            ctx.violation('de_max-differs-from-independent:%s:%s' % (site, phase), '%s reports a maximum stable %s size that is not the one of the release properties'
                          % (site, 'bubble' if phase == 'gas' else 'droplet'), dict(case, reported=opt(dm), independent=cap))
            return False
        return True

    # ================= (D) psf.sintef / li_etal / wang_etal ====================================
    ndrv = ctx.n(240, 8000)
    for i in range(ndrv):
        p = props[i % len(props)]
        d0 = r.choice([0.01, 1.0, 10 ** r.uniform(-2, 0), 10 ** r.uniform(-2, 0)])
        mg, mo = rnd_flux(0.3), rnd_flux(0.3)
        if mg == 0 and mo == 0 and r.random() < 0.8:
            mo = 10 ** r.uniform(-4, 3.5)
        if i < 3:
            mg = mo = 0.0            # neither phase flows: once per driver in every run
        flows = 'both' if (mg > 0 and mo > 0) else 'gas only' if mg > 0 else 'oil only' if mo > 0 else 'none'
        which = i % 3
        fp = r.randint(0, 1)
        mgv, mov = ([mg], [mo]) if r.random() < 0.5 else ([mg * 0.25, mg * 0.75], [mo * 0.5, mo * 0.3, mo * 0.2])
        ctx.evaluations += 1
        if which == 0:
            use95 = r.random() < 0.8
            mu_p, sg = (p['mu_gas'], p['sigma_gas']) if fp == 0 else (p['mu_oil'], p['sigma_oil'])
            case = dict(p, model='sintef', d0=d0, m_gas=mgv, m_oil=mov, fp_type=fp, use_d95=use95)
            ctx.count('sintef fp=%d flows: %s' % (fp, flows))
            ctx.nontrivial.add(('sintef',) + key12(d0, mgv, mov, fp, use95, p['rho_oil'], p['rho_gas']))
            cur['p'], cur['sd50'] = p, (float(d0), p['rho_gas'] if fp == 0 else p['rho_oil'], mu_p, sg, p['rho'])
            cap = cap_gas(p) if fp == 0 else cap_oil(p)
            res, exc, res2 = call(lambda: psf.sintef(d0, np.array(mgv), p['rho_gas'], np.array(mov), p['rho_oil'], mu_p, sg, p['rho'], p['mu'],
                                                     fp_type=fp, use_d95=use95), mg, mo)
            if exc is not None:
                fp_violation('psf.sintef', exc, case, mg, mo)
                res = res2
            if res is None:
                continue
            d50, dm, k, al = float(res[0]), opt(res[1]), float(res[2]), float(res[3])
            q_req = mg if fp == 0 else mo
            if q_req == 0 and not (d50 == 0 and dm is None):
                ctx.violation('sintef:zero-flow-not-empty', 'sintef: zero flow of the requested phase does not give median 0 / no d_max', dict(case, got=[d50, dm]))
            if q_req > 0:
                if not (d50 > 0 and dm is not None and dm > 0 and math.isfinite(d50)):
                    ctx.violation('sintef:median-not-positive', 'sintef: flowing phase without a positive median / d_max', dict(case, got=[d50, dm]))
                elif not cap_check('sintef', 'gas' if fp == 0 else 'oil', dm, cap, case):
                    pass
                elif use95 and not d50 * (math.log(0.05) / k) ** (1. / al) <= cap * (1 + 1e-9):
                    ctx.violation('d95-exceeds-dmax:sintef', 'sintef: 95th percentile exceeds the maximum stable size', dict(case, got=[d50, dm, k, al]))
                elif not use95:
                    # use_d95=False is the documented switch that turns the d95 rule OFF ("True means to use the rule"); what the
                    # option promises instead (sintef.modified_We_model: "the lesser of the estimated particle size or the maximum
                    # stable particle size") is the cap on the MEDIAN
                    ctx.count('sintef use_d95=False: d95 %s d_max (rule switched off by the caller; not demanded)'
                              % ('<=' if d50 * (math.log(0.05) / k) ** (1. / al) <= cap else '>'))
                    if not d50 <= cap * (1 + 1e-12):
                        ctx.violation('sintef:use_d95-false:median-exceeds-dmax', 'sintef(use_d95=False): the median exceeds the maximum stable size', dict(case, got=[d50, dm]))
            grace_v, dp_v = cap_gas(p), rec.get('dp', 0.0)

            def cb(o, d50=d50, dm=dm, k=k, al=al, case=case, dp_v=dp_v, q_req=q_req):
                corr('Model.Psf.sintef vs psf.sintef', [o[0], o[2] if o[1] == 1 else -1.0, o[3], o[4]], [d50, dm if dm is not None else -1.0, k, al], case)
                if q_req > 0 and o[5] > 350. and dp_v > 0:
                    # the oracle is what fsolve returned: it must BE a root of the modified Weber number equation
                    # (residual evaluated by the model, Psf.sintefResidual, at Float)
                    resid['n'] += 1
                    if not abs(o[8]) <= RESID_TOL * dp_v:
                        resid['bad'].append(dict(case, We=o[5], Vi=o[6], dp=dp_v, residual=o[8]))
            ask(req('Psf.sintef', grace_v, dp_v, d0, mgv, p['rho_gas'], mov, p['rho_oil'], mu_p, sg, p['rho'], p['mu'], fp, 1 if use95 else 0), cb)
        elif which == 1:
            mu_p, sg = (p['mu_gas'], p['sigma_gas']) if fp == 0 else (p['mu_oil'], p['sigma_oil'])
            case = dict(p, model='li_etal', d0=d0, m_gas=mgv, m_oil=mov, fp_type=fp)
            ctx.count('li_etal fp=%d flows: %s' % (fp, flows))
            ctx.nontrivial.add(('li',) + key12(d0, mgv, mov, fp, p['rho_oil'], p['rho_gas']))
            cur['p'], cur['sd50'] = p, None
            cap = cap_gas(p) if fp == 0 else cap_oil(p)
            res, exc, res2 = call(lambda: psf.li_etal(d0, np.array(mgv), p['rho_gas'], np.array(mov), p['rho_oil'], mu_p, sg, p['rho'], p['mu'], fp_type=fp), mg, mo)
            if exc is not None:
                fp_violation('psf.li_etal', exc, case, mg, mo)
                res = res2
            if res is None:
                continue
            d50, dm, k, al = float(res[0]), opt(res[1]), float(res[2]), float(res[3])
            q_req = mg if fp == 0 else mo
            if q_req == 0 and not (d50 == 0 and dm is None):
                ctx.violation('li_etal:zero-flow-not-empty', 'li_etal: zero flow of the requested phase does not give median 0 / no d_max', dict(case, got=[d50, dm]))
            if q_req > 0:
                if not (d50 > 0 and dm is not None and dm > 0 and math.isfinite(d50)):
                    ctx.violation('li_etal:median-not-positive', 'li_etal: flowing phase without a positive median / d_max', dict(case, got=[d50, dm]))
                elif not cap_check('li_etal', 'gas' if fp == 0 else 'oil', dm, cap, case):
                    pass
                elif not d50 * (math.log(0.05) / k) ** (1. / al) <= cap * (1 + 1e-9):
                    ctx.violation(li_cap_key(d50), 'li_etal: 95th percentile of the fitted distribution exceeds the maximum stable size (the d95 rule is never applied)',
                                  dict(case, got=[d50, dm, k, al], d95=d50 * (math.log(0.05) / k) ** (1. / al)))
            if True:        # since fix 9f1b754 li_etal is defined (empty parameters) with neither phase flowing, too
                ask(req('Psf.li_etal', cap_gas(p), d0, mgv, p['rho_gas'], mov, p['rho_oil'], mu_p, sg, p['rho'], p['mu'], fp),
                    lambda o, d50=d50, dm=dm, k=k, al=al, case=case: corr('Model.Psf.liEtal vs psf.li_etal', [o[0], o[2] if o[1] == 1 else -1.0, o[3], o[4]],
                                                                            [d50, dm if dm is not None else -1.0, k, al], case))
        else:
            Pj = 10 ** r.uniform(5.5, 7.5)
            case = dict(p, model='wang_etal', d0=d0, m_gas=mgv, m_oil=mov, P=Pj)
            ctx.count('wang_etal flows: %s' % flows)
            ctx.nontrivial.add(('wang',) + key12(d0, mgv, mov, Pj, p['rho_oil'], p['rho_gas']))
            cur['p'], cur['sd50'] = p, None
            cap = cap_gas(p)
            res, exc, res2 = call(lambda: psf.wang_etal(d0, np.array(mgv), p['rho_gas'], p['mu_gas'], p['sigma_gas'], p['rho'], p['mu'],
                                                        m_l=np.array(mov), rho_l=p['rho_oil'], P=Pj, T=288.15), mg, mo)
            if exc is not None:
                fp_violation('psf.wang_etal', exc, case, mg, mo)
                res = res2
            if res is None:
                continue
            d50, m_g, m_o, dm, sg = float(res[0]), float(res[1]), float(res[2]), opt(res[3]), float(res[4])
            if mg == 0 and not (d50 == 0 and dm is None):
                ctx.violation('wang_etal:zero-flow-not-empty', 'wang_etal: zero gas flow does not give median 0 / no d_max', dict(case, got=[d50, dm]))
            if mg > 0:
                if not (d50 > 0 and dm is not None and dm > 0 and math.isfinite(d50)):
                    ctx.violation('wang_etal:median-not-positive', 'wang_etal: flowing gas without a positive median / d_max', dict(case, got=[d50, dm]))
                elif not cap_check('wang_etal', 'gas', dm, cap, case):
                    pass
                elif not math.exp(math.log(d50) + 1.6449 * sg) <= cap * (1 + 1e-9):
                    ctx.violation('d95-exceeds-dmax:wang_etal', 'wang_etal: 95th percentile exceeds the maximum stable size', dict(case, got=[d50, dm, sg]))
                if m_g > math.fsum(mgv) * (1 + 1e-9):
                    ctx.count('wang_etal returns more gas than supplied (not part of C16)')
            ch4 = rec.get('ch4', [])
            if flows != 'none' and len(ch4) == 2:
                ask(req('Psf.wang_etal', cap_gas(p), ch4[0], ch4[1], d0, mgv, p['rho_gas'], p['mu_gas'], p['sigma_gas'], p['rho'], p['mu'],
                        mov, p['rho_oil'], Pj),
                    lambda o, d50=d50, m_g=m_g, m_o=m_o, dm=dm, sg=sg, case=case: corr(
                        'Model.Psf.wang vs psf.wang_etal', [o[0], o[1], o[2], o[4] if o[3] == 1 else -1.0, o[5]],
                        [d50, m_g, m_o, dm if dm is not None else -1.0, sg], case, tol=1e-10))

    # ================= (E) ModelBase.simulate / get_distributions ==============================
    nmb = ctx.n(160, 6000)
    MG, MO, PD = ['wang_etal', 'li_etal'], ['sintef', 'li_etal'], ['rosin-rammler', 'lognormal']
    for i in range(nmb):
        p = props[i % len(props)]
        combo = (i // 3) % 16
        model_gas, model_oil, pdf_gas, pdf_oil = MG[combo & 1], MO[(combo >> 1) & 1], PD[(combo >> 2) & 1], PD[(combo >> 3) & 1]
        d0 = r.choice([0.01, 1.0, 10 ** r.uniform(-2, 0), 10 ** r.uniform(-2, 0)])
        kind = i % 3
        mg = 0.0 if kind == 1 else 10 ** r.uniform(-4, 3.5)
        mo = 0.0 if kind == 2 else 10 ** r.uniform(-4, 3.5)
        nbg, nbo = rnd_bins(r.randint(0, 20)), rnd_bins(r.randint(0, 20))
        Pj = 10 ** r.uniform(5.5, 7.5)
        flows = 'both' if kind == 0 else 'oil only' if kind == 1 else 'gas only'
        case = dict(p, d0=d0, m_gas=mg, m_oil=mo, model_gas=model_gas, model_oil=model_oil, pdf_gas=pdf_gas, pdf_oil=pdf_oil,
                    nbins_gas=nbg, nbins_oil=nbo, Pj=Pj)
        ctx.evaluations += 1
        ctx.count('ModelBase flows: %s' % flows)
        ctx.count('ModelBase %s/%s' % (model_gas, pdf_gas))
        ctx.nontrivial.add(('mb',) + key12(d0, mg, mo, model_gas, model_oil, pdf_gas, pdf_oil, nbg, nbo, p['rho_oil']))

        def go():
            mb = psm.ModelBase(p['rho_gas'], p['mu_gas'], p['sigma_gas'], p['rho_oil'], p['mu_oil'], p['sigma_oil'], p['rho'], p['mu'])
            mb.simulate(d0, mg, mo, model_gas, model_oil, pdf_gas, pdf_oil, Pj, 288.15)
            out = mb.get_distributions(nbg, nbo)
            return mb, out
        cur['p'], cur['sd50'] = p, ((float(d0), p['rho_oil'], p['mu_oil'], p['sigma_oil'], p['rho']) if model_oil == 'sintef' else None)
        capg, capo = cap_gas(p), cap_oil(p)
        res, exc, res2 = call(go, mg, mo)
        raised_attr = False
        if exc is not None:
            if isinstance(exc, (FloatingPointError, ZeroDivisionError)):
                fp_violation('ModelBase.simulate/get_distributions', exc, case, mg, mo)
                res = res2
            elif isinstance(exc, AttributeError) and model_gas == 'wang_etal' and pdf_gas == 'rosin-rammler':
                raised_attr = True
                fname, func, lineno, _ln = tamoc_site(exc)
                ctx.violation('AttributeError:wang_etal+rosin-rammler', 'ModelBase.simulate(model_gas=wang_etal, pdf_gas=rosin-rammler) stores the shape '
                              'parameter in sigma_gas; get_distributions raises %s (%s l.%d): no gas distribution is produced' % (exc, fname, lineno), case)
            else:
                fname, func, lineno, _ln = tamoc_site(exc)
                ctx.violation('ModelBase:raises:%s:%s' % (type(exc).__name__, func), 'ModelBase raised %s: %s (%s l.%d)' % (type(exc).__name__, exc, fname, lineno), case)
        grace_v, dp_v, ch4 = capg, rec.get('dp', 0.0), rec.get('ch4', [0.0, 1.0])
        mgi, pgi = MG.index(model_gas), PD.index(pdf_gas)
        moi, poi = MO.index(model_oil), PD.index(pdf_oil)
        if len(ch4) < 2:
            ch4 = [0.0, 1.0]
        if res is not None:
            mb, (de_g, vf_g, de_o, vf_o) = res
            for phase, de, vf, flow, nb, dm, pdf in (('gas', de_g, vf_g, mg, nbg, mb.de_max_gas, pdf_gas), ('oil', de_o, vf_o, mo, nbo, mb.de_max_oil, pdf_oil)):
                if flow == 0:
                    if not (len(de) == 0 and len(vf) == 0):
                        ctx.violation('ModelBase:zero-flow-not-empty:' + phase, 'a phase with zero flow does not yield the empty distribution', dict(case, de=fl(de), vf=fl(vf)))
                else:
                    dist_predicates(ctx, 'ModelBase', de, vf, nb, case, tag=':' + phase)
            # the cap on the parameters actually used for the distributions
            if mo > 0 and not (float(mb.d50_oil) > 0 and math.isfinite(float(mb.d50_oil))):
                ctx.violation('ModelBase:median-not-positive:oil', 'ModelBase: flowing oil phase without a positive median', dict(case, d50=float(mb.d50_oil)))
            elif mo > 0:
                if pdf_oil == 'rosin-rammler':
                    d95 = mb.d50_oil * (math.log(0.05) / mb.k_oil) ** (1. / mb.alpha_oil)
                else:
                    d95 = math.exp(math.log(mb.d50_oil) + 1.6449 * mb.sigma_ln_oil)
                if not cap_check('ModelBase.' + model_oil, 'oil', mb.de_max_oil, capo, case):
                    pass
                elif not d95 <= capo * (1 + 1e-9):
                    ctx.violation(li_cap_key(mb.d50_oil) if model_oil == 'li_etal' else 'd95-exceeds-dmax:' + model_oil, 'ModelBase: 95th percentile of the oil distribution exceeds the maximum stable size',
                                  dict(case, d50=float(mb.d50_oil), d95=float(d95), de_max=capo))
            if mg > 0 and not (float(mb.d50_gas) > 0 and math.isfinite(float(mb.d50_gas))):
                ctx.violation('ModelBase:median-not-positive:gas', 'ModelBase: flowing gas phase without a positive median', dict(case, d50=float(mb.d50_gas)))
            elif mg > 0:
                if pdf_gas == 'rosin-rammler':
                    d95 = mb.d50_gas * (math.log(0.05) / mb.k_gas) ** (1. / mb.alpha_gas)
                else:
                    d95 = math.exp(math.log(mb.d50_gas) + 1.6449 * mb.sigma_ln_gas)
                if not cap_check('ModelBase.' + model_gas, 'gas', mb.de_max_gas, capg, case):
                    pass
                elif not d95 <= capg * (1 + 1e-9):
                    ctx.violation(li_cap_key(mb.d50_gas) if model_gas == 'li_etal' else 'd95-exceeds-dmax:' + model_gas, 'ModelBase: 95th percentile of the gas distribution exceeds the maximum stable size',
                                  dict(case, d50=float(mb.d50_gas), d95=float(d95), de_max=capg))
            ask(req('Psf.mb_gas', grace_v, ch4[0], ch4[1], mgi, pgi, nbg, d0, mg, mo, p['rho_gas'], p['mu_gas'], p['sigma_gas'], p['rho_oil'], p['rho'], p['mu'], Pj),
                lambda o, de=fl(de_g), vf=fl(vf_g), case=case: (corr('Model.Psf.mbGas vs ModelBase (gas) de', o[1] if o[0] == 1 else None, de, case, tol=1e-10),
                                                               corr('Model.Psf.mbGas vs ModelBase (gas) vf', o[2] if o[0] == 1 else None, vf, case, tol=1e-10)))
            ask(req('Psf.mb_oil', grace_v, dp_v, moi, poi, nbo, d0, mg, mo, p['rho_gas'], p['rho_oil'], p['mu_oil'], p['sigma_oil'], p['rho'], p['mu']),
                lambda o, de=fl(de_o), vf=fl(vf_o), case=case: (corr('Model.Psf.mbOil vs ModelBase (oil) de', o[1] if o[0] == 1 else None, de, case, tol=1e-10),
                                                               corr('Model.Psf.mbOil vs ModelBase (oil) vf', o[2] if o[0] == 1 else None, vf, case, tol=1e-10)))
        elif raised_attr:
            # the model must agree that no distribution is produced
            ask(req('Psf.mb_gas', grace_v, ch4[0], ch4[1], mgi, pgi, nbg, d0, mg, mo, p['rho_gas'], p['mu_gas'], p['sigma_gas'], p['rho_oil'], p['rho'], p['mu'], Pj),
                lambda o, case=case: corr('Model.Psf.mbGas = none where ModelBase raises AttributeError', float(o[0]), 0.0, case))

    # ================= driver ==================================================================
    out = run_driver(ctx, 'C16', lines)
    if out is not None:
        for idx, cb in after:
            o = out[idx]
            if isinstance(o, tuple):
                bad['n'] += 1
                if bad['n'] <= 5:
                    ctx.broken.append(('correspondence', 'driver answered ERR', '%s -> %s' % (lines[idx][:120], o[1])))
                continue
            cb(o)
        ctx.oblige('correspondence Model.Psf.* == psf / particle_size_models / sintef on %d driver requests (rel %g; ModelBase and wang_etal 1e-10)'
                   % (len(lines), TOL['gen_vs_source']), bad['n'] == 0, '%d disagreements' % bad['n'])
    if out is not None:
        ctx.oblige('oracle contract: the %d fsolve roots handed to the model satisfy the modified Weber number equation, |residual| <= %g dp'
                   % (resid['n'], RESID_TOL), not resid['bad'], repr(resid['bad'][:2]))
        for b in resid['bad'][:3]:
            ctx.broken.append(('oracle', 'sintef_d50 fsolve root', repr(b)))
    ctx.oblige('oracle contract: psf.grace evaluated by the harness on its own property values for %d property sets is a root of Grace et al.\'s '
               'stability problem, |find_de(de_max)| <= %g; %d further sintef_d50 roots checked from harness-held properties' % (len(memo), GRACE_TOL, resid.get('n2', 0)),
               not grace_bad, repr(grace_bad[:2]))
    for b in grace_bad[:3]:
        ctx.broken.append(('oracle', 'psf.grace root', repr(b)))
    ctx.notes.append('worst relative model-vs-code differences: %r' % {k: float('%.3g' % v) for k, v in sorted(worst.items())})
    ctx.notes.append('psf.grace evaluated for %d distinct property sets (memoised: it is a pure function of its arguments)' % len(memo))
