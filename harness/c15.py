"""
C15 — Quantity and unit conversions are exact and mutually inverse.

proof        : TamocV/Props/C15.lean
                 (a) round trips of Model/Convert.lean over the reals for vectors of any length
                 (b) Gen/UnitsData.lean (regenerated on every run by translate/data2lean.py from ambient.py,
                     chemical_properties.py, {Chem,Bio,PJ}Data.csv) against the independent Std tables
tie          : translator re-run; the Lean model (generic, at Float) executed through the driver against the
               real dbm / ambient / chemical_properties functions on every generated case
real code    : round trips, documented factors, shapes, unchanged standard units, tamoc_data() vs an independent
               parse of the CSV files — evaluated directly on the outputs of the real code
"""
import io
import os
import sys
import math
import contextlib
import subprocess
import numpy as np
from fractions import Fraction

import common
from common import req, close, relerr, TOL, run_driver

sys.path.insert(0, os.path.join(common.VERIF, 'translate'))
import data2lean  # noqa: E402   (stdlib only; used as the independent parser of the CSV files / tables)

META = {
    'text': 'Theorems (Lean 4, over the reals, vectors of any length): moles->masses->moles, masses->moles->masses, '
            'mol_frac(mass_frac(y)) = y/sum(y) and conversely, diameter->masses->diameter and masses->diameter->masses for '
            'FluidParticle (density any positive function of composition only) and InsolubleParticle (cube-root identities), '
            'the masses for a requested diameter have the requested mole fractions. Tables regenerated from /repo on every run: '
            'every entry of ambient.convert_units\' table and every unit block of chemical_properties.convert_units is proved '
            '(decide in the kernel over the whole table) to carry the factor/offset/unit of an independent table typed from the '
            'standard definitions; standard units are returned unchanged; scalar/row/column/2-D inputs are converted element-wise; '
            'every compound of ChemData.csv has a complete row with positive M, Pc, Tc, Vc after conversion. The real functions are '
            'compared with the Lean model through a driver on every generated case, tamoc_data() is compared exhaustively with an '
            'independent parse of the three CSV files, and every property predicate is evaluated on the real outputs.',
    'note': 'Trusted: Lean kernel + 3 standard axioms; translate/data2lean.py (its affine reduction of each unit block is re-proved '
            'in Lean against the transcribed expression; the tables are executed against the real code on every run); the hand '
            'transcription Model/Convert.lean (tied by correspondence only); the independent Std table (typed by hand from unit '
            'definitions and CHANGES.txt); real arithmetic for IEEE doubles. FluidParticle.density enters the theorems as a '
            'hypothesis (positive, depends on composition only), not proved: on the real code the round trips are evaluated '
            'unconditionally (a density that is not intensive, or evaluated at another state, shows up as a round-trip violation), the '
            'model is fed with a density computed independently of the particle object (dbm_p.density with the constants of a separate '
            'FluidMixture). Two-phase particles (fp_type=2) are covered by the predicates at flash tolerance, not by the model. '
            'Two defects of ambient.convert_units are recorded as known findings with their negation theorems (2-D data with one unit '
            'string; label of an unrecognised unit split into characters). The unit block (L/mol/deg F) was found defective by this check (factor 5/9 instead of 9/5) and repaired in /repo (543e1ec); the full chain theorem, its partial form and the witness of the negation for the old factor are all kept.',
    'technique': 'Lean 4 proofs (induction over lists; decide over regenerated tables) + differential execution of the model against the real code',
}

# GEN: the table generator is translate/data2lean.py.  If translate/gen.py knows the target `units` it is run by
# check.py like every other generator; otherwise this module runs it when it is imported (i.e. before check.py
# builds the Lean modules) and reports the outcome as an obligation in run().
_PREGEN = None
try:
    sys.path.insert(0, os.path.join(common.VERIF, 'translate'))
    import gen as _gen  # noqa: E402
    _HAS_TARGET = 'units' in getattr(_gen, 'TARGETS', {})
except Exception:
    _HAS_TARGET = False
GEN = ['units'] if _HAS_TARGET else []
if not _HAS_TARGET:
    _p = subprocess.run([sys.executable, os.path.join(common.VERIF, 'translate', 'data2lean.py'), '--repo', common.REPO],
                        stdout=subprocess.PIPE, stderr=subprocess.PIPE, text=True)
    _PREGEN = (_p.returncode == 0, _p.stderr.strip()[-2000:])

MODULES = ['TamocV.Props.C15', 'TamocV.Model.Convert', 'TamocV.Gen.UnitsData']
RULE = ('mixtures of 1-10 database compounds with positive mole/mass vectors spanning 1e-12..1e6 (log-uniform, plus equal and '
        'one-dominant compositions), every 4th scaled down to 1e-20..1e-12 mol; in every run 36 gas particles at the light / small / '
        'near-surface corner (hydrogen, hydrogen-rich mixtures, methane; de 1e-5 exactly or 1e-5..3e-5 m; P 1e5..1e6 Pa) with floors: '
        '>= 20 such round trips and smallest total particle mass <= 1e-16 kg; particle diameters 1e-5..1e-1 m (log-uniform + both ends) for gas mixtures (fp_type 0) and '
        'liquid mixtures (fp_type 1) at T 275-320 K, P 1e5-4e7 Pa, and for inert particles (compressible or not); EVERY unit string '
        'of the ambient table x {float, int, list, 1-D row with one unit, row with a unit per element, column, 2-D} + every standard '
        'unit + xarray datasets; EVERY unit block (pattern, alternative spelling, pattern embedded in a longer label) of the '
        'chemical-property chain; EVERY compound x column of ChemData/BioData/PJData.csv; histories: a generated user file loaded, re-written '
        'at the same path (other units, changed value, added row) and loaded again; an entry of the dictionary returned by tamoc_data() '
        'tuned, then tamoc_data() and FluidMixture again; a case is non-trivial when its inputs '
        'are distinct from every other case (rounded to 12 digits)')
LEVEL_NOTE = ('theorems over the reals about a hand transcription of the conversion methods (tied to the code by differential '
              'execution) and about tables regenerated from the source; FluidParticle.density is a hypothesis (positive, intensive); '
              'floating point and the generator are trusted (generator validated on every run)')
EXHAUSTIVE = False


def audit_files():
    return ['TamocV/Num.lean', 'TamocV/Real.lean', 'TamocV/Model/Convert.lean', 'TamocV/Lemmas/C15.lean',
            'TamocV/Props/C15.lean', 'TamocV/Gen/UnitsData.lean']


def codes(s):
    return [float(ord(c)) for c in s]


def uncodes(v):
    return ''.join(chr(int(c)) for c in v)


def quiet(f, *a, **k):
    buf = io.StringIO()
    with contextlib.redirect_stdout(buf):
        r = f(*a, **k)
    return r, buf.getvalue()


def key12(*xs):
    out = []
    for x in xs:
        if isinstance(x, (list, tuple, np.ndarray)):
            out.append(tuple(float('%.12g' % v) for v in np.asarray(x, dtype=float).ravel()))
        elif isinstance(x, str):
            out.append(x)
        else:
            out.append(float('%.12g' % x))
    return tuple(out)


GASES = ['methane', 'ethane', 'propane', 'carbon_dioxide', 'nitrogen', 'isobutane', 'n-butane', 'hydrogen_sulfide', 'oxygen', 'argon']
LIQUIDS = ['n-pentane', 'isopentane', 'n-hexane', '2-methylpentane', '3-methylpentane', 'n-heptane', 'benzene', 'toluene',
           'ethylbenzene', 'n-decane', 'neohexane', '2-3-dimethylbutane']


def rand_positive(r, n):
    mode = r.random()
    if mode < 0.15:
        v = [1.0] * n
    elif mode < 0.3:
        v = [10 ** r.uniform(-12, -6) for _ in range(n)]
        v[r.randrange(n)] = 10 ** r.uniform(0, 6)
    elif mode < 0.65:
        v = [10 ** r.uniform(-12, 6) for _ in range(n)]
    else:
        v = [r.uniform(0.01, 1.0) for _ in range(n)]
    return v


# ------------------------------------------------------------------------------------------------
def run(ctx, lean_ok):
    r = ctx.rng
    _viol = ctx.violation
    ctx.violation = lambda key, what, case: _viol(key.replace(' ', '_'), what, case)   # keys: no white space (known_findings format)
    if _PREGEN is not None:
        ctx.oblige('translator:data2lean (Gen/UnitsData.lean regenerated from %s)' % common.REPO, _PREGEN[0], _PREGEN[1])
        if not _PREGEN[0]:
            lean_ok = False
    from tamoc import dbm, ambient, chemical_properties

    try:
        T = data2lean.load_tables(common.REPO)
    except data2lean.Refused as e:
        ctx.oblige('independent parse of the tables / CSV files', False, str(e))
        # failing-input search: the table itself may still be readable; the documented meaning of an entry
        # [factor, offset, unit] is value * factor + offset, whatever formula the source now applies
        try:
            T = data2lean.load_tables(common.REPO, strict=False)
        except data2lean.Refused:
            T = None
    lines = []       # driver requests
    after = []       # (index, callback(resp)) evaluated once the driver has answered

    def ask(line, cb):
        after.append((len(lines), cb))
        lines.append(line)

    bad = {'n': 0}

    def corr(name, got, want, case, tol=TOL['gen_vs_source']):
        ok = (not isinstance(got, tuple)) and close(got, want, tol)
        if not ok:
            bad['n'] += 1
            if bad['n'] <= 5:
                ctx.broken.append(('correspondence', name, 'model=%r code=%r case=%r' % (got, want, case)))
        return ok

    worst = {}

    def track(k, e):
        worst[k] = max(worst.get(k, 0.0), e)

    # ================= (1) FluidMixture: moles / masses / fractions =============================
    _orig_density = dbm.FluidParticle.density
    db_ok = True
    try:
        chem_db = chemical_properties.tamoc_data()[0]
        names = sorted(chem_db.keys())
    except Exception as e:                      # the distributed database does not load: that IS a violation of C15
        db_ok = False
        names = []
        ctx.violation('raises:tamoc_data', 'chemical_properties.tamoc_data() raised %s: %s' % (type(e).__name__, e), {'call': 'tamoc_data()'})
    # molecular weights from the INDEPENDENT parse of ChemData.csv (T['chem']), never read back from the object under test
    Mtab = {}
    if T is not None and 'M' in T['chem']['keys'] and T['chem']['units'][T['chem']['keys'].index('M')] == '(g/mol)':
        iMc = T['chem']['keys'].index('M')
        Mtab = {n_: float(v_[iMc]) / 1000. for n_, v_ in T['chem']['rows']}

    def M_of(obj, comp, what):
        got = [float(x) for x in obj.M]
        if not Mtab or any(c not in Mtab for c in comp):
            return got
        ref = [Mtab[c] for c in comp]
        if len(got) != len(ref) or not close(got, ref, 1e-14):
            ctx.violation('object-molecular-weights:' + what, '%s.M is not the molecular weight column of ChemData.csv in the order of the composition' % what,
                          {'composition': comp, 'object M': got, 'ChemData.csv M (kg/mol)': ref})
        return ref

    nmix = ctx.n(400, 20000) if db_ok else 0
    def _mix_case(k):
        nc = 1 if k < 5 else (len(names) if k == 5 else r.randint(1, 10))
        comp = r.sample(names, nc)
        fm = dbm.FluidMixture(comp)
        M = M_of(fm, comp, 'FluidMixture')
        n = rand_positive(r, nc)
        if k % 4 == 3:
            # "any positive mole vector": the conversions are scale-free — vectors scaled down to 1e-20..1e-12 mol
            sc = 10 ** r.uniform(-20, -12) / max(n)
            n = [x * sc for x in n]
            ctx.count('mixture mole vector scaled to 1e-20..1e-12 mol')
        ctx.count('mixture nc=%s' % ('1' if nc == 1 else ('2-4' if nc < 5 else '5+')))
        ctx.nontrivial.add(('mix',) + key12(M, n))
        nv = np.array(n)
        m = fm.masses(nv)
        n2 = fm.moles(m)
        mf = fm.mass_frac(nv)
        yk = fm.mol_frac(m)
        m3 = fm.masses(fm.moles(nv))       # treat n as masses: masses(moles(m)) = m
        yk2 = fm.mol_frac(mf)              # mol_frac(mass_frac(n)) = n/sum(n)
        mf2 = fm.mass_frac(fm.mol_frac(nv))  # mass_frac(mol_frac(m)) = m/sum(m)
        ctx.evaluations += 5
        case = {'composition': comp, 'n': n}
        for what, got, want in (('moles(masses(n)) != n', n2, nv), ('masses(moles(m)) != m', m3, nv),
                                ('mol_frac(masses(n)) != n/sum(n)', yk, nv / np.sum(nv)),
                                ('mol_frac(mass_frac(n)) != n/sum(n)', yk2, nv / np.sum(nv)),
                                ('mass_frac(mol_frac(m)) != m/sum(m)', mf2, nv / np.sum(nv))):
            e = max(relerr(float(a), float(b)) for a, b in zip(got, want))
            track(what.split(' ')[0], e)
            if not close([float(x) for x in got], [float(x) for x in want], TOL['gen_vs_source']):
                ctx.violation('roundtrip:' + what.split('(')[0] + ':' + what.split(' ')[0], what, dict(case, got=list(map(float, got)), want=list(map(float, want))))
        if len(mf) != nc or not abs(float(np.sum(mf)) - 1.0) <= 1e-12 or not abs(float(np.sum(yk)) - 1.0) <= 1e-12:
            ctx.violation('fractions-not-normalised', 'mass_frac / mol_frac do not sum to one', case)
        if k < 2:
            ctx.sample({'composition': comp, 'n': n, 'masses': [float(x) for x in m], 'moles(masses(n))': [float(x) for x in n2]})
        ask(req('Convert.masses', M, n), lambda o, m=m, case=case: corr('Model.Convert.masses vs FluidMixture.masses', o[0], [float(x) for x in m], case))
        ask(req('Convert.moles', M, n), lambda o, nv=nv, fm=fm, case=case: corr('Model.Convert.moles vs FluidMixture.moles', o[0], [float(x) for x in fm.moles(nv)], case))
        ask(req('Convert.mass_frac', M, n), lambda o, mf=mf, case=case: corr('Model.Convert.massFrac vs FluidMixture.mass_frac', o[0], [float(x) for x in mf], case))
        ask(req('Convert.mol_frac', M, [float(x) for x in m]), lambda o, yk=yk, case=case: corr('Model.Convert.molFrac vs FluidMixture.mol_frac', o[0], [float(x) for x in yk], case))

    for k in range(nmix):
        try:
            _mix_case(k)
        except Exception as e:      # the real code raised on a valid input
            import traceback
            tb = traceback.extract_tb(e.__traceback__)[-1]
            ctx.violation('raises:mixture:%s:%s' % (os.path.basename(tb.filename), tb.name), 'a FluidMixture conversion raised %s: %s' % (type(e).__name__, e),
                          {'case_index': k, 'site': '%s:%d' % (tb.filename, tb.lineno)})
            dbm.FluidParticle.density = _orig_density

    # ================= (2) FluidParticle: diameter <-> masses ==================================
    npart = ctx.n(300, 15000) if db_ok else 0
    skipped = 0
    rec = {}

    def recording_density(self, m, T_, P_):
        v = _orig_density(self, m, T_, P_)
        rec.setdefault('calls', []).append((np.array(m, dtype=float).copy(), float(v)))
        return v
    from tamoc import dbm_p

    def indep_density(fm, fp_type, m, T_, P_):
        """density of phase fp_type by a call that does not go through FluidParticle (dbm_p.density with the constants of a
        separately constructed FluidMixture): the oracle of the model and the phase-exists test are independent of the
        density evaluations made inside masses_by_diameter / diameter"""
        rho = dbm_p.density(T_, P_, np.asarray(m, dtype=float), fm.M, fm.Pc, fm.Tc, fm.Vc, fm.omega, fm.delta, fm.Aij, fm.Bij,
                            fm.delta_groups, fm.calc_delta, fm.C_pen, fm.C_pen_T)
        return float(rho[fp_type, 0])

    NLIGHT = 36          # targeted class in EVERY run: light gas / smallest diameters / near-surface pressure
    light_done = {'n': 0}
    min_mass = {'m': float('inf'), 'case': None}

    def _part_case(k):
        nonlocal skipped
        light = k < NLIGHT
        two_phase = (k % 10 == 9) and not light
        fp_type = 0 if light else (2 if two_phase else k % 2)
        if light:
            # hydrogen alone, hydrogen-rich mixtures (mean molar mass < ~10 g/mol), methane: the lightest particles of the range
            comp = [['hydrogen'], ['hydrogen', 'methane'], ['hydrogen', 'methane', 'nitrogen'], ['hydrogen'], ['methane'],
                    ['hydrogen', 'carbon_dioxide']][k % 6]
            nc = len(comp)
        elif two_phase:
            comp = r.choice([['methane', 'n-decane'], ['methane', 'ethane', 'n-hexane'], ['methane', 'ethane', 'n-hexane', 'n-decane'],
                             ['carbon_dioxide', 'methane', 'n-heptane']])
            nc = len(comp)
        else:
            pool = GASES if fp_type == 0 else LIQUIDS
            nc = r.randint(1, min(6, len(pool)))
            comp = r.sample(pool, nc)
            if fp_type == 1 and r.random() < 0.3:
                comp = comp + r.sample(GASES[:4], 1)     # live oil: some dissolved gas
                nc += 1
        fp = dbm.FluidParticle(comp, fp_type=fp_type)
        fm = dbm.FluidMixture(comp)
        M = M_of(fp, comp, 'FluidParticle')
        yk = np.array(rand_positive(r, nc)) if not two_phase else np.array([r.uniform(0.05, 1.) for _ in comp])
        if light and nc > 1:
            yk = np.array([r.uniform(0.6, 0.98)] + [r.uniform(0.01, 1.) for _ in range(nc - 1)])
            yk[1:] *= (1. - yk[0]) / np.sum(yk[1:])          # hydrogen-dominated
        if two_phase or r.random() < 0.8:
            yk = yk / np.sum(yk)
        Tt = r.uniform(273., 320.) if light else r.uniform(275., 320.)
        Pp = 10 ** r.uniform(5, 6) if light else 10 ** r.uniform(5, math.log10(4e7) if not two_phase else 7.3)
        if light and k % 3 == 0:
            Pp = 101325.
        if light:
            de = 1e-5 if k % 2 == 0 else 10 ** r.uniform(-5, math.log10(3e-5))
        else:
            de = r.choice([1e-5, 1e-1, 10 ** r.uniform(-5, -1), 10 ** r.uniform(-5, -1), 10 ** r.uniform(-4, -2)])
        case = {'composition': comp, 'fp_type': fp_type, 'T': Tt, 'P': Pp, 'de': de, 'yk': [float(x) for x in yk]}
        ctx.evaluations += 1
        # does the phase exist at this state?  decided WITHOUT the particle object
        m1 = yk * np.array(M)
        if not two_phase:
            rho_ind1 = indep_density(fm, fp_type, m1, Tt, Pp)
            if not (math.isfinite(rho_ind1) and rho_ind1 > 0):
                skipped += 1
                ctx.count('particle skipped (independent density not positive/finite: phase absent)')
                return
        rec.clear()
        dbm.FluidParticle.density = recording_density
        try:
            m = fp.masses_by_diameter(de, Tt, Pp, yk)
            calls1 = list(rec.get('calls', []))
            rec.clear()
            de2 = float(fp.diameter(m, Tt, Pp))
        finally:
            dbm.FluidParticle.density = _orig_density
        mt = float(np.sum(m))
        if mt < min_mass['m']:
            min_mass['m'], min_mass['case'] = mt, dict(case, total_mass=mt)
        if light:
            light_done['n'] += 1
            ctx.count('particle light / small / near-surface corner')
        ctx.count('particle fp_type=%d' % fp_type)
        ctx.count('de decade 1e%d' % int(math.floor(math.log10(de) + 1e-9)))
        ctx.nontrivial.add(('fp',) + key12(M, yk, Tt, Pp, de, fp_type))
        # two-phase particles go through the flash: round trips at the flash tolerance
        rt_tol = 1e-8 if two_phase else 1e-10
        e = relerr(de2, de)
        track('diameter(masses_by_diameter(de)) fp_type=%d' % fp_type, e)
        if not close(de2, de, rt_tol):
            ctx.violation('roundtrip:fluid-diameter', 'FluidParticle.diameter(masses_by_diameter(de)) != de', dict(case, got=de2))
        yk_back = fp.mol_frac(m)
        want = yk / np.sum(yk)
        n_ind = np.array([float(x) for x in m]) / np.array(M)          # moles from the database molecular weights, not the object's
        yk_ind = n_ind / np.sum(n_ind)
        if not close([float(x) for x in yk_ind], [float(x) for x in want], TOL['gen_vs_source']):
            ctx.violation('requested-fractions-independent', 'the masses returned by masses_by_diameter do not have the requested mole fractions '
                          '(moles computed with the molecular weights of ChemData.csv)', dict(case, got=[float(x) for x in yk_ind]))
        track('mol_frac(masses_by_diameter)', max(relerr(float(a), float(b)) for a, b in zip(yk_back, want)))
        if not close([float(x) for x in yk_back], [float(x) for x in want], TOL['gen_vs_source']):
            ctx.violation('requested-fractions', 'masses_by_diameter does not have the requested mole fractions',
                          dict(case, got=[float(x) for x in yk_back]))
        if not all(float(x) > 0 and math.isfinite(float(x)) for x in m):
            ctx.violation('masses-not-positive', 'masses_by_diameter returned a non-positive mass', dict(case, m=[float(x) for x in m]))
        # masses -> (diameter, mole fractions) -> masses
        m_back = fp.masses_by_diameter(de2, Tt, Pp, yk_back)
        track('masses_by_diameter(diameter(m), mol_frac(m)) fp_type=%d' % fp_type, max(relerr(float(a), float(b)) for a, b in zip(m_back, m)))
        if not close([float(x) for x in m_back], [float(x) for x in m], 1e-7 if two_phase else 1e-9):
            ctx.violation('roundtrip:fluid-masses', 'masses_by_diameter(diameter(m), mol_frac(m)) != m', dict(case, m=[float(x) for x in m], got=[float(x) for x in m_back]))
        if k < 2:
            ctx.sample(dict(case, masses=[float(x) for x in m], diameter_back=de2))
        if two_phase:
            return        # the two-phase density (flash + volume average) has no independent oracle here: predicates only
        # the model is fed with the INDEPENDENT density of its own question (m1 = yk*M), resp. of the returned masses
        rho_ind2 = indep_density(fm, fp_type, m, Tt, Pp)
        track('density(m)/density(one mole) (independent)', relerr(rho_ind1, rho_ind2))
        arg1 = [float(x) for x in calls1[0][0]] if calls1 else []

        def cb(o, m=m, arg1=arg1, m1=m1, case=case):
            corr('Model.Convert.massesByDiameter (independent density) vs FluidParticle.masses_by_diameter', o[0], [float(x) for x in m], case, tol=1e-10)
            corr('Model.Convert.massesByDiameter density question vs argument recorded at FluidParticle.density', o[1], arg1, case)
            corr('Model.Convert.massesByDiameter density question vs yk*M', o[1], [float(x) for x in m1], case)
        ask(req('Convert.masses_by_diameter', M, de, [float(x) for x in yk], rho_ind1), cb)
        ask(req('Convert.diameter', [float(x) for x in m], rho_ind2),
            lambda o, de2=de2, case=case: corr('Model.Convert.diameter (independent density) vs FluidParticle.diameter', o[0], de2, case, tol=1e-10))

    for k in range(npart):
        try:
            _part_case(k)
        except Exception as e:      # the real code raised on a valid input
            import traceback
            tb = traceback.extract_tb(e.__traceback__)[-1]
            ctx.violation('raises:particle:%s:%s' % (os.path.basename(tb.filename), tb.name), 'a FluidParticle conversion raised %s: %s' % (type(e).__name__, e),
                          {'case_index': k, 'site': '%s:%d' % (tb.filename, tb.lineno)})
            dbm.FluidParticle.density = _orig_density

    if db_ok:
        ctx.oblige('floor: >= 20 diameter round trips at the light-gas / 1e-5..3e-5 m / 1e5..1e6 Pa corner (%d done)' % light_done['n'],
                   light_done['n'] >= 20, 'only %d' % light_done['n'])
        ctx.oblige('floor: the round-trip cases reach a total particle mass <= 1e-16 kg (smallest: %.3g kg) — the conversions are scale-free, '
                   'absolute thresholds must be exercised' % min_mass['m'], min_mass['m'] <= 1e-16, repr(min_mass['case']))
        ctx.notes.append('smallest total particle mass among the diameter round trips: %.3g kg (%r)' % (min_mass['m'], min_mass['case']))

    # ================= (3) InsolubleParticle ==================================================
    nins = ctx.n(200, 10000)
    def _ins_case(k):
        compressible = r.random() < 0.5
        ip = dbm.InsolubleParticle(r.random() < 0.7, compressible, rho_p=r.uniform(500., 2650.), gamma=r.uniform(10., 50.),
                                   beta=r.uniform(0.0003, 0.001), co=10 ** r.uniform(-10, -8.5))
        Tt, Pp, Sa, Ta = r.uniform(275., 320.), 10 ** r.uniform(5, math.log10(4e7)), r.uniform(0., 40.), r.uniform(273.15, 303.15)
        de = r.choice([1e-5, 1e-1, 10 ** r.uniform(-5, -1), 10 ** r.uniform(-5, -1)])
        rho = float(ip.density(Tt, Pp, Sa, Ta))
        m = float(ip.mass_by_diameter(de, Tt, Pp, Sa, Ta))
        de2 = float(ip.diameter(m, Tt, Pp, Sa, Ta))
        m2 = float(ip.mass_by_diameter(de2, Tt, Pp, Sa, Ta))
        ctx.evaluations += 1
        ctx.count('inert compressible=%s' % compressible)
        ctx.nontrivial.add(('ins',) + key12(rho, de))
        case = {'compressible': compressible, 'rho_p': ip.rho_p, 'gamma': ip.gamma, 'beta': ip.beta, 'co': ip.co, 'T': Tt, 'P': Pp,
                'Sa': Sa, 'Ta': Ta, 'de': de}
        track('inert diameter(mass_by_diameter(de))', relerr(de2, de))
        if not (rho > 0 and close(de2, de, TOL['gen_vs_source'])):
            ctx.violation('roundtrip:inert-diameter', 'InsolubleParticle.diameter(mass_by_diameter(de)) != de', dict(case, got=de2, rho=rho))
        if not close(m2, m, TOL['gen_vs_source']):
            ctx.violation('roundtrip:inert-mass', 'InsolubleParticle.mass_by_diameter(diameter(m)) != m', dict(case, m=m, got=m2))
        ask(req('Convert.mass_by_diameter', rho, de), lambda o, m=m, case=case: corr('Model.Convert.massByDiameter vs InsolubleParticle.mass_by_diameter', o[0], m, case))
        ask(req('Convert.diameter_insol', rho, m), lambda o, de2=de2, case=case: corr('Model.Convert.diameterInsol vs InsolubleParticle.diameter', o[0], de2, case))

    for k in range(nins):
        try:
            _ins_case(k)
        except Exception as e:      # the real code raised on a valid input
            import traceback
            tb = traceback.extract_tb(e.__traceback__)[-1]
            ctx.violation('raises:inert:%s:%s' % (os.path.basename(tb.filename), tb.name), 'an InsolubleParticle conversion raised %s: %s' % (type(e).__name__, e),
                          {'case_index': k, 'site': '%s:%d' % (tb.filename, tb.lineno)})
            dbm.FluidParticle.density = _orig_density

    # ================= (4) ambient.convert_units: every unit string x shapes ====================
    if T is not None:
        amb = T['ambient']
        units_all = [u for u, _f, _o, _s in amb]
        std_units = sorted(set(s for _u, _f, _o, s in amb))
        ask(req('Convert.table_sizes'), lambda o: ctx.oblige(
            'Lean tables are the tables of the current source (sizes)',
            o == [len(amb), len(T['chem_rules']), len(T['chem']['rows']), len(T['bio']['rows']), len(T['pj']['rows'])], repr(o)))
        for i, u in enumerate(units_all):
            ask(req('Convert.ambient_key', i), lambda o, u=u, i=i: ctx.oblige('Lean ambient table key %d is %r' % (i, u), uncodes(o[0]) == u, repr(o)) if uncodes(o[0]) != u else None)
        std_of = {}
        one_unit_2d = {}

        def shape_cases(u):
            """(label, python input, units argument, rows after atleast_2d, units list)"""
            vals = [r.uniform(-50., 5000.) for _ in range(12)]
            out = []
            out.append(('float', vals[0], u, [[vals[0]]], [u]))
            iv = r.randint(-40, 4000)
            out.append(('int', iv, u, [[float(iv)]], [u]))
            out.append(('list-of-1', [vals[1]], [u], [[vals[1]]], [u]))
            k = r.randint(2, 9)
            out.append(('row-1unit', np.array(vals[:k]), u, [vals[:k]], [u]))
            out.append(('row-1unit-list', list(vals[:k]), [u], [vals[:k]], [u]))
            col = np.array(vals[:k]).reshape(k, 1)
            out.append(('column', col, [u], [[v] for v in vals[:k]], [u]))
            out.append(('row-2d-1unit', np.array(vals[:k]).reshape(1, k), [u], [vals[:k]], [u]))
            # a row / 2-D array with one unit per column, this unit somewhere among randomly chosen others
            ncol = r.randint(2, 6)
            us = [r.choice(units_all) for _ in range(ncol)]
            us[r.randrange(ncol)] = u
            row = [r.uniform(-50., 5000.) for _ in range(ncol)]
            out.append(('row-units', np.array(row), us, [row], us))
            nrow = r.randint(2, 5)
            mat = [[r.uniform(-50., 5000.) for _ in range(ncol)] for _ in range(nrow)]
            out.append(('2d', np.array(mat), us, mat, us))
            out.append(('2d-list', [list(x) for x in mat], us, mat, us))
            # a 2-D array whose values ALL carry the same single unit ("2-D inputs" of the quantifier with one unit string)
            nr1, nc1 = r.randint(2, 4), r.randint(2, 4)
            mat1 = [[r.uniform(1., 5000.) for _ in range(nc1)] for _ in range(nr1)]
            out.append(('2d-1unit', np.array(mat1), u, mat1, [u]))
            out.append(('2d-1unit-list', np.array(mat1), [u], mat1, [u]))
            # fewer unit strings than columns (outside the documented contract: compared with the model, columns that do
            # have a unit are checked, what happens to the others is only counted)
            if ncol >= 3:
                out.append(('fewer-units', np.array(mat), us[:ncol - 1], mat, us[:ncol - 1]))
            return out

        reps = ctx.n(1, 20)
        for u in units_all + [s for s in std_units if s not in units_all]:
            for _rep in range(reps):
                for label, data, uarg, rows, ulist in shape_cases(u):
                    in_copy = np.array(data, dtype=float).copy()
                    try:
                        (res, ures), _txt = quiet(ambient.convert_units, data, uarg)
                    except Exception as e:
                        ctx.violation('raises:ambient.convert_units:' + label, 'ambient.convert_units raised %s: %s' % (type(e).__name__, e),
                                      {'unit': u, 'shape': label, 'data': np.asarray(data, dtype=float).tolist(), 'units': uarg})
                        continue
                    ctx.evaluations += 1
                    ctx.count('ambient shape %s' % label)
                    ctx.nontrivial.add(('amb', label, u) + key12([x for rw in rows for x in rw]))
                    case = {'unit': u, 'shape': label, 'data': np.asarray(data, dtype=float).tolist(), 'units': uarg}
                    want_shape = np.asarray(data).shape if not isinstance(data, (int, float)) else (1,)
                    if tuple(np.shape(res)) != tuple(want_shape):
                        ctx.violation('ambient-shape:' + label, 'convert_units changed the shape of the data', dict(case, got_shape=list(np.shape(res))))
                        continue
                    flat = [float(x) for x in np.asarray(res).ravel()]
                    nr, ncl = len(rows), len(rows[0])
                    flat_in = [x for rw in rows for x in rw]
                    # per-element unit: column j of the (un-transposed) input carries ulist[j] (or the single unit)
                    el_units = [(ulist[0] if len(ulist) == 1 else (ulist[j] if j < len(ulist) else None)) for _i in range(nr) for j in range(ncl)]

                    def cb(o, flat=flat, case=case):
                        corr('Model.Convert.convertUnits vs ambient.convert_units', o[0], flat, case)
                    ask(req('Convert.ambient_array', nr, ncl, flat_in, *[codes(x) for x in ulist]), cb)
                    # the documented factor of every element (property predicate; Std table through the driver)
                    if label.startswith('2d-1unit'):
                        one_unit_2d.setdefault(u, []).append((flat_in, flat, case))
                    elif label == 'fewer-units':
                        for i_ in range(nr):
                            for j_ in range(ncl):
                                if j_ < len(ulist):
                                    std_of.setdefault(ulist[j_], []).append((flat_in[i_ * ncl + j_], flat[i_ * ncl + j_], case))
                                elif flat[i_ * ncl + j_] != flat_in[i_ * ncl + j_]:
                                    ctx.count('fewer unit strings than columns: a column without unit is not returned unchanged (zeroed) — outside the documented contract, counted only')
                    else:
                        for x, y, eu in zip(flat_in, flat, el_units):
                            std_of.setdefault(eu, []).append((x, y, case))
                    # returned unit labels
                    exp_units = None
                    if isinstance(ures, list):
                        exp_units = ures
                    case['units_out'] = exp_units

                    def cbl(o, exp_units=exp_units, case=case):
                        if uncodes(o[0]) != '\n'.join(exp_units or []):
                            corr('Model.Convert.outUnits vs the unit list returned by ambient.convert_units', float('nan'), 0.0, dict(case, model=uncodes(o[0]).split('\n')))
                    ask(req('Convert.ambient_labels', *[codes(x) for x in ulist]), cbl)
                    std_of.setdefault(('label', tuple(ulist)), []).append((exp_units, case))
                    if not np.array_equal(np.array(data, dtype=float), in_copy):
                        ctx.violation('ambient-mutates-input', 'convert_units modified its input array', case)

        def check_std(u, items):
            def cb(o):
                if o == [0]:
                    # not a documented unit: the data must come back unchanged (standard units outside the key set)
                    for x, y, case in items:
                        if not (x == y):
                            ctx.violation('ambient-unknown-unit-changed:' + u, 'value with an unrecognised unit string was changed', dict(case, x=x, y=y))
                    return
                f, off, _out, tol = o[0], o[1], uncodes(o[2]), o[3]
                for x, y, case in items:
                    want = x * f + off
                    lim = (tol + 1e-12) * (abs(x * f) + abs(off)) + 1e-300
                    if not abs(y - want) <= lim:
                        ctx.violation('ambient-factor:' + u, 'convert_units does not apply the documented factor/offset of unit %r' % u,
                                      dict(case, x=x, got=y, documented=want, factor=f, offset=off))
            ask(req('Convert.ambient_std', codes(u)), cb)

        def check_2d_one_unit(u, items):
            def cb(o):
                for flat_in, flat, case in items:
                    if o == [0]:
                        want = list(flat_in)
                        lim = [0.0] * len(want)
                    else:
                        f, off, tol = o[0], o[1], o[3]
                        want = [x * f + off for x in flat_in]
                        lim = [(tol + 1e-12) * (abs(x * f) + abs(off)) + 1e-300 for x in flat_in]
                    badpos = [i_ for i_, (y, w, l) in enumerate(zip(flat, want, lim)) if not abs(y - w) <= l]
                    if badpos:
                        if any(flat[i_] == 0.0 for i_ in badpos):
                            ctx.violation('convert-units-2d-one-unit-zeroes', 'convert_units on a 2-D array with ONE unit string converts one row (transposed into the '
                                          'first column) and returns zeros elsewhere', dict(case, got=flat, documented=want))
                        else:
                            ctx.violation('ambient-factor-2d-one-unit:' + u, 'convert_units does not convert every value of a 2-D array with one unit string', dict(case, got=flat, documented=want))
            ask(req('Convert.ambient_std', codes(u)), cb)
        for u2, items in one_unit_2d.items():
            check_2d_one_unit(u2, items)

        label_items = []
        for kx, items in list(std_of.items()):
            if isinstance(kx, tuple):
                label_items.append((kx[1], items))
            else:
                check_std(kx, items)
        std_out = {}

        def want_label(u):
            return std_out.get(u)
        for u in units_all + [s for s in std_units if s not in units_all]:
            def cb(o, u=u):
                std_out[u] = None if o == [0] else uncodes(o[2])
            ask(req('Convert.ambient_std', codes(u)), cb)

        def labels_check(_o):
            for ulist, items in label_items:
                for got, case in items:
                    want = [std_out.get(u) for u in ulist]
                    if any(w is None for w in want):
                        # a unit string the table does not know (the table's own standard unit kg/m^2/s): the values are checked
                        # above (unchanged); the label of a value already in a standard unit must come back unchanged as well
                        exp = [w if w is not None else u for w, u in zip(want, ulist)]
                        if got != exp:
                            split = []
                            for w, u in zip(want, ulist):
                                split += [w] if w is not None else list(u)
                            if got == split:
                                # the VALUES are returned unchanged, which is what the property demands; the garbled label is an
                                # observation (DESIGN §9.7)
                                ctx.count('observation:convert-units-label-split')
                            else:
                                ctx.violation('ambient-unit-label', 'convert_units does not return the unit label of a standard unit unchanged', dict(case, want=exp))
                        continue
                    if got != want:
                        ctx.violation('ambient-unit-label', 'convert_units does not report the documented standard unit', dict(case, want=want))
        ask(req('Convert.table_sizes'), labels_check)

        # xarray front end (ambient.xr_convert_units)
        try:
            import xarray as xr
            nx = 0
            for u in units_all:
                z = np.linspace(0., 1000., 7)
                v = np.array([r.uniform(-50., 5000.) for _ in z])
                zu = r.choice(['m', 'meter', 'um'])
                ds = xr.Dataset({'var': (('z',), v.copy(), {'units': u})}, coords={'z': ('z', z.copy(), {'units': zu})})
                try:
                    _res, _txt = quiet(ambient.xr_convert_units, ds, 'z')
                except Exception as e:
                    ctx.violation('raises:ambient.xr_convert_units', 'ambient.xr_convert_units raised %s: %s' % (type(e).__name__, e),
                                  {'unit': u, 'z_unit': zu, 'data': v.tolist()})
                    continue
                nx += 1
                ctx.evaluations += 1
                std_items = [(float(a), float(b), {'unit': u, 'shape': 'xarray variable', 'data': v.tolist()}) for a, b in zip(v, ds['var'].values)]
                check_std(u, std_items)
                check_std(zu, [(float(a), float(b), {'unit': zu, 'shape': 'xarray coordinate', 'data': z.tolist()}) for a, b in zip(z, ds.coords['z'].values)])

                def cbx(o, ds=ds, u=u):
                    if o != [0] and ds['var'].attrs.get('units') != uncodes(o[2]):
                        ctx.violation('xarray-unit-label', 'xr_convert_units does not store the documented standard unit',
                                      {'unit': u, 'stored': ds['var'].attrs.get('units'), 'documented': uncodes(o[2])})
                ask(req('Convert.ambient_std', codes(u)), cbx)
            ctx.count('ambient xarray datasets', nx)
        except ImportError:
            ctx.notes.append('xarray not importable: xr_convert_units not exercised')

    # ================= (5) chemical_properties.convert_units: every unit block =================
    if T is not None:
        rules = T['chem_rules']
        for i, rule in enumerate(rules):
            def cbp(o, rule=rule, i=i):
                ok = uncodes(o[0]) == rule['pat'] and bool(o[1]) == (rule['alt'] is not None) and uncodes(o[2]) == (rule['alt'] or '')
                if not ok:
                    ctx.oblige('Lean chem rule %d is the block of the current source' % i, False, repr(o))
            ask(req('Convert.chem_pattern', i), cbp)
        variants = []
        for rule in rules:
            variants.append((rule, rule['pat'], 'pattern'))
            if rule['alt'] is not None:
                variants.append((rule, rule['alt'], 'alternative'))
            variants.append((rule, 'value ' + rule['pat'] + ' %', 'embedded'))
        nrep = ctx.n(3, 200)
        for rule, ustr, kind in variants:
            for _k in range(nrep):
                x = r.choice([r.uniform(-500., 5000.), 10 ** r.uniform(-9, 6), -9999.0, 0.0, 1.0])
                Mv = r.uniform(0.002, 0.3)
                data = {'c1': {'M': np.float64(Mv), 'X': np.float64(x)}, 'c2': {'M': np.float64(2 * Mv), 'X': np.float64(-x)}}
                try:
                    (res, ures) = chemical_properties.convert_units(data, ['M', 'X', ''], ['(kg/mol)', ustr, '%'])
                except Exception as e:
                    ctx.violation('raises:chemical_properties.convert_units:' + rule['pat'], 'chemical_properties.convert_units raised %s: %s' % (type(e).__name__, e),
                                  {'unit': ustr, 'x': x, 'M': Mv})
                    continue
                ctx.evaluations += 1
                ctx.count('chem unit %s' % kind)
                ctx.nontrivial.add(('chem', ustr) + key12(x, Mv))
                for cname, xx, mm in (('c1', x, Mv), ('c2', -x, 2 * Mv)):
                    y = float(res[cname]['X'])
                    case = {'unit': ustr, 'x': xx, 'M': mm, 'got': y, 'unit_out': ures.get('X')}

                    def cb1(o, y=y, case=case, ures=ures):
                        corr('Model.Convert.chemConvert (Gen.chemRules) vs chemical_properties.convert_units', o[0], y, case)
                        if uncodes(o[1]) != ures.get('X'):
                            corr('Model.Convert.chemOutUnit vs chemical_properties.convert_units (unit label)', float('nan'), 0.0, case)
                    ask(req('Convert.chem', codes(ustr), xx, mm), cb1)

                    def cb2(o, y=y, case=case, rule=rule, ures=ures):
                        if o == [0]:
                            ctx.violation('chem-unit-undocumented:' + rule['pat'], 'unit block without a documented factor', case)
                            return
                        want, out = o[0], uncodes(o[1])
                        # documented accuracy of a rounded constant: 5e-6 (BTU), 1e-6 (psi, cal); exact otherwise (checked in Lean)
                        if not close(y, want, 6e-6):
                            ctx.violation('chem-unit-factor:' + rule['pat'],
                                          'chemical_properties.convert_units does not convert %s by the documented factor' % rule['pat'],
                                          dict(case, documented=want, documented_unit=out))
                        elif ures.get('X') != out:
                            ctx.violation('chem-unit-label:' + rule['pat'], 'chemical_properties.convert_units reports a different SI unit', dict(case, documented_unit=out))
                    ask(req('Convert.chem_std', codes(ustr), xx, mm), cb2)
                if float(res['c1']['M']) != Mv or ures.get('M') != '(kg/mol)':
                    ctx.violation('chem-standard-unit-changed', 'a value already in (kg/mol) was changed', {'unit': ustr, 'M': Mv, 'got': float(res['c1']['M'])})
        # values already in SI units come back unchanged
        si_units = sorted(set(rule['out'] for rule in rules)) + ['(--)', '(K)', '(m^3/mol)', '(J/mol)']
        for su in si_units:
            x = r.uniform(-500., 5000.)
            data = {'c1': {'M': np.float64(0.016), 'X': np.float64(x)}}
            res, ures = chemical_properties.convert_units(data, ['M', 'X', ''], ['(kg/mol)', su, '%'])
            ctx.evaluations += 1
            ctx.count('chem SI unit unchanged')
            if float(res['c1']['X']) != x or ures.get('X') != su:
                ctx.violation('chem-standard-unit-changed:' + su, 'a value already in the SI unit %s was changed' % su,
                              {'unit': su, 'x': x, 'got': float(res['c1']['X']), 'unit_out': ures.get('X')})

    # ================= (6) tamoc_data() vs the independent parse, exhaustively =================
    if T is not None and db_ok:
        td = chemical_properties.tamoc_data()
        for tag, db, du in (('chem', td[0], td[1]), ('bio', td[2], td[3]), ('pj', td[4], td[5])):
            tab = T[tag]
            keys, units = tab['keys'], tab['units']
            mine = [n for n, _v in tab['rows']]
            if sorted(db.keys()) != sorted(mine) or len(set(mine)) != len(mine):
                ctx.violation('database-compounds:' + tag, 'tamoc_data() does not return the compounds of the file',
                              {'file': tag, 'missing': sorted(set(mine) - set(db.keys())), 'extra': sorted(set(db.keys()) - set(mine))})
            iM = keys.index('M') if 'M' in keys else None
            for name, vals in tab['rows']:
                if name not in db:
                    continue
                row = db[name]
                ctx.evaluations += 1
                ctx.count('database row %s' % tag)
                ctx.nontrivial.add(('db', tag, name))
                if sorted(row.keys()) != sorted(keys):
                    ctx.violation('database-columns:' + tag, 'a compound does not have every column of the file',
                                  {'file': tag, 'compound': name, 'missing': sorted(set(keys) - set(row.keys())), 'extra': sorted(set(row.keys()) - set(keys))})
                    continue
                raw = [float(v) for v in vals]      # Fraction -> nearest double, as float(text) does
                real = [float(row[k]) for k in keys]

                def cbr(o, real=real, name=name, tag=tag, keys=keys, raw=raw):
                    got = o[0] if not isinstance(o, tuple) else None
                    if got is None or len(got) != len(real):
                        corr('Model.Convert.chemConvertRow vs tamoc_data()', float('nan'), 0.0, {'file': tag, 'compound': name})
                        return
                    for kk, g, w, rw in zip(keys, got, real, raw):
                        if not close(g, w, TOL['gen_vs_source']):
                            corr('Model.Convert.chemConvertRow vs tamoc_data()', g, w, {'file': tag, 'compound': name, 'column': kk, 'raw': rw})
                ask(req('Convert.chem_row', tag, raw), cbr)
                # documented conversion of every column (property predicate on the real output)
                Msi = None
                if iM is not None:
                    Msi = float(row['M'])
                for kk, uu, rw, val in zip(keys, units, raw, real):
                    case = {'file': tag, 'compound': name, 'column': kk, 'unit': uu, 'raw': rw, 'tamoc_data': val, 'unit_out': du.get(kk)}

                    def cbs(o, case=case, rw=rw, val=val, uu=uu, kk=kk, du=du):
                        if o == [0]:
                            # no documented conversion for this unit string: standard unit, unchanged
                            if val != rw or du.get(kk) != uu:
                                ctx.violation('database-standard-unit-changed:' + uu, 'a database value in a standard unit was changed', case)
                            return
                        if not close(val, o[0], 6e-6):
                            ctx.violation('database-value:%s.%s' % (case['file'], kk), 'tamoc_data() differs from the documented conversion of the file value',
                                          dict(case, documented=o[0]))
                        elif du.get(kk) != uncodes(o[1]):
                            ctx.violation('database-unit:%s.%s' % (case['file'], kk), 'tamoc_data() reports a different unit', dict(case, documented_unit=uncodes(o[1])))
                    ask(req('Convert.chem_std', codes(uu), rw, Msi if Msi is not None else 1.0), cbs)
                if tag == 'chem':
                    for kk in ('M', 'Pc', 'Tc', 'Vc'):
                        v = float(row.get(kk, float('nan')))
                        if not (math.isfinite(v) and v > 0):
                            ctx.violation('database-not-positive:%s.%s' % (name, kk), 'critical constant / molecular weight not positive',
                                          {'compound': name, 'column': kk, 'value': v})
        ctx.sample({'compound': 'methane', 'tamoc_data': {k: float(v) for k, v in td[0]['methane'].items() if k in ('M', 'Pc', 'Tc', 'Vc')}})

    # ================= (7) histories: files re-read after a change; returned dictionaries tuned by the caller ==========
    if T is not None:
        import tempfile
        import shutil
        rules = T['chem_rules']
        pats = [rule['pat'] for rule in rules if not rule['usesM'] and rule['pat'] not in ('(g/mol)',)]
        hdir = tempfile.mkdtemp(prefix='c15hist_')
        nh = ctx.n(6, 60)

        def write_user(path, units, rows):
            with open(path, 'w') as f:
                f.write('Compound,M,A,B,C,%\n')
                f.write(',%s,%%\n' % ','.join(units))
                f.write(',,,,,%\n')
                for name, vals in rows:
                    f.write('%s,%s,\n' % (name, ','.join(repr(v) for v in vals)))

        def judge(stage, path, units, rows, res, case):
            """the result of load_data against the model's conversion (regenerated chain, through the driver) of the file AS IT IS NOW"""
            data, du = res
            names = [n for n, _v in rows]
            if sorted(data.keys()) != sorted(names):
                ctx.violation('history:load_data-stale-after-rewrite:compounds', 'load_data of a re-written file does not return the compounds of the file as it is now',
                              dict(case, stage=stage, in_file=names, returned=sorted(data.keys())))
            for name, vals in rows:
                if name not in data:
                    continue
                Msi = vals[0] / 1000.                      # M is given in (g/mol)
                for kk, uu, rw in zip(['M', 'A', 'B', 'C'], units, vals):
                    got = float(data[name].get(kk, float('nan')))

                    def cbh(o, got=got, kk=kk, uu=uu, rw=rw, name=name, du=du):
                        if not close(got, o[0], TOL['gen_vs_source']) or du.get(kk) != uncodes(o[1]):
                            ctx.violation('history:load_data-stale-after-rewrite:value' if stage == 'second load' else 'user-file-value',
                                          'load_data (%s) does not return the conversion of the value that is in the file now' % stage,
                                          dict(case, stage=stage, compound=name, column=kk, unit_in_file=uu, raw_in_file=rw, returned=got,
                                               returned_unit=du.get(kk), model=o[0], model_unit=uncodes(o[1])))
                    ask(req('Convert.chem', codes(uu), rw, Msi), cbh)

        try:
            for ih in range(nh):
                path = os.path.join(hdir, 'user_%d.csv' % ih)
                names_h = ['cmp_a', 'cmp_b', 'cmp_c'][:r.randint(1, 3)]
                u1 = ['(g/mol)'] + [r.choice(pats) for _ in range(3)]
                rows1 = [(nm, [r.uniform(2., 300.)] + [r.choice([r.uniform(-400., 4000.), 10 ** r.uniform(-6, 4)]) for _ in range(3)]) for nm in names_h]
                case = {'file': path, 'units_first': u1, 'rows_first': rows1}
                ctx.evaluations += 1
                ctx.count('history: user file loaded, re-written at the same path, loaded again')
                ctx.nontrivial.add(('hist', ih) + key12([v for _n, vs in rows1 for v in vs]))
                try:
                    write_user(path, u1, rows1)
                    res1 = chemical_properties.load_data(path)
                    judge('first load', path, u1, rows1, res1, case)
                    # the SAME path re-written: other recognised units, a changed value, an added row
                    u2 = list(u1)
                    j = r.randint(1, 3)
                    u2[j] = r.choice([q for q in pats if q != u1[j]])
                    rows2 = [(nm, list(vs)) for nm, vs in rows1]
                    rows2[0][1][r.randint(0, 3)] *= r.choice([0.5, 2.0, 1.25])
                    if r.random() < 0.7:
                        rows2.append(('cmp_new', [r.uniform(2., 300.)] + [r.uniform(-400., 4000.) for _ in range(3)]))
                    write_user(path, u2, rows2)
                    res2 = chemical_properties.load_data(path)
                    judge('second load', path, u2, rows2, res2, dict(case, units_second=u2, rows_second=rows2))
                except Exception as e:
                    ctx.violation('raises:load_data-history', 'load_data raised %s: %s on a generated user file' % (type(e).__name__, e), case)
        finally:
            shutil.rmtree(hdir, True)

    if T is not None and db_ok:
        # the caller tunes a value of the dictionary tamoc_data() returned (the usual way to build user_data): the distributed
        # database — validated against the model tables in (6) — must be unchanged for every later tamoc_data() and FluidMixture
        nm_h = ctx.n(4, 40)
        cols = ['M', 'Pc', 'Tc', 'Vc', 'omega']
        for ih in range(nm_h):
            try:
                before = chemical_properties.tamoc_data()
                snap = {n_: {k_: float(v_) for k_, v_ in row.items()} for n_, row in before[0].items()}
                bsnap = {n_: {k_: float(v_) for k_, v_ in row.items()} for n_, row in before[2].items()}
                name = r.choice(sorted(snap.keys()))
                col = r.choice(cols)
                fac = r.choice([0.5, 1.5, 3.0])
                orig_obj = before[0][name][col]
                before[0][name][col] = orig_obj * fac            # the caller's tuning
                bname = r.choice(sorted(bsnap.keys()))
                borig = before[2][bname]['k_bio']
                before[2][bname]['k_bio'] = borig + 1.0
                ctx.evaluations += 1
                ctx.count('history: entry of the dictionary returned by tamoc_data() tuned, database read again')
                ctx.nontrivial.add(('hist-db', name, col, fac))
                case = {'tuned': {'compound': name, 'column': col, 'factor': fac}, 'tuned_bio': {'compound': bname, 'column': 'k_bio', 'added': 1.0}}
                try:
                    after_ = chemical_properties.tamoc_data()
                    changed = [(n_, k_, snap[n_][k_], float(after_[0][n_][k_])) for n_ in snap for k_ in snap[n_]
                               if n_ in after_[0] and k_ in after_[0][n_] and not (float(after_[0][n_][k_]) == snap[n_][k_])]
                    changed += [(n_, k_, bsnap[n_][k_], float(after_[2][n_][k_])) for n_ in bsnap for k_ in bsnap[n_]
                                if n_ in after_[2] and k_ in after_[2][n_] and not (float(after_[2][n_][k_]) == bsnap[n_][k_])]
                    if changed or sorted(after_[0].keys()) != sorted(snap.keys()):
                        ctx.violation('history:tamoc_data-returns-tuned-database', 'after the caller changed an entry of the dictionary returned by tamoc_data(), '
                                      'a later tamoc_data() no longer returns the values of the distributed files', dict(case, changed=changed[:4]))
                    fm = dbm.FluidMixture([name])
                    got = float(getattr(fm, col)[0])
                    if not got == snap[name][col]:
                        ctx.violation('history:FluidMixture-uses-tuned-database', 'a FluidMixture built after the caller tuned a returned dictionary does not carry '
                                      'the value of the distributed database', dict(case, attribute=col, got=got, database=snap[name][col]))
                finally:
                    # leave no trace for the rest of the run, whatever the implementation does with the object
                    before[0][name][col] = orig_obj
                    before[2][bname]['k_bio'] = borig
            except Exception as e:
                ctx.violation('raises:tamoc_data-history', 'tamoc_data() / FluidMixture raised %s: %s' % (type(e).__name__, e), {'history': ih})

    # ================= driver ==================================================================
    # the driver needs Model.Convert + Gen.UnitsData only: when a THEOREM of Props/C15 no longer checks (lean_ok False)
    # the model usually still runs, and the documented-factor predicates below find the failing input on the real code
    out = run_driver(ctx, 'C15', lines)
    if out is not None:
        for idx, cb in after:
            o = out[idx]
            if isinstance(o, tuple):
                bad['n'] += 1
                if bad['n'] <= 5:
                    ctx.broken.append(('correspondence', 'driver answered ERR', '%s -> %s' % (lines[idx][:120], o[1])))
                continue
            cb(o)
        ctx.oblige('correspondence Model.Convert.* / Gen.UnitsData.* == dbm / ambient / chemical_properties on %d driver requests (rel %g)'
                   % (len(lines), TOL['gen_vs_source']), bad['n'] == 0, '%d disagreements' % bad['n'])
    else:
        ctx.notes.append('Lean model unavailable: documented-factor predicates that need the Std table were not evaluated')
    ctx.notes.append('worst relative differences on the real code: %r' % {k: float('%.3g' % v) for k, v in worst.items()})
    ctx.notes.append('fluid-particle cases skipped because the requested phase density was not positive/finite: %d' % skipped)
