"""
Shared machinery of every check (DESIGN §2.4/2.5): translator run, Lean build under a
lock, axiom/source audit, line-protocol driver, tolerance policy, known findings,
replay + evidence writers.  Runs under /venv/bin/python with PYTHONPATH=/repo (the real
code is called in-process); stdlib + numpy only.
"""
import os
import re
import sys
import json
import time
import struct
import random
import fcntl
import shutil
import subprocess

VERIF = os.path.dirname(os.path.dirname(os.path.abspath(__file__)))
REPO = os.environ.get('TAMOC_REPO', '/repo')
LEAN = os.path.join(VERIF, 'lean')
EVID = os.path.join(VERIF, 'evidence')
REPLAYS = os.path.join(VERIF, 'replays')
ALLOWED_AXIOMS = {'propext', 'Classical.choice', 'Quot.sound'}

# ---- tolerance policy (DESIGN §6) — the only place floats are compared -------
TOL = {
    'gen_vs_source': 1e-11,      # generated / hand model of pure arithmetic vs. its source
    'identity': 1e-10,           # identities evaluated on real outputs, relative to Σ|terms|
    'py_vs_fortran': 1e-10,
    'flash_fugacity': 2e-4,
    'rr_beta': 1e-8,
    'conservation_drift': 1e-6,
    'abs_floor': 1e-300,
}

TRUSTED_BASE = [
    'Lean 4.33 kernel; axioms allowed: propext, Classical.choice, Quot.sound (audited per theorem on every run); no native_decide, bv_decide, sorry, own axioms',
    'Mathlib v4.33 definitions of Real, Real.exp/log/sqrt/rpow, Finset.sum',
    'translators translate/{ir,py2ir,py2ir2,f2ir,data2lean,lint,gen}.py (validated each run: generated definitions executed at Float against the functions they were generated from; constructs they cannot model are refused, not approximated)',
    'statement pins harness/theorems/Cxx.txt (hash of each property theorem\'s type + reference to TamocV.Gen.*) computed by #audit_ns',
    'correspondence harness, generators and tolerance policy (harness/*.py, DESIGN §6)',
    'real-number semantics as stand-in for IEEE-754 double arithmetic and libm',
]


def hexf(x):
    return struct.pack('>d', float(x)).hex()


def unhex(s):
    return struct.unpack('>d', bytes.fromhex(s))[0]


def enc(a):
    import numpy as np
    if isinstance(a, str):
        return 't:' + a
    if isinstance(a, (bool, np.bool_)):
        return 'n:%d' % int(a)
    if isinstance(a, (int, np.integer)) and not isinstance(a, bool):
        return 'n:%d' % int(a)
    if isinstance(a, (list, tuple, np.ndarray)):
        return 'v:' + ','.join(hexf(x) for x in np.asarray(a, dtype=float).ravel())
    return hexf(a)


def dec(tok):
    if tok.startswith('v:'):
        b = tok[2:]
        return [unhex(x) for x in b.split(',')] if b else []
    if tok.startswith('n:'):
        return int(tok[2:])
    if tok.startswith('t:'):
        return tok[2:]
    return unhex(tok)


def req(name, *args):
    return name + ' ' + ' '.join(enc(a) for a in args)


def close(a, b, rel, abs_floor=1e-300):
    """relative comparison used everywhere; nan == nan, inf == inf of same sign"""
    import math
    if isinstance(a, (list, tuple)) or isinstance(b, (list, tuple)):
        a, b = list(a), list(b)
        return len(a) == len(b) and all(close(x, y, rel, abs_floor) for x, y in zip(a, b))
    if math.isnan(a) or math.isnan(b):
        return math.isnan(a) and math.isnan(b)
    if math.isinf(a) or math.isinf(b):
        return a == b
    return abs(a - b) <= rel * max(abs(a), abs(b)) + abs_floor


def relerr(a, b):
    import math
    if math.isnan(a) or math.isnan(b):
        return 0.0 if (math.isnan(a) and math.isnan(b)) else float('inf')
    if a == b:
        return 0.0
    return abs(a - b) / max(abs(a), abs(b), 1e-300)


class Ctx:
    def __init__(self, prop, tier, seed):
        self.prop = prop
        self.tier = tier
        self.seed = seed
        self.rng = random.Random(seed * 1000003 + int(prop[1:]))
        self.t0 = time.time()
        self.broken = []        # broken obligations: (kind, name, detail)
        self.violations = []    # concrete failing inputs: dict(key=..., what=..., case=...)
        self.obligations = []   # (name, ok)
        self.samples = []
        self.evaluations = 0
        self.nontrivial = set()
        self.hist = {}
        self.notes = []
        self.theorems = []
        self.known_hit = []

    @property
    def thorough(self):
        return self.tier == 'thorough'

    def n(self, quick, thorough):
        return thorough if self.thorough else quick

    def count(self, key, k=1):
        self.hist[key] = self.hist.get(key, 0) + k

    def oblige(self, name, ok, detail=''):
        self.obligations.append((name, bool(ok)))
        if not ok:
            self.broken.append(('obligation', name, detail))

    def violation(self, key, what, case):
        self.violations.append({'key': key, 'what': what, 'case': case})

    def sample(self, s, cap=6):
        if len(self.samples) < cap:
            self.samples.append(s)


# ---------------------------------------------------------------------------
# translators / build / audit
# ---------------------------------------------------------------------------

class BuildLock:
    def __enter__(self):
        self.f = open(os.path.join(LEAN, '.build.lock'), 'w')
        fcntl.flock(self.f, fcntl.LOCK_EX)
        return self

    def __exit__(self, *a):
        fcntl.flock(self.f, fcntl.LOCK_UN)
        self.f.close()


def run_gen(ctx, targets):
    if not targets:
        return True
    p = subprocess.run([sys.executable, os.path.join(VERIF, 'translate', 'gen.py'), '--repo', REPO] + list(targets),
                       stdout=subprocess.PIPE, stderr=subprocess.PIPE, text=True)
    ok = p.returncode == 0
    ctx.oblige('translator:' + ','.join(targets), ok, p.stderr.strip()[-2000:])
    return ok


def lake_build(ctx, modules, timeout=3000):
    """build Lean modules (Props + what the driver imports); returns (ok, log)"""
    env = dict(os.environ)
    p = subprocess.run(['lake', 'build'] + list(modules), cwd=LEAN, stdout=subprocess.PIPE,
                       stderr=subprocess.STDOUT, text=True, timeout=timeout, env=env)
    ok = p.returncode == 0
    log = p.stdout
    if not ok:
        # name the modules / declarations that failed
        errs = [l for l in log.splitlines() if l.startswith('error:') or ' error' in l[:60]]
        detail = '\n'.join(errs[:20])
    else:
        detail = ''
    ctx.oblige('lake build ' + ' '.join(modules), ok, detail or log[-1500:])
    return ok, log


FORBIDDEN = re.compile(r'\bsorry\b|\badmit\b|^\s*axiom\s|native_decide|bv_decide|implemented_by|\bunsafe\s|maxHeartbeats\s+0\b', re.M)


def strip_comments(src):
    src = re.sub(r'/-.*?-/', '', src, flags=re.S)
    src = re.sub(r'--[^\n]*', '', src)
    return src


def source_audit(ctx, files):
    bad = []
    for f in files:
        p = os.path.join(LEAN, f)
        if not os.path.exists(p):
            bad.append((f, 'missing'))
            continue
        m = FORBIDDEN.search(strip_comments(open(p).read()))
        if m:
            bad.append((f, m.group(0).strip()))
    ctx.oblige('source audit (no sorry/admit/axiom/native_decide/bv_decide/implemented_by/unsafe/maxHeartbeats 0) over %d files' % len(files),
               not bad, str(bad))
    return not bad


def axiom_audit(ctx, ns_module, namespace):
    """#audit_ns over the property namespace; every theorem must depend only on the 3 standard axioms"""
    tmpdir = os.path.join(LEAN, '.audit')
    os.makedirs(tmpdir, exist_ok=True)
    f = os.path.join(tmpdir, 'Audit_%s_%d.lean' % (ctx.prop, os.getpid()))
    with open(f, 'w') as fh:
        fh.write('import %s\nimport TamocV.Audit\n#audit_ns %s\n' % (ns_module, namespace))
    try:
        p = subprocess.run(['lake', 'env', 'lean', f], cwd=LEAN, stdout=subprocess.PIPE, stderr=subprocess.STDOUT,
                           text=True, timeout=1200)
    finally:
        try:
            os.remove(f)
        except OSError:
            pass
    thms = []
    bad = []
    ctx.stmts = {}
    for line in p.stdout.splitlines():
        ms = re.match(r'.*STMT (\S+) (\d+) (GEN|-)\s*$', line)
        if ms:
            ctx.stmts[ms.group(1)] = (ms.group(2), ms.group(3))
            continue
        m = re.match(r'.*AXIOMS (\S+) :\s*(.*)$', line)
        if m:
            axs = set(m.group(2).split())
            thms.append(m.group(1))
            if not axs <= ALLOWED_AXIOMS:
                bad.append((m.group(1), sorted(axs - ALLOWED_AXIOMS)))
    ok = p.returncode == 0 and not bad and len(thms) > 0
    ctx.theorems = thms
    for t in thms:
        ctx.obligations.append(('theorem ' + t, t not in [b[0] for b in bad]))
    ctx.oblige('axiom audit of %s (%d theorems)' % (namespace, len(thms)), ok, str(bad) + p.stdout[-800:] if not ok else '')
    return ok


# ---------------------------------------------------------------------------
# line-protocol driver
# ---------------------------------------------------------------------------

def run_driver(ctx, driver, lines, timeout=1800):
    """pipe request lines to `lake env lean --run Drivers/<driver>.lean`; returns list of
    decoded responses (list of args) or ('ERR', text) per line; None if the driver could not run"""
    if not lines:
        return []
    inp = '\n'.join(lines) + '\n'
    try:
        p = subprocess.run(['lake', 'env', 'lean', '--run', os.path.join('Drivers', driver + '.lean')], cwd=LEAN,
                           input=inp, stdout=subprocess.PIPE, stderr=subprocess.PIPE, text=True, timeout=timeout)
    except subprocess.TimeoutExpired:
        ctx.oblige('driver %s ran' % driver, False, 'timeout')
        return None
    outs = p.stdout.splitlines()
    if p.returncode != 0 or len(outs) != len(lines):
        ctx.oblige('driver %s ran' % driver, False, (p.stderr or p.stdout)[-1500:])
        return None
    res = []
    for o in outs:
        if o.startswith('ERR'):
            res.append(('ERR', o))
        else:
            res.append([dec(t) for t in o.split()])
    return res


# ---------------------------------------------------------------------------
# known findings, replays, evidence, verdict
# ---------------------------------------------------------------------------

def load_known():
    out = []
    p = os.path.join(VERIF, 'known_findings.txt')
    if os.path.exists(p):
        for line in open(p):
            line = line.strip()
            m = re.match(r'finding:\s+property=(\S+)\s+key=(\S+)\s+(.*)$', line)
            if m:
                out.append({'property': m.group(1), 'key': m.group(2), 'what': m.group(3)})
    return out


def write_replay(ctx, payload, tag):
    os.makedirs(REPLAYS, exist_ok=True)
    # runs against a copy of the repository (TAMOC_REPO) keep their replays apart from those of /repo
    d = REPLAYS if os.path.realpath(REPO) == '/repo' else os.path.join(REPLAYS, 'copies', re.sub(r'[^A-Za-z0-9_.-]', '_', REPO.strip('/')))
    os.makedirs(d, exist_ok=True)
    path = os.path.join(d, '%s-%s-seed%d-%s.json' % (ctx.prop, ctx.tier, ctx.seed, tag))
    with open(path, 'w') as f:
        json.dump(payload, f, indent=1, default=str)
    return path


def finish(ctx, rule, level_note, checker_cmd, extra=None, exhaustive=False):
    """verdict + evidence.  Returns the process exit code."""
    known = [k for k in load_known() if k['property'] == ctx.prop]
    known_keys = {k['key']: k for k in known}
    new_viol = []
    hit = {}
    for v in ctx.violations:
        if v['key'] in known_keys:
            hit[v['key']] = known_keys[v['key']]
        else:
            new_viol.append(v)
    for k in hit.values():
        print('KNOWN-FINDING: property=%s %s' % (ctx.prop, k['what']))
    rc = 0
    nviol = 0
    if new_viol:
        # one replay per distinct key (first case), at most 5 lines
        seen = set()
        for v in new_viol:
            if v['key'] in seen:
                continue
            seen.add(v['key'])
            if len(seen) > 5:
                break
            path = write_replay(ctx, {'property': ctx.prop, 'what': v['what'], 'key': v['key'], 'case': v['case'],
                                      'broken_obligations': [{'kind': b[0], 'name': b[1], 'detail': str(b[2])[:3000]} for b in ctx.broken]},
                                 'v%d' % len(seen))
            print('VIOLATION property=%s replay=%s' % (ctx.prop, path))
            nviol += 1
        rc = 1
    elif ctx.broken:
        path = write_replay(ctx, {'property': ctx.prop,
                                  'what': 'proof obligation / correspondence no longer checks; no failing input found on the real code',
                                  'broken_obligations': [{'kind': b[0], 'name': b[1], 'detail': b[2]} for b in ctx.broken]},
                            'broken')
        print('VIOLATION property=%s replay=%s no-failing-input-found' % (ctx.prop, path))
        nviol = 1
        rc = 1
    nob = len(ctx.obligations)
    ndis = sum(1 for _n, ok in ctx.obligations if ok)
    cov = {
        'obligations': max(nob, 1),
        'discharged': ndis,
        'checker_cmd': checker_cmd,
        'trusted_base': TRUSTED_BASE,
        'evaluations': int(ctx.evaluations),
        'distinct_nontrivial': len(ctx.nontrivial),
        'rule': rule,
        'samples': ctx.samples if ctx.samples else ['(no case generated)'],
        'theorems': ctx.theorems,
        'obligation_list': [{'name': n, 'ok': ok} for n, ok in ctx.obligations],
        'branch_histogram': ctx.hist,
        'tolerances': TOL,
        'exhaustive': bool(exhaustive),
        'known_findings_seen': [k['key'] for k in hit.values()],
        'known_findings_hits': {k: sum(1 for v in ctx.violations if v['key'] == k) for k in hit},
        'notes': ctx.notes,
    }
    if extra:
        cov.update(extra)
    ev = {
        'property_id': ctx.prop,
        'tier': ctx.tier,
        'seed': int(ctx.seed),
        'level': 'proof',
        'coverage': cov,
        'assumptions': [level_note],
        'wall_s': round(time.time() - ctx.t0, 2),
        'violations': nviol,
    }
    # evidence/ is only ever written by a run against /repo itself; a run against a copy (TAMOC_REPO, used to try
    # mutations and seeded changes) leaves its record under replays/ so that committed evidence stays clean
    evdir = EVID if os.path.realpath(REPO) == os.path.realpath('/repo') else os.path.join(REPLAYS, 'evidence-of-copies')
    os.makedirs(evdir, exist_ok=True)
    path = os.path.join(evdir, ctx.prop + '.json')
    with open(path, 'w') as f:
        json.dump(ev, f, indent=1, default=str)
    if not validate_evidence(path) and rc == 0:
        rc = 2          # an evidence file that does not meet the schema is an infrastructure failure of the check
    print('%s tier=%s seed=%d obligations=%d discharged=%d evaluations=%d nontrivial=%d violations=%d wall=%.1fs'
          % (ctx.prop, ctx.tier, ctx.seed, nob, ndis, ctx.evaluations, len(ctx.nontrivial), nviol, ev['wall_s']))
    return rc


def validate_evidence(path):
    vt = shutil.which('python3-vt')
    schema = '/root/.vp/EVIDENCE.schema.json'
    if not vt or not os.path.exists(schema):
        return True
    code = ("import json,sys,jsonschema; s=json.load(open(%r)); e=json.load(open(%r)); "
            "jsonschema.validate(e,s)" % (schema, path))
    p = subprocess.run([vt, '-c', code], stdout=subprocess.PIPE, stderr=subprocess.STDOUT, text=True)
    if p.returncode != 0:
        sys.stderr.write('EVIDENCE-INVALID %s\n%s\n' % (path, p.stdout[-500:]))
        print('EVIDENCE-INVALID %s' % path)
        return False
    return True
