"""
C02 — Flash calculation conserves mass and equalises fugacities.

proof        : TamocV/Props/C02.lean over the hand model TamocV/Model/Flash.lean (gas_liq_eq, end of
               equil_MM, zero-component handling + back-conversion of FluidMixture.equilibrium), all n, all fuel
tie          : (H) value correspondence through the line-protocol driver Drivers/C02.lean
               * dbm.gas_liq_eq(m, M, K): beta, both rows, and the per-iteration increments beta_var - beta_old
                 (recorded from the real code by a recording proxy for the module's `np.abs`)
               * dbm.equil_MM's return value from what its last successive_substitution returned (label logic)
               * FluidMixture.equilibrium's return value from what equil_MM returned (re-insertion, back-conversion)
real code    : property predicates on the outputs of the real gas_liq_eq / FluidMixture.equilibrium:
               beta in [0,1], x_gas = K x_liq, material balance, row sums, ranges; non-negative phase masses
               summing to the feed; K = ratio; labelled TESTS (not theorems): isofugacity, convergence of the
               Rachford-Rice loop, tangent-plane distance of one-phase results, Gibbs-energy label
"""
import os
import math
import time
import signal
import warnings
import numpy as np
from common import req, close, relerr, TOL, run_driver
import scen_mix

META = {
    'text': ('Theorems (Lean 4, over the reals, every number of components and every iteration count) about a line-by-line model of '
             'dbm.gas_liq_eq, of the single-phase clean-up / phase label at the end of dbm.equil_MM and of the zero-component handling '
             'and mass back-conversion of FluidMixture.equilibrium.  Phase-split solve: gas fraction in [0,1]; the bracket '
             '[beta_min, beta_max] is preserved by every Newton/bisection pass AND keeps the (unique) Rachford-Rice root inside it (g is '
             'proved strictly decreasing; this theorem fails for a pass with flipped sign tests), so the returned beta is within the '
             'final bracket width of the root, and within the last increment after a bisection exit; positive denominators; '
             'x_gas = K x_liq; component material balance; row sums 1 - beta g and 1 + (1-beta) g; mole fractions in [0,1].  '
             'Equilibrium: end-to-end conservation (every component, incl. removed zero-mass components, every way equil_MM can be '
             'left, K >= 0 with positive denominators), non-negative phase masses, reported K = x_gas/x_liq.  The literal reading '
             '"both rows of gas_liq_eq sum to one" is proved FALSE with a witness that is replayed on the real code.  The model is tied '
             'to /repo by value correspondence (incl. the per-pass increments of the iteration); the property predicates are evaluated '
             'on the real outputs of every generated feed.'),
    'note': ('Trusted: Lean kernel + 3 standard axioms; the hand transcription Model/Flash.lean (validated by the correspondence run on '
             'every case); real arithmetic as stand-in for IEEE doubles; the harness.  NOT modelled: the equation of state, '
             'successive_substitution (K update, NaN -> 0, first-step safeguards, stop flags) and stability_analysis — the model takes '
             'what the last successive_substitution call returned as input (the harness checks that those rows are gas_liq_eq of the '
             'returned K).  SAMPLED on the real code only, no theorem: isofugacity of converged two-phase outputs (tolerance 2e-4), '
             'termination and convergence of the loops, existence of the Rachford-Rice root, stability of one-phase results '
             '(tangent-plane distance at the Wilson gas-like and liquid-like trials, 15 iterates of Michelsen\'s fixed-point map from '
             'each, 20 random trials; also applied to "two-phase" results with identical phases and to every one-phase trace variant of a '
             'stability-decided feed), insensitivity of the phase count to a trace component, placement of a one-phase feed in the '
             'row of the lower-Gibbs-energy root / the gas row for a near-ideal single-root state.  WARM START: at least 25 % of the flash cases are '
             'repeated with a caller-supplied K vector (the same feed\'s K at another state, log-uniform [1e-3,1e3]^n, the cold K times '
             'lognormal(1), NaN / zero entries) and every predicate is evaluated on the warm result; on /repo the guard at dbm.py l.2577 '
             '`isinstance(np.sum(K_0), type(np.nan))` is True for every float array, so the supplied K is replaced by the Wilson estimate '
             'and every warm result is bit-identical to the cold one (counted, evidence field warm_start) — the warm-start half of the '
             'quantifier is exercised through the interface but is dead code upstream.  '
             'Calls exceeding the time budget (about 1 %, K decaying to underflow over 1e3-1e5 substitution calls) are dropped, '
             'counted, and bounded by an obligation (<= 4 %).'),
    'technique': 'Lean 4 proof over a hand-written executable model + differential execution against the real code + predicates on real outputs',
}
GEN = []
MODULES = ['TamocV.Props.C02Root', 'TamocV.Props.C02', 'TamocV.Model.Flash']
RULE = ('phase-split solve: n = 1..7, z Dirichlet(0.2|1|3) (10% with an exact zero), K log-uniform in [1e-6,1e6]^n in the '
        'regimes ' + ', '.join(scen_mix.RR_KINDS) + ' plus fixed edge cases (pure component, K = 1 entries, z_i = 1 with K_i = 1, '
        'sum z K = 1 exactly), random molar masses in half of the cases; flash (every case cold; >= 25% of the cases '
        'repeated with a supplied K vector: same feed at another state / log-uniform [1e-3,1e3]^n / cold K x lognormal(1) / NaN and zero '
        'entries — dead code on /repo, see META): 1..7 distinct database compounds other than water, hydrogen included '
        '(60% forced to contain a light gas and a heavier compound), Dirichlet mass fractions, exact zero masses with probability '
        '0.15 per component in half of the feeds, total mass log-uniform 1e-6..1e2 kg, T uniform 270-420 K, P log-uniform (70%) or '
        'uniform 1e5-5e7 Pa; targeted feeds in the same pipeline: pure compounds, dense supercritical mixtures of O2/Ar/N2/CO/CH4 at '
        '2-50 MPa, hydrogen-rich feeds at 10-50 MPa, states on both sides of a phase boundary (bisection in P), feeds whose outcome '
        'is DECIDED by the stability analysis (24-step pressure ladders 8-50 MPa at fixed composition, CO2/N2/alkane at 290-320 K and '
        'light-gas/heavier mixtures at 270-420 K; the two-phase states during which stability_analysis was called, +-1.5% in P) and '
        'their TRACE variants (one extra database compound at 1e-10..1e-6 of the feed mass; one existing component scaled down to '
        'that level, with the feed without it as reference), compared metamorphically (same phase count, |delta beta| <= 0.05 when the '
        'reference has 0.02 <= beta <= 0.98); regression search: '
        'feeds whose first component has K = 1 (bisection in P); histories on ONE object: call, edit the same mass ndarray in place '
        '(zero a component / x10^k / permute), call again at the same T, P, overwrite the returned arrays, call again — every call judged '
        'against the feed of that call and against a fresh object.  Floors on every outcome class are obligations.  A case is '
        'non-trivial when it is distinct (composition, masses, T, P rounded to 12 digits)')
LEVEL_NOTE = ('theorems over the reals about a hand-written model of the flash orchestration, tied to /repo by value '
              'correspondence on every generated case; floating point, the equation of state, successive substitution, stability '
              'analysis and the convergence of the iterations are outside the proof (tested)')

FUEL = 400                # iteration budget given to the model; the real loop needed <= 25 passes on 1e6 cases
TPD_NEG = 1e-7            # a tangent-plane distance below -TPD_NEG is a stability failure (flash tolerance squared, rounded up)
Z_IDEAL = 0.95            # "near-ideal compressibility"
PR_LOW = 0.2              # "low reduced pressure" (pseudo-critical pressure = mole-fraction mean of Pc)
EXCLUDE = ()               # hydrogen is included since z_pr was repaired (commit 974255e); a NaN from the EOS is skipped and counted


def audit_files():
    return ['TamocV/Num.lean', 'TamocV/Real.lean', 'TamocV/Lemmas/Basic.lean', 'TamocV/Model/Flash.lean',
            'TamocV/Lemmas/C02.lean', 'TamocV/Props/C02.lean', 'TamocV/Lemmas/C02Root.lean', 'TamocV/Props/C02Root.lean']


# =============================================================================================
# part A — the phase-split solve dbm.gas_liq_eq
# =============================================================================================

class _NPProxy(object):
    """stands in for the module global `np` of tamoc.dbm while gas_liq_eq runs: records the argument of
    every np.abs call (l.3286: err = np.abs(beta_var - beta_old)), delegates everything else"""

    def __init__(self):
        self.rec = []

    def __getattr__(self, k):
        return getattr(np, k)

    def abs(self, x):
        self.rec.append(float(x))
        return np.abs(x)


class _Timeout(Exception):
    pass


def _alarm(*_a):
    raise _Timeout()


def call_with_budget(f, seconds):
    """run f() under a wall-clock budget (the flash loops have no iteration bound)"""
    old = signal.signal(signal.SIGALRM, _alarm)
    signal.setitimer(signal.ITIMER_REAL, seconds)
    try:
        return f()
    finally:
        signal.setitimer(signal.ITIMER_REAL, 0)
        signal.signal(signal.SIGALRM, old)


def rr_fixed_cases():
    c = []
    c.append(([1.0], [1.0], [3.0]))                         # pure, K > 1
    c.append(([1.0], [1.0], [0.2]))                         # pure, K < 1
    c.append(([1.0], [1.0], [1.0]))                         # pure, K = 1: condition (4) with equality
    c.append(([0.5, 0.5], [1.0, 1.0], [2.0, 0.5]))          # sum z K = 1.25, sum z/K = 1.25: two-phase, beta = 1/2
    c.append(([0.5, 0.5], [1.0, 1.0], [0.5, 0.25]))         # the Lean witness rr_not_both_rows_sum_to_one
    c.append(([1. / 3, 1. / 3, 1. / 3], [1.0, 1.0, 1.0], [1.0, 2.0, 0.5]))   # Lean witness, K_1 = 1 inside a two-phase state
    c.append(([0.25, 0.75], [1.0, 1.0], [1.0, 4.0 / 3.0]))  # sum z K = 1.25; K_1 = 1 (bound (7) is -inf)
    c.append(([0.2, 0.3, 0.5], [1.0, 1.0, 1.0], [1e6, 1.0, 1e-6]))
    c.append(([0.5, 0.5], [0.016, 0.142], [1e6, 1e-6]))
    c.append(([1e-12, 1 - 1e-12], [1.0, 1.0], [1e6, 0.5]))
    return c


def gen_rr(ctx):
    r = ctx.rng
    n_cases = ctx.n(6000, 200000)
    cases = rr_fixed_cases()
    while len(cases) < n_cases:
        n = r.randint(1, 7)
        kind = r.choice(scen_mix.RR_KINDS)
        z, K = scen_mix.rr_case(r, n, kind)
        M = [1.0] * n if r.random() < 0.5 else [r.uniform(0.002, 0.3) for _ in range(n)]
        m = [a * b for a, b in zip(z, M)]
        cases.append((m, M, K))
        ctx.count('rr:kind:' + kind)
    return cases


def rr_predicates(ctx, m, M, K, xi, beta, worst):
    """the phase-split part of the property on ONE real output of dbm.gas_liq_eq"""
    case = {'m': list(m), 'M': list(M), 'K': list(K)}
    n = len(K)
    moles = np.array(m) / np.array(M)
    z = moles / np.sum(moles)
    Ka = np.array(K)
    if not (np.all(np.isfinite(xi)) and math.isfinite(beta)):
        # by construction only for K_i = 1 with z_i = 1 hidden behind condition (4): never reached (see notes)
        ctx.violation('gas_liq_eq-non-finite', 'dbm.gas_liq_eq returned a non-finite value for positive K', dict(case, beta=beta, xi=xi.tolist()))
        return
    if not (0. <= beta <= 1.):
        ctx.violation('beta-out-of-[0,1]', 'gas fraction outside [0,1]', dict(case, beta=beta))
    d = 1. + beta * (Ka - 1.)
    if not np.all(d > 0.):
        ctx.violation('rr-denominator-not-positive', 'a denominator 1 + beta (K_i - 1) is not positive', dict(case, beta=beta))
        return
    for j in range(n):
        if not close(float(xi[0, j]), float(Ka[j] * xi[1, j]), TOL['identity']):
            ctx.violation('xgas-ne-K-xliq', 'x_gas,i differs from K_i x_liq,i', dict(case, beta=beta, i=j, x_gas=float(xi[0, j]), x_liq=float(xi[1, j])))
            break
        lhs = beta * xi[0, j] + (1. - beta) * xi[1, j]
        if not abs(lhs - z[j]) <= TOL['identity'] * (abs(beta * xi[0, j]) + abs((1. - beta) * xi[1, j]) + abs(z[j])) + 1e-300:
            ctx.violation('material-balance', 'beta x_gas,i + (1-beta) x_liq,i differs from z_i', dict(case, beta=beta, i=j, lhs=float(lhs), z=float(z[j])))
            break
    if np.any(xi < 0.) or np.any(xi > 1. + 1e-12):
        ctx.violation('mole-fraction-out-of-range', 'a mole fraction of the phase split is outside [0,1]', dict(case, beta=beta, xi=xi.tolist()))
    terms = z * (Ka - 1.) / d
    g = float(np.sum(terms))
    sc = float(np.sum(np.abs(terms))) + 1.
    gp = float(np.sum(z * (Ka - 1.) ** 2 / d ** 2))
    sl, sg = float(np.sum(xi[1])), float(np.sum(xi[0]))
    # the proved identities  sum x_liq = 1 - beta g,  sum x_gas = 1 + (1 - beta) g  on the real rows
    if not (abs(sl - (1. - beta * g)) <= TOL['identity'] * sc * n and abs(sg - (1. + (1. - beta) * g)) <= TOL['identity'] * sc * n * max(1., float(np.max(Ka)))):
        ctx.violation('row-sum-identity', 'row sums differ from 1 - beta g / 1 + (1-beta) g', dict(case, beta=beta, g=g, sum_liq=sl, sum_gas=sg))
    if beta == 0.:
        if not abs(sl - 1.) <= TOL['identity'] * n:
            ctx.violation('present-phase-sum', 'liquid row does not sum to one at beta = 0', dict(case, sum_liq=sl))
    elif beta == 1.:
        if not abs(sg - 1.) <= TOL['identity'] * n:
            ctx.violation('present-phase-sum', 'gas row does not sum to one at beta = 1', dict(case, sum_gas=sg))
    else:
        # TEST (not a theorem): the loop left a residual compatible with its own tolerance on beta
        dev = max(abs(sl - 1.), abs(sg - 1.))
        worst['sum_dev_over_gp'] = max(worst['sum_dev_over_gp'], dev / max(1., gp))
        if not dev <= 2. * TOL['rr_beta'] * max(1., gp):
            ctx.violation('rr-not-converged-sum', 'two-phase rows deviate from one by more than the Rachford-Rice tolerance allows',
                          dict(case, beta=beta, sum_liq=sl, sum_gas=sg, g=g, gp=gp))

        def gg(b):
            dd = 1. + b * (Ka - 1.)
            return float(np.sum(z * (Ka - 1.) / dd))
        lo, hi = max(beta - TOL['rr_beta'], 0.), min(beta + TOL['rr_beta'], 1.)
        if not (gg(lo) >= -1e-12 * sc and gg(hi) <= 1e-12 * sc):
            ctx.violation('rr-root-not-bracketed', 'the Rachford-Rice root is not within 1e-8 of the returned beta',
                          dict(case, beta=beta, g_lo=gg(lo), g_hi=gg(hi)))


def run_rr(ctx, lean_ok, dbm):
    cases = gen_rr(ctx)
    real = []
    t0 = time.time()
    for m, M, K in cases:
        px = _NPProxy()
        dbm.np = px
        try:
            with np.errstate(all='ignore'):
                xi, beta = call_with_budget(lambda: dbm.gas_liq_eq(np.array(m), np.array(M), np.array(K)), 20.)
            real.append((np.asarray(xi, dtype=float), float(beta), list(px.rec)))
        except _Timeout:
            real.append(None)
        finally:
            dbm.np = np
    ctx.notes.append('gas_liq_eq: %d real calls in %.1f s' % (len(cases), time.time() - t0))
    out = None
    if lean_ok:
        out = run_driver(ctx, 'C02', [req('Flash.gasLiqEq', m, M, K, FUEL) for m, M, K in cases])
    nbad = 0
    worst = {'beta': 0., 'rows': 0., 'trace': 0., 'sum_dev_over_gp': 0., 'passes': 0}
    for i, ((m, M, K), rl) in enumerate(zip(cases, real)):
        ctx.evaluations += 1
        case = {'m': m, 'M': M, 'K': K}
        if rl is None:
            ctx.violation('gas_liq_eq-no-termination', 'dbm.gas_liq_eq did not return within 20 s', case)
            continue
        xi, beta, tr = rl
        n = len(K)
        ctx.nontrivial.add(('rr', tuple(float('%.12g' % x) for x in list(m) + list(K))))
        regime = 'beta=0' if beta == 0. else ('beta=1' if beta == 1. else 'two-phase')
        ctx.count('rr:' + regime)
        ctx.count('rr:n=%d' % n)
        worst['passes'] = max(worst['passes'], len(tr))
        if i in (3, 5, 20):
            ctx.sample({'call': 'gas_liq_eq', 'm': m, 'M': M, 'K': K, 'beta': beta, 'x_gas': list(xi[0]), 'x_liq': list(xi[1]),
                        'passes': len(tr)})
        # ---- correspondence with the Lean model ------------------------------------------------
        if out is not None:
            o = out[i]
            ok = isinstance(o, list) and len(o) == 6
            if ok:
                xg, xl, b, nit, trace, conv = o
                ok = (close(xg, list(xi[0]), TOL['gen_vs_source']) and close(xl, list(xi[1]), TOL['gen_vs_source'])
                      and close(b, beta, TOL['gen_vs_source']) and conv == 1 and nit == len(tr)
                      and all(abs(a - c) <= TOL['gen_vs_source'] for a, c in zip(trace, tr)))
                if np.all(np.isfinite(xi)):
                    worst['beta'] = max(worst['beta'], relerr(b, beta))
                    worst['rows'] = max([worst['rows']] + [relerr(a, c) for a, c in zip(xg + xl, list(xi[0]) + list(xi[1]))])
                    if nit == len(tr):
                        worst['trace'] = max([worst['trace']] + [abs(a - c) for a, c in zip(trace, tr)])
            if not ok:
                nbad += 1
                if nbad <= 3:
                    ctx.broken.append(('correspondence', 'Model.Flash.gasLiqEq vs dbm.gas_liq_eq',
                                       'm=%r M=%r K=%r code=(%r, %r, trace %r) model=%r' % (m, M, K, xi.tolist(), beta, tr, o)))
        rr_predicates(ctx, m, M, K, xi, beta, worst)
    if out is not None:
        ctx.oblige('correspondence Model.Flash.gasLiqEq == dbm.gas_liq_eq (beta, rows, per-pass increments, pass count) on %d cases (rel %g)'
                   % (len(cases), TOL['gen_vs_source']), nbad == 0, '%d disagreements' % nbad)
    ctx.notes.append('gas_liq_eq worst differences model/code and convergence figures: %r' % worst)

    # ---- the Lean witness rr_not_both_rows_sum_to_one on the real code (described, not a violation under the adopted reading) ----
    xi, beta = dbm.gas_liq_eq(np.array([0.5, 0.5]), np.array([1., 1.]), np.array([0.5, 0.25]))
    ctx.oblige('witness rr_not_both_rows_sum_to_one reproduced on dbm.gas_liq_eq (beta = 0, gas row sums to 3/8)',
               beta == 0. and abs(float(np.sum(xi[0])) - 0.375) < 1e-15 and abs(float(np.sum(xi[1])) - 1.) < 1e-15,
               'beta=%r rows=%r' % (beta, xi.tolist()))
    ctx.notes.append('reading adopted (DESIGN C02): "phase compositions sum to one" is required of every PRESENT phase; the absent '
                     'phase row of gas_liq_eq is K z (beta = 0) or z / K (beta = 1), which does not sum to one (theorem '
                     'rr_not_both_rows_sum_to_one, reproduced on the code) and is overwritten by equil_MM')
    # ---- inputs the code cannot handle by construction: K_i = 1 with z_i = 1 gives 0/0 in beta_min --------------------
    with warnings.catch_warnings(record=True) as wl:
        warnings.simplefilter('always')
        xi, beta = dbm.gas_liq_eq(np.array([1., 0.]), np.array([1., 1.]), np.array([1., 5.]))
    ctx.notes.append('guarded input K_i = 1 with z_i = 1 (0/0 in equation (7)): a composition with z_i = 1 has sum z K = K_i = 1, so '
                     'condition (4) returns beta = 0 before the bounds are formed; real code on z=(1,0), K=(1,5): beta=%r rows=%r warnings=%d'
                     % (beta, np.asarray(xi).tolist(), len(wl)))
    if not (beta == 0. and len(wl) == 0):
        ctx.violation('guarded-input-reached', 'K_i = 1 with z_i = 1 reached the 0/0 of equation (7)', {'z': [1., 0.], 'K': [1., 5.], 'beta': beta})


# =============================================================================================
# part B — FluidMixture.equilibrium on database feeds (worker side: runs the real code)
# =============================================================================================

_W = {'fm': {}, 'rec': None, 'installed': False}


def _install_recorders():
    """wrap the module-level functions of tamoc.dbm that equil_MM / equilibrium look up by name at call time
    (no change to /repo)"""
    if _W['installed']:
        return
    from tamoc import dbm
    o_mm, o_ss, o_sa, o_gle = dbm.equil_MM, dbm.successive_substitution, dbm.stability_analysis, dbm.gas_liq_eq

    def mm(m, T, P, M, Pc, Tc, omega, delta, Aij, Bij, delta_groups, calc_delta, K_0):
        r = o_mm(m, T, P, M, Pc, Tc, omega, delta, Aij, Bij, delta_groups, calc_delta, K_0)
        if _W['rec'] is not None:
            _W['rec']['mm'] = {'m': np.array(m, dtype=float).tolist(), 'M': np.array(M, dtype=float).tolist(),
                               'K0': None if K_0 is None else np.array(K_0, dtype=float).tolist(),
                               'xi': np.array(r[0], dtype=float).tolist(), 'beta': float(r[1]), 'K': np.array(r[2], dtype=float).tolist()}
        return r

    def ss(*a, **k):
        r = o_ss(*a, **k)
        rec = _W['rec']
        if rec is not None:
            rec['n_ss'] += 1
            rec['last'] = 'ss'
            rec['ss'] = {'K': np.array(r[0], dtype=float).tolist(), 'beta': float(r[1]), 'xi': np.array(r[2], dtype=float).tolist(),
                         'flag': int(r[3]), 'steps': int(r[4]), 'K_in': np.array(a[13], dtype=float).tolist()}
            if rec['n_ss'] == 1:
                rec['first_K_in'] = np.array(a[13], dtype=float).tolist()
        return r

    def sa(*a, **k):
        r = o_sa(*a, **k)
        rec = _W['rec']
        if rec is not None:
            rec['n_sa'] += 1
            rec['last'] = 'sa'
            rec['sa_phases'] = int(r[1])
            rec['sa_K_in'] = np.array(a[12], dtype=float).tolist()
            rec['sa_after_n_ss'] = rec['n_ss']
        return r

    def gle(m, M, K):
        r = o_gle(m, M, K)
        rec = _W['rec']
        if rec is not None:
            rec['n_gle'] += 1
            rec['gle'] = {'m': np.array(m, dtype=float).tolist(), 'M': np.array(M, dtype=float).tolist(), 'K': np.array(K, dtype=float).tolist(),
                          'xi': np.array(r[0], dtype=float).tolist(), 'beta': float(r[1])}
        return r

    dbm.equil_MM, dbm.successive_substitution, dbm.stability_analysis, dbm.gas_liq_eq = mm, ss, sa, gle
    _W['orig'] = {'ss': o_ss, 'sa': o_sa, 'gle': o_gle}
    _W['installed'] = True


def ref_constants(names):
    """molar mass, critical pressure / temperature and acentric factor per compound from the harness's OWN reading of
    /repo/tamoc/data/ChemData.csv in SI (c01.feed_tables: g/mol, psia, deg F converted there) — not from the object under test"""
    import c01
    crit = c01.feed_tables()['crit']
    return {k: np.array([crit[n][k] for n in names], dtype=float) for k in ('M', 'Pc', 'Tc', 'omega')}


def _fm(names):
    """cached FluidMixture; its M is compared ONCE with the independent reading of ChemData.csv (a mismatch is carried in the
    results of every feed evaluated with that object and reported as a violation)"""
    from tamoc import dbm
    key = tuple(names)
    if key not in _W['fm']:
        fm = dbm.FluidMixture(list(names))
        fm._ref = ref_constants(names)
        fm._ref_mismatch = [k for k in ('M', 'Pc', 'Tc', 'omega')
                            if not (np.shape(getattr(fm, k)) == fm._ref[k].shape and np.allclose(getattr(fm, k), fm._ref[k], rtol=1e-9, atol=0.))]
        _W['fm'][key] = fm
    return _W['fm'][key]


def _lnf(fm, x, T, P):
    """ln of the fugacities (2 x nc) of a phase of mole fractions x (entries with x = 0 excluded by the caller)"""
    with np.errstate(all='ignore'):
        f = fm.fugacity(x * fm._ref['M'], T, P)      # masses of a phase of mole fractions x, with the INDEPENDENT molar masses
        return np.log(f)


def _gibbs_rows(fm, x, T, P):
    nz = x > 0.
    lf = _lnf(fm, x, T, P)
    g = [float(np.sum(x[nz] * lf[r][nz])) for r in (0, 1)]
    return g, lf


def eval_feed(job):
    """run ONE equilibrium call of the real code with recorders, then evaluate everything that needs the real
    equation of state (fugacities of the returned phases, tangent-plane distances, Gibbs energies).  Returns plain data."""
    warnings.simplefilter('ignore')
    _install_recorders()
    case, budget, trial_seed = job
    names, m, T, P, K0 = case['composition'], np.array(case['m'], dtype=float), case['T'], case['P'], case['K0']
    fm = _fm(names)
    res = {'case': case, 'status': 'ok'}
    rec = {'n_ss': 0, 'n_sa': 0, 'n_gle': 0, 'last': None}
    _W['rec'] = rec
    t0 = time.time()
    try:
        with np.errstate(all='ignore'):
            Kin = None if K0 is None else np.array(K0, dtype=float)
            mm, xi, K = call_with_budget(lambda: fm.equilibrium(m, T, P, K=Kin), budget)
    except _Timeout:
        res['status'] = 'slow'
        res['n_ss'] = rec['n_ss']
        return res
    except Exception as e:      # the property includes "returns": an exception on a valid feed is reported
        res['status'] = 'exception'
        res['error'] = repr(e)
        return res
    finally:
        _W['rec'] = None
    res['wall'] = time.time() - t0
    res['rec'] = rec
    mm = np.array(mm, dtype=float)
    xi = np.array(xi, dtype=float)
    K = np.array(K, dtype=float)
    res['mm'], res['xi'], res['K'] = mm.tolist(), xi.tolist(), K.tolist()
    Mref, Pcref, Tcref, omref = (fm._ref[k] for k in ('M', 'Pc', 'Tc', 'omega'))
    res['M'] = Mref.tolist()
    res['object_M'] = fm.M.tolist()
    res['ref_mismatch'] = list(fm._ref_mismatch)
    nz = m > 0.
    moles = m / Mref
    z = moles / np.sum(moles)
    res['z'] = z.tolist()
    # fugacities of the feed in both EOS rows
    gz, lfz = _gibbs_rows(fm, z, T, P)
    res['gibbs_feed'] = gz
    res['feed_fug_finite'] = [bool(np.all(np.isfinite(lfz[r][nz]))) for r in (0, 1)]
    if not np.all(np.isfinite(mm)):
        return res
    # successive_substitution must hand back the rows / gas fraction of gas_liq_eq for the K it returns (l.3084)
    if rec.get('ss') is not None and rec.get('mm') is not None:
        ssr = rec['ss']
        Kss = np.array(ssr['K'], dtype=float)
        res['K_has_zero_or_denormal'] = bool(np.any((Kss == 0.) | ((np.abs(Kss) < 2.3e-308) & (Kss != 0.))))
        try:
            with np.errstate(all='ignore'):
                xi2, b2 = call_with_budget(lambda: _W['orig']['gle'](np.array(rec['mm']['m']), np.array(rec['mm']['M']), Kss), 5.)
            res['ss_consistent'] = bool(np.array_equal(np.asarray(xi2, dtype=float), np.array(ssr['xi'], dtype=float), equal_nan=True)
                                        and (float(b2) == ssr['beta'] or (math.isnan(float(b2)) and math.isnan(ssr['beta']))))
        except _Timeout:
            res['ss_consistent'] = None
    gas_mass, liq_mass = float(np.sum(mm[0])), float(np.sum(mm[1]))
    two = gas_mass > 0. and liq_mass > 0.
    res['two'] = two
    # a "two-phase" result whose phases are identical (trivial solution K = 1) is ALSO put through the single-phase clauses
    trivial = bool(two and np.all(np.abs(xi[0][nz] - xi[1][nz]) <= 1e-12))
    res['trivial'] = trivial
    if two:
        with np.errstate(all='ignore'):
            fg = fm.fugacity(mm[0], T, P)[0]
            fl = fm.fugacity(mm[1], T, P)[1]
        res['f_gas'], res['f_liq'] = fg.tolist(), fl.tolist()
        if not trivial:
            return res
    row = 0 if gas_mass > 0. else 1
    if trivial:
        row = 0
        res['liquid_mass_fraction'] = liq_mass / (gas_mass + liq_mass)
    res['row'] = row
    # compressibility of the feed in the labelled row and pseudo-reduced pressure
    with np.errstate(all='ignore'):
        rho = float(fm.density(m, T, P)[row, 0])
    Mbar = float(np.sum(m) / np.sum(moles))
    res['Z'] = P * Mbar / (rho * 8.314510 * T) if rho > 0. else float('nan')
    res['Pr'] = P / float(np.sum(z * Pcref))
    # tangent-plane distances: reference = the feed at its lower-Gibbs root
    fin = [math.isfinite(gz[0]), math.isfinite(gz[1])]
    if not (fin[0] or fin[1]):
        res['tpd'] = None
        return res
    refrow = 0 if (fin[0] and (not fin[1] or gz[0] <= gz[1])) else 1
    ref = lfz[refrow]
    import random
    r = random.Random(trial_seed)
    idx = np.where(nz)[0]
    zz = z[idx]
    with np.errstate(all='ignore'):
        Kw = np.exp(5.37 * (1. + omref) * (1. - Tcref / T)) / (P / Pcref)
    trials = []
    for w in (Kw * z, z / Kw):
        s = float(np.sum(w))
        if s > 0. and math.isfinite(s):
            trials.append(('wilson', w / s))
    for k in range(20):
        w = np.zeros(len(z))
        if k % 2 == 0:
            d = zz * np.exp(r.uniform(0.01, 3.) * np.array([r.uniform(-1., 1.) for _ in idx]))
        elif k % 4 == 1 and len(idx) > 1:
            d = np.full(len(idx), 0.02 / (len(idx) - 1))
            d[r.randrange(len(idx))] = 0.98
        else:
            d = np.array(scen_mix.dirichlet(r, len(idx), r.choice([0.3, 1., 3.])))
        w[idx] = d / np.sum(d)
        trials.append(('random', w))
    tmin, targ, ntr, nskip = _tpd_search(fm, trials, ref, T, P, 15)
    res['tpd'] = {'min': tmin, 'arg': targ, 'n': ntr, 'skipped': nskip}
    if tmin < -TPD_NEG:
        res['drifted_K_signature'] = _drifted_K_signature(fm, rec, z, nz, ref, Kw, T, P)
    return res


def _tpd_search(fm, trials, ref, T, P, niter):
    """the harness's own tangent-plane evaluation: 'wilson'/'start' trials are followed along Michelsen's fixed-point map
    W <- w exp(ln f(z) - ln f(w)) (niter iterates, each one a trial composition), 'random' trials are evaluated as they are.
    Uses FluidMixture.fugacity as the equation of state only.  Returns (min tpd, where, trials evaluated, trials skipped)"""
    tmin, targ, nskip, ntr = 0., None, 0, 0
    for kind, w0 in trials:
        w = w0
        for it in range(1 if kind == 'random' else niter):
            ntr += 1
            gw, lfw = _gibbs_rows(fm, w, T, P)
            fw = [math.isfinite(gw[0]), math.isfinite(gw[1])]
            if not (fw[0] or fw[1]):
                nskip += 1
                break
            rw = 0 if (fw[0] and (not fw[1] or gw[0] <= gw[1])) else 1
            wz = w > 0.
            tpd = float(np.sum(w[wz] * (lfw[rw][wz] - ref[wz])))
            if math.isfinite(tpd) and tpd < tmin:
                tmin, targ = tpd, (kind + ':%d' % it, w.tolist())
            with np.errstate(all='ignore'):
                Wn = np.zeros(len(w))
                Wn[wz] = w[wz] * np.exp(ref[wz] - lfw[rw][wz])
            sW = float(np.sum(Wn))
            if not (math.isfinite(sW) and sW > 0.):
                break
            wn = Wn / sW
            if float(np.max(np.abs(wn - w))) < 1e-13:
                break
            w = wn
    return tmin, targ, ntr, nskip


def _drifted_K_signature(fm, rec, z, nz, ref, Kw, T, P):
    """HARNESS-SIDE signature of the recorded finding "equil_MM hands the K drifted by successive substitution to the stability
    test" (known_findings.txt), decided without running any of the code's flash routines:
      (a) recorder: the flash ended with a stability_analysis call that reported ONE phase, and the K it was given is the K the
          preceding successive_substitution call returned (not the Wilson estimate);
      (b) the harness's own tangent-plane iteration started from exactly those trial phases (K z and z / K, up to 300 iterates)
          finds NO negative tangent-plane distance — a correct stability test started there finds nothing either;
      (c) the harness's own iteration started from the Wilson trial phases does find one (that is why we are here).
    A new defect (stability test skipped, inverted, its verdict overridden, clean-up forcing beta) fails (a) or (b)."""
    out = {'a_last_event_is_one_phase_stability_test_on_drifted_K': False, 'b_own_search_from_that_K_finds_nothing': None, 'min_tpd_from_that_K': None}
    kin = rec.get('sa_K_in')
    ssk = (rec.get('ss') or {}).get('K')
    if not (rec.get('last') == 'sa' and rec.get('sa_phases') == 1 and kin is not None and ssk is not None):
        return out
    kin = np.array(kin, dtype=float)
    kw = Kw[nz]
    if not (len(kin) == int(np.sum(nz)) and np.all(np.isfinite(kin)) and np.all(kin > 0.)
            and np.array_equal(kin, np.array(ssk, dtype=float)) and not np.allclose(kin, kw, rtol=1e-6, atol=0.)):
        return out
    out['a_last_event_is_one_phase_stability_test_on_drifted_K'] = True
    Kfull = np.ones(len(z))
    Kfull[nz] = kin
    trials = []
    for w in (Kfull * z, z / Kfull):
        sw = float(np.sum(w))
        if sw > 0. and math.isfinite(sw):
            trials.append(('start', w / sw))
    tmin, _arg, _n, _s = _tpd_search(fm, trials, ref, T, P, 300)
    out['min_tpd_from_that_K'] = tmin
    out['b_own_search_from_that_K_finds_nothing'] = bool(tmin >= -TPD_NEG)
    if tmin < -TPD_NEG:
        # second recorded mechanism: find_W stops when the SQUARED relative step of W falls below 1.49012e-8, which a slowly moving
        # iteration satisfies far from its stationary point.  Harness-side replica of that rule on the harness's own iteration
        # (W_new = w exp(ln f(z) - ln f(w)) is the code's un-normalised W): does it halt, for BOTH starts, at a point whose modified
        # tangent-plane distance is still >= 0 (or at the trivial point), although the continued iteration goes negative?
        halts = []
        for W in (Kfull * z, z / Kfull):
            halted = None
            for it in range(300):
                sw = float(np.sum(W))
                if not (sw > 0. and math.isfinite(sw)):
                    break
                w = W / sw
                gw, lfw = _gibbs_rows(fm, w, T, P)
                row = halts.__len__()          # the code uses the gas row for the first trial, the liquid row for the second
                wz = w > 0.
                if not np.all(np.isfinite(lfw[row][wz])):
                    break
                Wn = np.zeros(len(w))
                Wn[wz] = w[wz] * np.exp(ref[wz] - lfw[row][wz])
                with np.errstate(all='ignore'):
                    err = float(np.nansum((Wn[wz] - W[wz]) ** 2 / (Wn[wz] * W[wz])))
                W = Wn
                if not err > 1.49012e-8:
                    swn = float(np.sum(W))
                    wn = W / swn
                    _g, lfn = _gibbs_rows(fm, wn, T, P)
                    tm = 1. + float(np.sum(W[wz] * (math.log(swn) + lfn[row][wz] - ref[wz] - 1.)))
                    trivial = bool(np.all(np.abs(W[wz] - z[wz]) <= 1e-5))
                    halted = {'iterations': it + 1, 'tm': tm, 'trivial': trivial}
                    break
            halts.append(halted)
        out['replica_of_find_W_stop_rule'] = halts
        out['c_stop_rule_halts_both_trials_before_any_negative_distance'] = bool(
            len(halts) == 2 and all(h is not None and (h['tm'] >= 0. or h['trivial']) for h in halts) and any(h['iterations'] <= 5 for h in halts))
    return out


# =============================================================================================
# part B — parent side: generation, correspondence, predicates
# =============================================================================================

def gen_feeds(ctx):
    r = ctx.rng
    n = ctx.n(1000, 10000)
    jobs = []
    # pure compounds (single-component feeds are a fixed share: they exercise both clean-up branches)
    pool = scen_mix.nonaqueous(EXCLUDE)
    for c in r.sample(pool, ctx.n(6, len(pool))):
        T, P = scen_mix.state(r)
        jobs.append({'composition': [c], 'm': [scen_mix.log_uniform(r, 1e-6, 1e2)], 'T': T, 'P': P, 'K0': None, 'tag': 'pure'})
    # McCain example 15-2 (the one case of the repo's suite)
    jobs.append({'composition': ['methane', 'n-butane', 'n-decane'], 'm': [0.5301 * 16.04e-3, 0.1055 * 58.12e-3, 0.3644 * 142.28e-3],
                 'T': 344.26, 'P': 6894757., 'K0': None, 'tag': 'mccain'})
    # dense supercritical gas mixtures (single-root states; the two fixed ones were found by the random search)
    jobs.append({'composition': ['oxygen', 'argon'], 'm': [2.472331004328208e-05, 3.239357385468001e-05], 'T': 326.68242668610895,
                 'P': 5904622.087575287, 'K0': None, 'tag': 'supercritical'})
    jobs.append({'composition': ['methane', 'argon'], 'm': [0.354271167501782, 0.00046553454931926475], 'T': 361.65053273854073,
                 'P': 17509328.78543206, 'K0': None, 'tag': 'supercritical'})
    # near-ideal gas mixture returned as two identical phases (found by the random search; known finding ideal-gas-partly-in-liquid-row)
    jobs.append({'composition': ['oxygen', 'carbon_monoxide'], 'm': [5.776686808454653e-05, 4.739849259855361e-05],
                 'T': 351.09204744282795, 'P': 641198.893777722, 'K0': None, 'tag': 'supercritical'})
    # unstable feed reported as one phase, no hydrogen (found by the pressure-ladder search; same mechanism as the hydrogen-rich one below)
    jobs.append({'composition': ['carbon_monoxide', 'carbon_dioxide', 'sulfure_dioxide'],
                 'm': [0.0013142110328569028, 0.0007748305974074905, 0.0005505485573648101], 'T': 276.42880859711073, 'P': 36899640.11949039,
                 'K0': None, 'tag': 'supercritical'})
    # unstable feed reported as one phase because find_W's stop rule halts the stability iteration after 1-2 steps (found by the random search)
    jobs.append({'composition': ['n-hexane', 'hydrogen', 'carbon_dioxide', 'carbon_monoxide', 'sulfure_dioxide'],
                 'm': [9.760608639599061e-05, 0.001352275950284506, 0.000330265596207664, 0.0005457980144559225, 0.0012894363466453389],
                 'T': 271.1149813679296, 'P': 36685500.165810615, 'K0': None, 'tag': 'hydrogen-rich'})
    # hydrogen-rich feeds at high pressure (the fixed one was found by the random search: reported as one phase, unstable)
    jobs.append({'composition': ['neohexane', 'n-decane', 'n-hexane', 'hydrogen', 'hydrogen_sulfide'],
                 'm': [0.14833924978240257, 0.014147196942160328, 0.5268357381769898, 0.9705940146954938, 1.3586451787102498],
                 'T': 288.59239492044503, 'P': 44604072.833551995, 'K0': None, 'tag': 'hydrogen-rich'})
    heavier = [c for c in pool if c not in scen_mix.LIGHT]
    for _ in range(ctx.n(10, 300)):
        names = ['hydrogen'] + r.sample(heavier, r.randint(1, 4))
        r.shuffle(names)
        zt = scen_mix.dirichlet(r, len(names) - 1, 1.0)
        zh = r.uniform(0.5, 0.98)
        fmtmp = _fm(names)
        zz = [zh if nme == 'hydrogen' else None for nme in names]
        it = iter(zt)
        zz = [x if x is not None else (1. - zh) * next(it) for x in zz]
        mass = [a * float(b) for a, b in zip(zz, fmtmp.M)]
        tot = scen_mix.log_uniform(r, 1e-6, 1e2) / sum(mass)
        jobs.append({'composition': names, 'm': [x * tot for x in mass], 'T': r.uniform(270., 420.),
                     'P': scen_mix.log_uniform(r, 1e7, 5e7), 'K0': None, 'tag': 'hydrogen-rich'})
    gases = ['oxygen', 'argon', 'nitrogen', 'carbon_monoxide', 'methane']
    for _ in range(ctx.n(20, 600)):
        names = r.sample(gases, r.randint(2, 4))
        jobs.append({'composition': names, 'm': scen_mix.feed_masses(r, len(names)), 'T': r.uniform(270., 420.),
                     'P': scen_mix.log_uniform(r, 2e6, 5e7), 'K0': None, 'tag': 'supercritical'})
    while len(jobs) < n:
        c = scen_mix.flash_case(r, exclude=EXCLUDE)
        c['tag'] = 'random'
        jobs.append(c)
    return jobs


def _key(c):
    return ('flash', tuple(c['composition']), tuple(float('%.12g' % x) for x in c['m']), float('%.12g' % c['T']), float('%.12g' % c['P']),
            c['K0'] is not None)


def _pool_map(ctx, jobs, budget):
    """evaluate feeds on the real code; several processes (the flash is pure Python)"""
    seeds = [ctx.rng.randrange(1 << 30) for _ in jobs]
    payload = [({k: v for k, v in j.items() if k != 'ref'}, budget, s) for j, s in zip(jobs, seeds)]
    nproc = int(os.environ.get('VERIF_PROCS', '0') or 0) or min(8, max(1, (os.cpu_count() or 2) // 2))
    if nproc <= 1 or len(payload) < 8:
        return [eval_feed(p) for p in payload]
    import multiprocessing as mp
    with mp.get_context('fork').Pool(nproc) as pool:
        return pool.map(eval_feed, payload, chunksize=max(1, len(payload) // (nproc * 8)))


def check_feed(ctx, res, lines, line_owner):
    """property predicates on ONE real result; appends driver requests for the correspondence"""
    c = res['case']
    case = {k: c[k] for k in ('composition', 'm', 'T', 'P', 'K0')}
    ctx.evaluations += 1
    ctx.nontrivial.add(_key(c))
    ctx.count('flash:feeds')
    ctx.count('flash:tag:' + str(c.get('tag')))
    if res['status'] == 'slow':
        ctx.count('flash:budget-exceeded(not evaluated)')
        return 'slow'
    if res['status'] == 'exception':
        ctx.violation('equilibrium-raises', 'FluidMixture.equilibrium raised on a valid feed: ' + res['error'], case)
        return 'exception'
    m = np.array(c['m'], dtype=float)
    M = np.array(res['M'])
    mm = np.array(res['mm'])
    xi = np.array(res['xi'])
    K = np.array(res['K'])
    n = len(m)
    nz = m > 0.
    ctx.count('flash:n=%d' % n)
    if np.any(~nz):
        ctx.count('flash:with-zero-mass-components')
    rec = res['rec']
    if res.get('ref_mismatch'):
        ctx.violation('object-constants-differ-from-ChemData', 'FluidMixture.%s differs from the SI value read independently from tamoc/data/ChemData.csv'
                      % '/'.join(res['ref_mismatch']), dict(case, object_M=res['object_M'], ChemData_M=res['M']))
    if rec.get('mm') is not None and not close(list(rec['mm']['M']), list(np.array(res['M'])[nz]), 1e-9):
        ctx.violation('equil_MM-called-with-wrong-molar-masses', 'the molar masses handed to equil_MM are not those of the non-zero components in ChemData.csv',
                      dict(case, M_given=rec['mm']['M'], ChemData_M=list(np.array(res['M'])[nz])))
    if 'ss_consistent' in res:
        ctx.count('flash:ss-rows-compared-with-gas_liq_eq')
        if res['ss_consistent'] is False:
            ctx.violation('ss-rows-not-from-returned-K', 'successive_substitution returned rows / gas fraction that are not gas_liq_eq(m, M, K) of the K it returned',
                          dict(case, last_successive_substitution=rec['ss']))
        if res.get('K_has_zero_or_denormal'):
            ctx.count('flash:last-K-has-zero-or-denormal-entry')
    # ---- correspondence requests (answered by the Lean model through the driver) ---------------------------------
    mmr = rec.get('mm')
    if mmr is not None:
        lines.append(req('Flash.reduce', m, m))
        line_owner.append((res, 'reduce-m'))
        lines.append(req('Flash.reduce', m, M))
        line_owner.append((res, 'reduce-M'))
        if c.get('K0') is not None and mmr.get('K0') is not None and np.all(np.isfinite(c['K0'])):
            lines.append(req('Flash.reduce', m, c['K0']))
            line_owner.append((res, 'reduce-K0'))
        if rec.get('ss') is not None:
            ss = rec['ss']
            zred = (np.array(mmr['m']) / np.array(mmr['M']))
            zred = zred / np.sum(zred)
            conv = 1 if (rec['last'] == 'ss' and ss['flag'] == 1) else 0
            knan = 1 if np.any(np.isnan(ss['K'])) else 0
            lines.append(req('Flash.equilMMEnd', zred, conv, ss['xi'][0], ss['xi'][1], ss['beta'], knan, [] if knan else ss['K']))
            line_owner.append((res, 'mm-end'))
        knan = 1 if np.isnan(mmr['K'][0]) else 0
        lines.append(req('Flash.equilibriumPost', m, M, mmr['xi'][0], mmr['xi'][1], mmr['beta'], knan, [] if knan else mmr['K']))
        line_owner.append((res, 'post'))
    if rec.get('gle') is not None and np.all(np.isfinite(rec['gle']['K'])) and np.all(np.array(rec['gle']['K']) > 0.):
        g = rec['gle']
        lines.append(req('Flash.gasLiqEq', g['m'], g['M'], g['K'], FUEL))
        line_owner.append((res, 'gle'))
    # ---- predicates ------------------------------------------------------------------------------------------------
    feed_nan = not (res['feed_fug_finite'][0] and res['feed_fug_finite'][1])
    # two known mechanisms behind a failing back-conversion get their own keys (site: dbm.py l.706-710, gas moles from
    # component idx alone, divided by xi[0,idx] - xi[1,idx])
    Kk = K[nz]
    if len(Kk) and np.all(np.isfinite(Kk)) and float(np.max(np.abs(Kk - 1.))) < 1e-6:
        mech = ('trivial-solution-K=1', 'successive substitution returned the trivial solution K = 1 (identical phases) as a two-phase result; ')
    elif len(Kk) and np.isfinite(Kk[0]) and abs(float(Kk[0]) - 1.) < 1e-6:
        mech = ('ng-first-component-K=1', 'the first non-zero component has K = 1 (gas moles are taken from that component alone, l.706-710); ')
    else:
        mech = None
    finite = bool(np.all(np.isfinite(mm)))
    if mech is not None:
        bad = (not finite) or bool(np.any(mm < 0.)) or bool(np.any(np.abs(mm[0] + mm[1] - m) > TOL['identity'] * (np.abs(mm[0]) + np.abs(mm[1]) + np.abs(m))))
        if bad:
            ctx.violation(mech[0], mech[1] + 'equilibrium returned ' + ('non-finite' if not finite else 'negative / non-conserving') + ' phase masses',
                          dict(case, masses=mm.tolist(), xi=xi.tolist(), K=K.tolist()))
            return 'bad-back-conversion'
    if not finite:
        if feed_nan:
            ctx.count('flash:skipped(EOS returns NaN fugacity for the feed; C01 matter)')
            return 'eos-nan'
        ctx.violation('non-finite-phase-masses', 'equilibrium returned non-finite phase masses although the EOS is finite for the feed',
                      dict(case, masses=mm.tolist(), K=K.tolist()))
        return 'nan'
    if np.any(mm < 0.):
        ctx.violation('negative-phase-mass', 'a phase mass is negative', dict(case, masses=mm.tolist(), K=K.tolist()))
    for i in range(n):
        s = abs(mm[0, i]) + abs(mm[1, i]) + abs(m[i])
        if not abs(mm[0, i] + mm[1, i] - m[i]) <= TOL['identity'] * s + 1e-300:
            ctx.violation('component-mass-not-conserved', 'm_gas,i + m_liq,i differs from the feed mass of component i',
                          dict(case, i=i, masses=mm.tolist(), K=K.tolist(), relative_defect=float((mm[0, i] + mm[1, i] - m[i]) / s)))
            break
    if np.any(mm[:, ~nz] != 0.) or np.any(xi[:, ~nz] != 0.):
        ctx.violation('zero-component-not-zero', 'a zero-mass component of the feed has mass or mole fraction in a phase', dict(case, masses=mm.tolist(), xi=xi.tolist()))
    if np.any(xi < 0.) or np.any(xi > 1. + 1e-12):
        ctx.violation('mole-fraction-out-of-range', 'a returned mole fraction is outside [0,1]', dict(case, xi=xi.tolist()))
    if rec.get('n_sa', 0) > 0:
        ctx.count('flash:stability-decided:' + ('two-phase' if res['two'] else 'single-phase'))
    if res['two']:
        ctx.count('flash:two-phase')
        if np.any(np.isnan(K)):
            ctx.violation('K-nan-in-two-phase', 'two phases carry mass but the reported K is NaN', dict(case, masses=mm.tolist(), K=K.tolist()))
            return 'two'
        for i in np.where(nz)[0]:
            if not close(float(xi[0, i]), float(K[i] * xi[1, i]), TOL['identity']):
                ctx.violation('xgas-ne-K-xliq', 'reported x_gas,i differs from K_i x_liq,i', dict(case, i=int(i), xi=xi.tolist(), K=K.tolist()))
                break
            if not (xi[1, i] > 0. and close(float(K[i]), float(xi[0, i] / xi[1, i]), TOL['identity'])):
                ctx.violation('K-ne-ratio', 'reported K_i differs from x_gas,i / x_liq,i', dict(case, i=int(i), xi=xi.tolist(), K=K.tolist()))
                break
        if np.any(K[~nz] != 0.):
            ctx.violation('K-of-zero-component', 'reported K of a zero-mass component is not 0', dict(case, K=K.tolist()))
        # rows sum to one up to the Rachford-Rice tolerance (both phases present)
        zr = (m[nz] / M[nz]) / np.sum(m[nz] / M[nz])
        beta_est = float(np.sum(mm[0] / M) / np.sum(m / M))
        d = 1. + beta_est * (K[nz] - 1.)
        gp = float(np.sum(zr * (K[nz] - 1.) ** 2 / d ** 2))
        dev = max(abs(float(np.sum(xi[0])) - 1.), abs(float(np.sum(xi[1])) - 1.))
        if not dev <= 2. * TOL['rr_beta'] * max(1., gp):
            ctx.violation('phase-composition-sum', 'a present phase composition does not sum to one within the Rachford-Rice tolerance',
                          dict(case, sums=[float(np.sum(xi[0])), float(np.sum(xi[1]))], gp=gp))
        # xi rows are the mole fractions of the returned phase masses
        for rrow in (0, 1):
            nn = mm[rrow] / M
            xf = nn / np.sum(nn)
            if not np.all(np.abs(xf - xi[rrow]) <= (dev + TOL['identity']) * 2.):
                ctx.violation('xi-inconsistent-with-masses', 'returned mole fractions are not those of the returned phase masses',
                              dict(case, row=rrow, xi=xi.tolist(), masses=mm.tolist()))
        # isofugacity: a TEST of the converged real output at the flash tolerance (successive_substitution is not modelled)
        fg, fl = np.array(res['f_gas']), np.array(res['f_liq'])
        if not (np.all(np.isfinite(fg[nz])) and np.all(np.isfinite(fl[nz])) and np.all(fl[nz] > 0.)):
            ctx.count('flash:skipped-isofugacity(EOS returns NaN; C01 matter)')
        else:
            ratio = fg[nz] / fl[nz]
            w = float(np.max(np.abs(ratio - 1.)))
            res['iso'] = w
            ctx.count('flash:isofugacity-evaluated')
            if not w <= TOL['flash_fugacity']:
                ctx.violation('isofugacity', 'gas and liquid fugacity of a component differ by more than the flash tolerance',
                              dict(case, worst_ratio_minus_1=w, f_gas=fg.tolist(), f_liq=fl.tolist(), K=K.tolist()))
        if not res.get('trivial'):
            return 'two'
        # identical phases (trivial solution K = 1 reported as two phases): physically ONE phase, so the single-phase clauses
        # of the property (stability, placement) are evaluated as well
        ctx.count('flash:trivial-two-phase(x_gas == x_liq within 1e-12)')
        single_phase_clauses(ctx, res, case, None)
        return 'trivial-two'
    # ---- one phase reported ------------------------------------------------------------------------------------------
    row = res['row']
    ctx.count('flash:single-' + ('gas' if row == 0 else 'liquid'))
    if rec.get('n_sa', 0) == 0:
        ctx.count('flash:single-phase-labelled-without-stability_analysis')
    other = 1 - row
    if not np.all(np.isnan(K)):
        ctx.violation('K-not-nan-in-single-phase', 'one phase reported but K is not the NaN vector', dict(case, K=K.tolist()))
    if np.any(mm[other] != 0.) or np.any(xi[other] != 0.):
        ctx.violation('absent-phase-not-empty', 'the absent phase row is not identically zero', dict(case, masses=mm.tolist(), xi=xi.tolist()))
    z = np.array(res['z'])
    if not close(list(xi[row]), list(z), TOL['identity']):
        ctx.violation('single-phase-composition', 'the present phase composition is not the feed composition', dict(case, xi=xi.tolist(), z=z.tolist()))
    if not abs(float(np.sum(xi[row])) - 1.) <= TOL['identity'] * n:
        ctx.violation('phase-composition-sum', 'the present phase composition does not sum to one', dict(case, xi=xi.tolist()))
    single_phase_clauses(ctx, res, case, row)
    return 'single'


def single_phase_clauses(ctx, res, case, row):
    """the TESTS the property attaches to a one-phase outcome: placement by Gibbs energy (gas row for a near-ideal single-root
    state) and stability (no negative tangent-plane distance).  row = 0/1 for a reported single phase, None for identical
    phases reported as two (then some of the feed sits in the liquid row)"""
    c = res['case']
    nzn = int(np.sum(np.array(c['m']) > 0.))
    z = np.array(res['z'])
    g = res['gibbs_feed']
    feed_nan = not (res['feed_fug_finite'][0] and res['feed_fug_finite'][1])
    if feed_nan or not (math.isfinite(g[0]) and math.isfinite(g[1])):
        ctx.count('flash:skipped-label-test(EOS returns NaN for one root of the feed; C01 matter)')
        single_root = None
    else:
        single_root = abs(g[0] - g[1]) <= 1e-12 * max(1., abs(g[0]), abs(g[1]))
        ctx.count('flash:single-root' if single_root else 'flash:three-roots')
    if single_root is None:
        pass
    elif not single_root:
        better = 0 if g[0] < g[1] else 1
        if row is not None and better != row and abs(g[0] - g[1]) > 1e-9 * max(1., abs(g[0]), abs(g[1])):
            ctx.violation('label-not-lower-gibbs', 'single-phase feed placed in the row of the EOS root with the HIGHER Gibbs energy',
                          dict(case, row=row, gibbs_gas_row=g[0], gibbs_liq_row=g[1]))
        if row is None and abs(g[0] - g[1]) > 1e-9 * max(1., abs(g[0]), abs(g[1])):
            ctx.violation('identical-phases-in-both-rows', 'identical phases reported in BOTH rows although the two EOS roots of the feed differ in Gibbs energy',
                          dict(case, gibbs_gas_row=g[0], gibbs_liq_row=g[1], liquid_mass_fraction=res.get('liquid_mass_fraction')))
    else:
        if res['Z'] >= Z_IDEAL and res['Pr'] <= PR_LOW:
            if row == 1:
                # the ONLY situation filed under this key: single-root state, Z >= 0.95, P/Ppc <= 0.2, all of the feed in the liquid row
                ctx.count('flash:ideal-gas-in-liquid-row:' + ('pure' if nzn == 1 else 'mixture'))
                ctx.violation('single-root-ideal-gas-in-liquid-row', 'single-root state of near-ideal compressibility at low reduced pressure placed in the LIQUID row',
                              dict(case, Z=res['Z'], reduced_pressure=res['Pr']))
            elif row is None:
                # two IDENTICAL phases reported (trivial split, K = 1 +- ulp): conservation, isofugacity and K = ratio all hold and
                # the property's single-phase clauses do not apply, so this is an observation, not a violation (see DESIGN §9.7)
                ctx.count('flash:observation:near-ideal-gas-reported-as-two-identical-phases')
    t = res.get('tpd')
    if t is not None:
        ctx.count('flash:tpd-trials', t['n'] - t['skipped'])
        if t['min'] < -TPD_NEG:
            # the two listed keys are reserved for the recorded mechanism (equil_MM l.2616 starts the stability test from the drifted K),
            # recognised by a HARNESS-SIDE signature (_drifted_K_signature: recorder + own tangent-plane search, none of the code's
            # flash routines); everything else is a fresh violation under the generic key
            sig = res.get('drifted_K_signature') or {}
            zh = float(z[c['composition'].index('hydrogen')]) if 'hydrogen' in c['composition'] else 0.
            signature = bool(sig.get('a_last_event_is_one_phase_stability_test_on_drifted_K') and sig.get('b_own_search_from_that_K_finds_nothing'))
            specific = signature and zh >= 0.5 and c['P'] >= 3e7
            ctx.count('flash:negative-tpd:' + ('signature-of-the-recorded-finding(drifted-K start, own search from it finds nothing)' if signature
                                               else 'NO-signature(fresh violation)'))
            early = bool(sig.get('a_last_event_is_one_phase_stability_test_on_drifted_K') and sig.get('c_stop_rule_halts_both_trials_before_any_negative_distance'))
            if early:
                ctx.count('flash:negative-tpd:signature-find_W-stop-rule-halts-early')
            key = ('unstable-single-phase-hydrogen-rich-high-pressure' if specific else
                   'unstable-single-phase-stability-test-started-from-drifted-K' if signature else
                   'unstable-single-phase-stability-iteration-stopped-early' if early else 'negative-tangent-plane-distance')
            if c.get('K0') is not None and not res.get('warm_identical'):
                # a warm-started flash whose result is NOT the cold result: the two known mechanisms above are findings about the cold
                # start (Wilson K); an unstable one-phase answer produced from a caller-supplied K is reported on its own
                key = 'warm-start:negative-tangent-plane-distance'
            ctx.violation(key,
                          'a trial composition has a negative tangent-plane distance from a feed reported as one phase',
                          dict(case, row=row, tpd=t['min'], trial=t['arg'], drifted_K_signature=sig))


def boundary_feeds(ctx):
    """feeds next to a phase boundary: bisection in P (on the real code, in this process) between a one-phase and a two-phase
    outcome; the two states across the boundary join the ordinary flash jobs (same predicates, same correspondence)"""
    r = ctx.rng
    t_start, t_max, call_budget = time.time(), ctx.n(20., 300.), ctx.n(1.0, 3.0)
    jobs = []
    tries = 0
    while len(jobs) < ctx.n(16, 240) and tries < ctx.n(60, 1200) and time.time() - t_start < t_max:
        tries += 1
        names = scen_mix.pick_mixture(r, 2, 5, EXCLUDE, want_light=True)
        fm = _fm(names)
        ma = np.array(scen_mix.feed_masses(r, len(names), 1e-3, 1e1))
        T = r.uniform(270., 420.)

        def two(P):
            with np.errstate(all='ignore'):
                mm = call_with_budget(lambda: fm.equilibrium(ma, T, P), call_budget)[0]
            return bool(np.sum(mm[0]) > 0. and np.sum(mm[1]) > 0.)
        try:
            Ps = np.exp(np.linspace(math.log(1e5), math.log(5e7), 12))
            vals = [two(P) for P in Ps]
            br = [(a, b) for a, b, va, vb in zip(Ps[:-1], Ps[1:], vals[:-1], vals[1:]) if va != vb]
            if not br:
                continue
            a, b = r.choice(br)
            fa = two(a)
            lo, hi = bisect_P(lambda P: two(P) == fa, a, b, nmax=r.choice([8, 20, 60]))
        except _Timeout:
            ctx.count('boundary-search:budget-exceeded')
            continue
        for P in (lo, hi):
            jobs.append({'composition': names, 'm': ma.tolist(), 'T': T, 'P': float(P), 'K0': None, 'tag': 'boundary'})
    return jobs


WARM = {}                  # warm-start record of the run, copied into the evidence by extra()
STAB_BETA_MARGIN = 0.02   # a base feed counts as "away from a phase boundary" when 0.02 <= beta <= 0.98
TRACE_BETA_TOL = 5e-2     # allowed change of beta under a trace perturbation (<= 1e-6 of the feed mass): dominated by the flash's own
                          # stopping tolerance near critical states, not by continuity: measured on the unchanged tree over 1024 pairs of
                          # the thorough tier the worst difference is 0.0132 (55 pairs above 2e-3); the tolerance is about 4 x that


def scan_worker(job):
    """one composition, a ladder of pressures: which states are two-phase AND were decided by the stability analysis (the
    recorder of stability_analysis saw a call during that flash)?  Light: no predicates here, the states found are re-run in full"""
    warnings.simplefilter('ignore')
    _install_recorders()
    names, m, T, Ps, budget = job
    fm = _fm(names)
    out = []
    for P in Ps:
        rec = {'n_ss': 0, 'n_sa': 0, 'n_gle': 0, 'last': None}
        _W['rec'] = rec
        try:
            with np.errstate(all='ignore'):
                mm = call_with_budget(lambda: fm.equilibrium(np.array(m), T, P), budget)[0]
            two = bool(np.all(np.isfinite(mm)) and np.sum(mm[0]) > 0. and np.sum(mm[1]) > 0.)
            out.append((P, two, rec['n_sa'], rec['mm']['beta'] if rec.get('mm') else None))
        except _Timeout:
            out.append((P, None, None, None))
        except Exception:          # reported by the full run of the same feed family, not here
            out.append((P, None, None, None))
        finally:
            _W['rec'] = None
    return out


def stability_decided_feeds(ctx):
    """targeted generation of feeds whose outcome is DECIDED by the stability analysis (successive substitution from the Wilson
    start collapses to beta = 0 or 1, the stability test finds the instability): pressure ladders 8-50 MPa at fixed composition,
    seed family CO2 / N2 / alkane at 290-320 K plus light-gas / heavier-compound mixtures at 270-420 K.  Returns ordinary flash
    jobs for the states found (plus two neighbours in P each)."""
    r = ctx.rng
    pool = scen_mix.nonaqueous(EXCLUDE)
    heavier = [c for c in pool if c not in scen_mix.LIGHT]
    ladders = []
    for k in range(ctx.n(240, 2400)):
        if k % 2 == 0:
            names = ['carbon_dioxide', 'nitrogen', r.choice(['n-hexane', 'n-pentane', 'n-heptane', 'n-butane', 'isopentane', 'n-decane'])]
            T = r.uniform(290., 320.)
        else:
            names = (r.sample(['nitrogen', 'methane', 'carbon_monoxide', 'oxygen', 'argon', 'carbon_dioxide', 'ethane'], r.randint(1, 2))
                     + r.sample(heavier, r.randint(1, 2)))
            T = r.uniform(270., 420.)
        r.shuffle(names)
        Ps = [float(x) for x in np.exp(np.linspace(math.log(8e6), math.log(5e7), 24))]
        ladders.append((names, scen_mix.feed_masses(r, len(names), 1e-3, 1e0, alpha=3.0), T, Ps, 1.0))
    nproc = int(os.environ.get('VERIF_PROCS', '0') or 0) or min(8, max(1, (os.cpu_count() or 2) // 2))
    import multiprocessing as mp
    with mp.get_context('fork').Pool(nproc) as pool_:
        scans = pool_.map(scan_worker, ladders, chunksize=4)
    jobs = []
    for (names, m, T, Ps, _b), sc in zip(ladders, scans):
        for P, two, nsa, beta in sc:
            ctx.count('stability-ladder:states')
            if two and nsa:
                ctx.count('stability-ladder:two-phase-decided-by-stability-analysis')
                for f in (1.0, 0.985, 1.015):
                    jobs.append({'composition': names, 'm': m, 'T': T, 'P': min(5e7, P * f), 'K0': None, 'tag': 'stability-decided'})
    return jobs


def _stability_decided(res):
    return res['status'] == 'ok' and res['rec'].get('n_sa', 0) > 0


def trace_variant_jobs(ctx, results):
    """for every two-phase result that the stability analysis decided (away from a phase boundary): (a) the same feed plus ONE extra
    database compound at a mass fraction 1e-10..1e-6, (b) the same feed with one existing component scaled down to such a trace,
    together with its reference (that component removed)"""
    r = ctx.rng
    pool = scen_mix.nonaqueous(EXCLUDE)
    bases = [x for x in results if _stability_decided(x) and x.get('two') and not x.get('trivial')
             and STAB_BETA_MARGIN <= x['rec']['mm']['beta'] <= 1. - STAB_BETA_MARGIN and len(x['case']['composition']) < 7]
    r.shuffle(bases)
    jobs = []
    for b in bases[:ctx.n(40, 800)]:
        c = b['case']
        m = list(c['m'])
        tot = sum(m)
        extra = r.choice([x for x in pool if x not in c['composition']])
        jobs.append({'composition': c['composition'] + [extra], 'm': m + [tot * 10 ** r.uniform(-10., -6.)], 'T': c['T'], 'P': c['P'], 'K0': None,
                     'tag': 'trace-added', 'ref': b})
        pos = [i for i, x in enumerate(m) if x > 0.]
        if len(pos) >= 3:
            j = r.choice(pos)
            m0 = list(m)
            m0[j] = 0.
            m1 = list(m)
            m1[j] = (tot - m[j]) * 10 ** r.uniform(-10., -6.)
            ref = {'composition': c['composition'], 'm': m0, 'T': c['T'], 'P': c['P'], 'K0': None, 'tag': 'trace-reference'}
            jobs.append(ref)
            jobs.append({'composition': c['composition'], 'm': m1, 'T': c['T'], 'P': c['P'], 'K0': None, 'tag': 'trace-scaled', 'ref_job': len(jobs) - 1})
    return jobs


def trace_metamorphic(ctx, trace_results):
    """a component present at <= 1e-6 of the feed mass cannot change the number of phases of a feed that is away from a phase
    boundary, nor move its gas fraction by more than the flash tolerance"""
    worst = 0.
    for i, res in enumerate(trace_results):
        c = res['case']
        if c['tag'] == 'trace-added':
            ref = c['ref']
        elif c['tag'] == 'trace-scaled':
            ref = trace_results[c['ref_job']]
        else:
            continue
        if res['status'] != 'ok' or ref['status'] != 'ok':
            ctx.count('flash:trace-pair:not-evaluated(time budget)')
            continue
        if not (ref.get('two') and not ref.get('trivial') and np.all(np.isfinite(ref['mm']))
                and STAB_BETA_MARGIN <= ref['rec']['mm']['beta'] <= 1. - STAB_BETA_MARGIN):
            ctx.count('flash:trace-pair:reference-not-two-phase-or-near-boundary(skipped)')
            continue
        ctx.count('flash:trace-pair:compared')
        if _stability_decided(ref):
            ctx.count('flash:trace-pair:compared(reference decided by the stability analysis)')
        rc = ref['case']
        case = {'composition': c['composition'], 'm': c['m'], 'T': c['T'], 'P': c['P'], 'K0': None,
                'reference_feed': {'composition': rc['composition'], 'm': rc['m']}, 'reference_beta': ref['rec']['mm']['beta'],
                'stability_analysis_calls': res['rec'].get('n_sa'), 'stability_analysis_last_phases': res['rec'].get('sa_phases')}
        if not np.all(np.isfinite(res['mm'])):
            continue
        if not res.get('two') or res.get('trivial'):
            ctx.violation('trace-component-changes-phase-count', 'a feed reported as two phases is reported as ONE phase when a component is present at '
                          '<= 1e-6 of the feed mass (reference away from a phase boundary)', dict(case, masses=res['mm']))
            continue
        db = abs(res['rec']['mm']['beta'] - ref['rec']['mm']['beta'])
        # beta is compared only where it is WELL CONDITIONED with respect to the K tolerance of the flash.  Successive substitution
        # stops on the squared relative step of K (1.49e-8, i.e. |dK/K| ~ 1e-4 per step), which bounds the isofugacity residual —
        # the property's clause — but not the distance to the fixed point when the iteration contracts slowly (near-critical states,
        # all K close to 1): there two converged-by-the-rule flashes of (almost) the same feed return K vectors a few 1e-3 apart, both
        # with equal fugacities to 1e-4, and beta = beta(K) moves by S * dlnK with
        #   S = sum_i z_i K_i / d_i^2  /  sum_i z_i (K_i - 1)^2 / d_i^2   (implicit derivative of the Rachford-Rice root, d_i = 1 + beta (K_i - 1)).
        # (triaged on nitrogen / CO2 / n-decane (+ 1e-8 hydrogen), 314.07 K, 39.37 MPa: beta 0.0205 vs 0.1385, S = 53, both results mass
        # conserving, |f_gas/f_liq - 1| < 9e-5, each further substitution step still moves beta by 1e-3..3e-3.)
        zr_ = np.array(ref['z'])
        nzr = zr_ > 0.
        Kr_ = np.array(ref['K'])[nzr]
        dr_ = 1. + ref['rec']['mm']['beta'] * (Kr_ - 1.)
        S = float(np.sum(zr_[nzr] * Kr_ / dr_ ** 2) / max(float(np.sum(zr_[nzr] * (Kr_ - 1.) ** 2 / dr_ ** 2)), 1e-300))
        if S * TOL['flash_fugacity'] > 1e-3:
            ctx.count('flash:trace-pair:beta-not-compared(ill-conditioned: S x 2e-4 > 1e-3)')
            continue
        ctx.count('flash:trace-pair:beta-compared')
        worst = max(worst, db)
        if not db <= TRACE_BETA_TOL:
            ctx.violation('trace-component-moves-gas-fraction', 'a component at <= 1e-6 of the feed mass moves the gas fraction by more than %g' % TRACE_BETA_TOL,
                          dict(case, beta=res['rec']['mm']['beta']))
    ctx.notes.append('trace variants: worst |beta(with trace) - beta(reference)| = %.3g (tolerance %g)' % (worst, TRACE_BETA_TOL))


def run_flash(ctx, lean_ok, dbm):
    budget = ctx.n(2.0, 5.0)
    jobs = gen_feeds(ctx) + boundary_feeds(ctx) + stability_decided_feeds(ctx)
    t0 = time.time()
    results = _pool_map(ctx, jobs, budget)
    # feeds whose outcome was DECIDED by the stability analysis, and their trace variants (metamorphic test)
    trace_jobs = trace_variant_jobs(ctx, results)
    trace_results = _pool_map(ctx, trace_jobs, budget)
    for j, x in zip(trace_jobs, trace_results):
        x['case'] = j
    results = results + trace_results
    # ---- warm start: a fixed share (>= 25 %, floor obligation) of the flash cases is repeated with a caller-supplied K vector ----------
    # On /repo the guard `isinstance(np.sum(K_0), type(np.nan))` (dbm.py l.2577) is True for every float array, so the supplied K is
    # replaced by the Wilson estimate and the warm result is bit-identical to the cold one (recorded, counted, in the evidence).  The K
    # vectors are passed all the same, and EVERY predicate of the property is evaluated on the warm result, so that the check notices
    # when the warm start becomes live.  warm == cold is NOT demanded (a live, correct warm start may differ within solver tolerance).
    r = ctx.rng
    cold_ok = [i for i, res in enumerate(results) if res['status'] == 'ok' and np.all(np.isfinite(res['mm']))]
    chosen = r.sample(cold_ok, min(len(cold_ok), int(0.35 * len(results)) + 1))
    # (a) needs the same feed's own K at ANOTHER state of the box: one auxiliary cold flash per such case
    kinds = {}
    aux_jobs, aux_of = [], {}
    for i in chosen:
        kinds[i] = r.choice(['other-state', 'other-state', 'log-uniform', 'log-uniform', 'perturbed', 'perturbed', 'nan-or-zeros'])
        if kinds[i] == 'other-state':
            c = results[i]['case']
            T2, P2 = scen_mix.state(r)
            aux_of[i] = len(aux_jobs)
            aux_jobs.append({'composition': c['composition'], 'm': c['m'], 'T': T2, 'P': P2, 'K0': None, 'tag': 'aux-other-state'})
    aux_results = _pool_map(ctx, aux_jobs, budget)
    warm_jobs = []
    for i in chosen:
        cold = results[i]
        c = cold['case']
        n = len(c['m'])
        nzc = np.array(c['m']) > 0.
        kind = kinds[i]
        K0 = None
        if kind == 'other-state':
            ax = aux_results[aux_of[i]]
            if ax['status'] == 'ok' and ax.get('two') and np.all(np.isfinite(np.array(ax['K'])[nzc])):
                K0 = list(ax['K'])
            else:
                kind = 'log-uniform'
        if kind == 'perturbed':
            base = np.array(cold['K'], dtype=float)
            if not (cold.get('two') and np.all(np.isfinite(base[nzc]))):
                fm = _fm(c['composition'])
                with np.errstate(all='ignore'):
                    base = np.exp(5.37 * (1. + fm._ref['omega']) * (1. - fm._ref['Tc'] / c['T'])) / (c['P'] / fm._ref['Pc'])
            K0 = [float(b * math.exp(r.gauss(0., 1.))) for b in base]
        if kind == 'log-uniform':
            K0 = [scen_mix.log_uniform(r, 1e-3, 1e3) for _ in range(n)]
        if kind == 'nan-or-zeros':
            # what the code itself hands back and callers hand in again: the NaN vector of a one-phase result, a K with NaN entries,
            # zeros at the zero-mass components (and, for feeds without such components, one zero entry)
            K0 = [scen_mix.log_uniform(r, 1e-2, 1e2) for _ in range(n)]
            u = r.random()
            if u < 0.35:
                K0 = [float('nan')] * n
            elif u < 0.6:
                K0[r.randrange(n)] = float('nan')
            else:
                zpos = [k for k in range(n) if not nzc[k]] or [r.randrange(n)]
                for k in zpos:
                    K0[k] = 0.
        warm_jobs.append({'composition': c['composition'], 'm': c['m'], 'T': c['T'], 'P': c['P'], 'K0': K0, 'tag': 'warm:' + kind, 'cold': i})
    warm_results = _pool_map(ctx, [{k: v for k, v in j.items() if k != 'cold'} for j in warm_jobs], budget)
    ctx.notes.append('equilibrium: %d cold calls + %d auxiliary cold calls + %d warm-start calls in %.1f s (budget %.1f s per call)'
                     % (len(results), len(aux_results), len(warm_results), time.time() - t0, budget))
    n_ident = n_diff = n_kused = n_kign = 0
    for j, wres in zip(warm_jobs, warm_results):
        wres['case'] = j
        cold = results[j['cold']]
        if wres['status'] != 'ok':
            continue
        same = all(np.array_equal(np.array(wres[k], dtype=float), np.array(cold[k], dtype=float), equal_nan=True) for k in ('mm', 'xi', 'K'))
        wres['warm_identical'] = bool(same)
        n_ident += int(same)
        n_diff += int(not same)
        ctx.count('flash:warm:result-bit-identical-to-cold' if same else 'flash:warm:result-differs-from-cold')
        fk = wres['rec'].get('first_K_in')
        if fk is not None:
            k0 = np.array(j['K0'], dtype=float)[np.array(j['m']) > 0.]
            arrived = len(k0) == len(fk) and bool(np.array_equal(k0, np.array(fk, dtype=float), equal_nan=True))
            n_kused += int(arrived)
            n_kign += int(not arrived)
    WARM['calls'], WARM['bit_identical_to_cold'], WARM['differs_from_cold'] = len(warm_results), n_ident, n_diff
    WARM['supplied_K_reached_first_successive_substitution'], WARM['supplied_K_replaced'] = n_kused, n_kign
    ctx.notes.append('warm start: %d calls with a supplied K (same feed at another state / log-uniform [1e-3,1e3]^n / cold K x lognormal(1) / NaN '
                     'and zero entries); result bit-identical to the cold result in %d, different in %d; the supplied K reached the first '
                     'successive_substitution call in %d, was replaced by the Wilson estimate in %d (on /repo the guard at dbm.py l.2577, '
                     '`isinstance(np.sum(K_0), type(np.nan))`, is True for every float array: dead warm start).  All property predicates are '
                     'evaluated on every warm result' % (len(warm_results), n_ident, n_diff, n_kused, n_kign))
    results = results + aux_results
    warm_counted = warm_results
    lines, owner = [], []
    slow = []
    worst_iso = 0.
    nsamp = 0
    trace_metamorphic(ctx, trace_results)
    for res in results + warm_counted:
        kind = check_feed(ctx, res, lines, owner)
        if kind == 'slow':
            slow.append(res)
        if 'iso' in res:
            worst_iso = max(worst_iso, res['iso'])
        if kind in ('two', 'single') and nsamp < 3 and res['case'].get('tag') == 'random':
            nsamp += 1
            ctx.sample({'call': 'FluidMixture.equilibrium', 'composition': res['case']['composition'], 'm': res['case']['m'],
                        'T': res['case']['T'], 'P': res['case']['P'], 'masses': res['mm'], 'K': [None if (isinstance(k, float) and math.isnan(k)) else k for k in res['K']]})
    ctx.notes.append('worst |f_gas/f_liq - 1| over the two-phase results: %.3g (tolerance %g); isofugacity is SAMPLED only '
                     '(successive_substitution is not modelled)' % (worst_iso, TOL['flash_fugacity']))
    # budget-exceeded calls: counted and described, not evaluated
    nall = len(results) + len(warm_counted)
    if slow:
        ex = [{'composition': s['case']['composition'], 'm': s['case']['m'], 'T': s['case']['T'], 'P': s['case']['P'],
               'successive_substitution_calls_so_far': s.get('n_ss')} for s in slow[:5]]
        ctx.notes.append('%d of %d equilibrium calls exceeded the %.1f s budget and were NOT evaluated (they do return, after 1e3-1e5 '
                         'successive-substitution calls, because the un-normalised absent-phase row makes K decay geometrically '
                         'to underflow); examples: %r' % (len(slow), nall, budget, ex))
    if len(slow) > 0.05 * nall + 2:
        ctx.violation('equilibrium-no-termination', 'more than 5% of the equilibrium calls did not return within the budget',
                      {'budget_s': budget, 'n_slow': len(slow), 'n': nall, 'first': slow[0]['case']})
    # ---- floors: the run must have SEEN every outcome class and must not have dropped more than a small share ---------------
    h = ctx.hist
    floors = [('flash:two-phase', 0.10), ('flash:single-gas', 0.08), ('flash:single-liquid', 0.10), ('flash:with-zero-mass-components', 0.08),
              ('flash:three-roots', 0.01), ('flash:single-root', 0.20), ('flash:n=1', 0.02), ('flash:n=7', 0.03),
              ('flash:isofugacity-evaluated', 0.10), ('flash:ss-rows-compared-with-gas_liq_eq', 0.80)]
    low = [(k, h.get(k, 0), int(math.ceil(f * nall))) for k, f in floors if h.get(k, 0) < f * nall]
    ctx.oblige('floors: every outcome class of the flash seen in at least its minimum share of the %d evaluated calls (%s)'
               % (nall, ', '.join('%s>=%d%%' % (k.split(':', 1)[1], round(100 * f)) for k, f in floors)), not low, 'below floor: %r' % low)
    ctx.oblige('floors: at least one trivial two-phase result (identical phases) put through the single-phase clauses, at least 200 '
               'tangent-plane trial compositions evaluated', h.get('flash:trivial-two-phase(x_gas == x_liq within 1e-12)', 0) >= 1 and h.get('flash:tpd-trials', 0) >= 200,
               'trivial=%r tpd-trials=%r' % (h.get('flash:trivial-two-phase(x_gas == x_liq within 1e-12)', 0), h.get('flash:tpd-trials', 0)))
    ctx.oblige('floors: at least %d two-phase results DECIDED by the stability analysis, at least %d single-phase ones, at least %d trace-variant '
               'pairs compared' % (ctx.n(25, 400), ctx.n(25, 400), ctx.n(20, 300)),
               h.get('flash:stability-decided:two-phase', 0) >= ctx.n(25, 400) and h.get('flash:stability-decided:single-phase', 0) >= ctx.n(25, 400)
               and h.get('flash:trace-pair:compared', 0) >= ctx.n(20, 300),
               'two-phase=%r single-phase=%r pairs=%r' % (h.get('flash:stability-decided:two-phase', 0), h.get('flash:stability-decided:single-phase', 0),
                                                          h.get('flash:trace-pair:compared', 0)))
    nwarm = sum(1 for x in warm_counted if x['status'] == 'ok')
    ctx.oblige('floors: warm-start calls (supplied K vector) evaluated with all predicates: at least 25%% of the %d cold flash cases (%d)'
               % (len(results), nwarm), nwarm >= 0.25 * len(results), '%d of %d' % (nwarm, len(results)))
    ctx.oblige('floors: at most 4%% of the equilibrium calls dropped for exceeding the %.1f s budget (%d of %d)' % (budget, len(slow), nall),
               len(slow) <= 0.04 * nall, '%d of %d' % (len(slow), nall))
    # ---- correspondence through the driver ---------------------------------------------------------------------------
    if lean_ok and lines:
        out = run_driver(ctx, 'C02', lines)
        if out is not None:
            bad = {'reduce': 0, 'mm-end': 0, 'post': 0, 'gle': 0}
            cnt = {'reduce': 0, 'mm-end': 0, 'post': 0, 'gle': 0}
            for o, (res, what) in zip(out, owner):
                rec = res['rec']
                c = res['case']
                if what in ('reduce-m', 'reduce-M', 'reduce-K0'):
                    cnt['reduce'] += 1
                    want = rec['mm']['m'] if what == 'reduce-m' else rec['mm']['M'] if what == 'reduce-M' else rec['mm']['K0']
                    if not (isinstance(o, list) and close(o[0], want, 0. if what == 'reduce-m' else 1e-12)):
                        bad['reduce'] += 1
                        ctx.broken.append(('correspondence', 'Model.Flash.gather(mask m) vs arguments of equil_MM', 'case=%r model=%r code=%r' % (c, o, want)))
                elif what == 'mm-end':
                    cnt['mm-end'] += 1
                    mmr = rec['mm']
                    ok = isinstance(o, list) and len(o) == 5
                    if ok:
                        xg, xl, b, knan, Kv = o
                        code_nan = bool(np.isnan(mmr['K'][0]))
                        ok = (close(xg, mmr['xi'][0], TOL['gen_vs_source']) and close(xl, mmr['xi'][1], TOL['gen_vs_source'])
                              and close(b, mmr['beta'], TOL['gen_vs_source']) and (knan == 1) == code_nan
                              and (code_nan or close(Kv, mmr['K'], TOL['gen_vs_source'])))
                    if not ok:
                        bad['mm-end'] += 1
                        if bad['mm-end'] <= 3:
                            ctx.broken.append(('correspondence', 'Model.Flash.equilMMEnd vs end of dbm.equil_MM',
                                               'case=%r last_ss=%r last_event=%r code=%r model=%r' % (c, rec['ss'], rec['last'], mmr, o)))
                elif what == 'post':
                    cnt['post'] += 1
                    ok = isinstance(o, list) and len(o) == 6
                    if ok:
                        mg, ml, xg, xl, knan, Kv = o
                        code_nan = bool(np.any(np.isnan(res['K'])))
                        # masses are compared relative to the feed mass of the component
                        ok = (close(xg, res['xi'][0], TOL['gen_vs_source']) and close(xl, res['xi'][1], TOL['gen_vs_source'])
                              and (knan == 1) == code_nan and (code_nan or close(Kv, res['K'], TOL['gen_vs_source'])))
                        mmc = np.array(res['mm'])
                        tot = np.array(c['m']) + 1e-300
                        ok = ok and len(mg) == len(tot) and len(ml) == len(tot)
                        if ok:
                            for mod, code in ((np.array(mg), mmc[0]), (np.array(ml), mmc[1])):
                                both_nan = np.isnan(mod) & np.isnan(code)
                                ok = ok and bool(np.all(both_nan | (np.abs(mod - code) <= 1e-9 * tot)))
                    if not ok:
                        bad['post'] += 1
                        if bad['post'] <= 3:
                            ctx.broken.append(('correspondence', 'Model.Flash.equilibriumPost vs FluidMixture.equilibrium',
                                               'case=%r equil_MM=%r code=%r model=%r' % (c, rec['mm'], (res['mm'], res['xi'], res['K']), o)))
                elif what == 'gle':
                    cnt['gle'] += 1
                    g = rec['gle']
                    ok = isinstance(o, list) and len(o) == 6
                    if ok:
                        ok = (close(o[0], g['xi'][0], TOL['gen_vs_source']) and close(o[1], g['xi'][1], TOL['gen_vs_source'])
                              and close(o[2], g['beta'], TOL['gen_vs_source']) and o[5] == 1)
                    if not ok:
                        bad['gle'] += 1
                        if bad['gle'] <= 3:
                            ctx.broken.append(('correspondence', 'Model.Flash.gasLiqEq vs dbm.gas_liq_eq (call made inside equil_MM)',
                                               'args=%r code=%r model=%r' % ((g['m'], g['M'], g['K']), (g['xi'], g['beta']), o)))
            ctx.oblige('correspondence Model.Flash.gather(mask m) == arguments equilibrium passes to equil_MM on %d vectors (exact)' % cnt['reduce'],
                       bad['reduce'] == 0, '%d disagreements' % bad['reduce'])
            ctx.oblige('correspondence Model.Flash.equilMMEnd == return value of dbm.equil_MM given its last successive_substitution result on %d calls (rel %g)'
                       % (cnt['mm-end'], TOL['gen_vs_source']), bad['mm-end'] == 0, '%d disagreements' % bad['mm-end'])
            ctx.oblige('correspondence Model.Flash.equilibriumPost == return value of FluidMixture.equilibrium given equil_MM\'s result on %d calls (rows, K rel %g; masses 1e-9 of the feed)'
                       % (cnt['post'], TOL['gen_vs_source']), bad['post'] == 0, '%d disagreements' % bad['post'])
            ctx.oblige('correspondence Model.Flash.gasLiqEq == dbm.gas_liq_eq on the last call made inside each of %d flashes (K from the EOS)' % cnt['gle'],
                       bad['gle'] == 0, '%d disagreements' % bad['gle'])
    return results


# =============================================================================================
# part C — targeted cases
# =============================================================================================

def bisect_P(f, lo, hi, nmax=200):
    """f(P) -> bool; f(lo) != f(hi); returns the two adjacent doubles (or the last bracket) across which f flips"""
    flo = f(lo)
    for _ in range(nmax):
        mid = 0.5 * (lo + hi)
        if mid == lo or mid == hi:
            break
        if f(mid) == flo:
            lo = mid
        else:
            hi = mid
    return lo, hi


def run_targeted(ctx, dbm):
    """regression search for the defect repaired in commit 87c9b6c (gas moles taken from the first non-zero component alone):
    (1) real states whose first non-zero component has K = 1, found by bisection in P; (2) the two-phase rows of
    z = (1/3,1/3,1/3), K = (1,2,1/2) (Lean: witness_rows_are_rr_solution) pushed through the real back-conversion lines with
    equil_MM stubbed"""
    r = ctx.rng
    t_start, t_max, call_budget = time.time(), ctx.n(25., 420.), ctx.n(1.0, 3.0)
    # ---- (2) z = (1/3,1/3,1/3), K = (1,2,1/2), beta = 1/2 through the real lines 700-721 (equil_MM stubbed) ----------------
    if _W['installed']:
        dbm.equil_MM = dbm.equil_MM      # (recorders may be installed in this process: the stub below replaces whatever is there)
    fm = _fm(['methane', 'ethane', 'propane'])
    saved = dbm.equil_MM
    try:
        dbm.equil_MM = lambda *a, **k: (np.array([[1. / 3, 4. / 9, 2. / 9], [1. / 3, 2. / 9, 4. / 9]]), 0.5, np.array([1., 2., 0.5]))
        with np.errstate(all='ignore'):
            mm, xi, K = fm.equilibrium(fm._ref['M'].copy(), 300., 1e6)
    finally:
        dbm.equil_MM = saved
    good = bool(np.all(np.isfinite(mm))) and bool(np.all(mm >= 0.)) and bool(np.allclose(mm.sum(axis=0), fm._ref['M'], rtol=1e-12, atol=0.))
    ctx.oblige('two-phase rows whose first component has K = 1 (z = (1/3,1/3,1/3), K = (1,2,1/2), beta = 1/2; Lean: witness_rows_are_rr_solution) '
               'pushed through the real back-conversion lines of FluidMixture.equilibrium conserve every component', good, repr(mm.tolist()))
    if not good:
        ctx.violation('ng-first-component-K=1', 'the back-conversion of FluidMixture.equilibrium does not conserve mass for two-phase rows whose first '
                      'component has K = 1 (equil_MM stubbed to return x_gas = (1/3,4/9,2/9), x_liq = (1/3,2/9,4/9), beta = 1/2)',
                      {'composition': ['methane', 'ethane', 'propane'], 'm': fm._ref['M'].tolist(), 'T': 300., 'P': 1e6, 'K0': None, 'masses': mm.tolist()})
    # ---- (1) real states with K_first = 1 -----------------------------------------------------------------------------
    feeds = [(['propane', 'methane', 'n-decane'], [0.2, 0.3, 0.5], 320.)]
    mids = ['propane', 'n-butane', 'isobutane', 'n-pentane', 'ethane', 'carbon_dioxide', 'hydrogen_sulfide']
    for _ in range(ctx.n(2, 16)):
        mid = r.choice(mids)
        light = r.choice([c for c in ('methane', 'nitrogen', 'ethane') if c != mid])
        heavy = r.choice(['n-decane', 'n-heptane', 'toluene', 'n-hexane', 'benzene'])
        w = scen_mix.dirichlet(r, 3, 3.0)
        feeds.append(([mid, light, heavy], [x * scen_mix.log_uniform(r, 1e-3, 1e1) for x in w], r.uniform(290., 400.)))
    nfound = 0
    for names, m, T in feeds:
        fm = _fm(names)
        ma = np.array(m)

        if time.time() - t_start > t_max:
            ctx.count('targeted:K_first=1:skipped(time budget of the targeted part)')
            continue

        def K0(P):
            with np.errstate(all='ignore'):
                return call_with_budget(lambda: fm.equilibrium(ma, T, P), call_budget)

        def above(P):
            try:
                k = K0(P)[2][0]
            except _Timeout:
                return None
            return bool(k > 1.) if np.isfinite(k) else None
        try:
            Ps = np.exp(np.linspace(math.log(1e5), math.log(5e7), 40))
            vals = [above(P) for P in Ps]
            br = None
            for a, b, va, vb in zip(Ps[:-1], Ps[1:], vals[:-1], vals[1:]):
                if va is not None and vb is not None and va != vb:
                    br = (a, b)
                    break
            if br is None:
                ctx.count('targeted:K_first=1:no-crossing')
                continue
            lo, hi = bisect_P(lambda P: above(P) is True, br[0], br[1])
        except _Timeout:
            ctx.count('targeted:K_first=1:budget-exceeded')
            continue
        nfound += 1
        for P in (lo, hi):
            try:
                mm, xi, K = K0(P)
            except _Timeout:
                continue
            ctx.evaluations += 1
            ctx.nontrivial.add(('K1', tuple(names), float('%.12g' % P)))
            ctx.count('targeted:K_first=1:states')
            case = {'composition': names, 'm': list(m), 'T': T, 'P': float(P), 'K0': None}
            defect = np.abs(mm[0] + mm[1] - ma) / (np.abs(mm[0]) + np.abs(mm[1]) + np.abs(ma))
            if not np.all(np.isfinite(mm)) or np.any(mm < 0.) or np.any(defect > TOL['identity']):
                ctx.violation('ng-first-component-K=1',
                              'equilibrium does not conserve mass / returns negative or NaN masses when the first non-zero component has K = 1 '
                              '(the situation in which the gas-mole formula used before commit 87c9b6c failed)',
                              dict(case, K_minus_1=(K - 1.).tolist(), masses=mm.tolist(), relative_defect=defect.tolist()))
    ctx.notes.append('targeted: %d of %d feeds have a pressure where the K of the first component crosses 1' % (nfound, len(feeds)))


# =============================================================================================
# part D — histories on ONE FluidMixture object (the answer must depend on the arguments of THIS call only)
# =============================================================================================

def eval_history(job):
    """one history on one object: equilibrium(m, T, P); edit the SAME ndarray in place (zero a component / rescale by 10^k /
    permute the values); equilibrium again at the same T, P; then call with a fresh equal array, overwrite the RETURNED arrays,
    call once more.  Every call is judged against the feed OF THAT CALL and against a brand-new object."""
    warnings.simplefilter('ignore')
    from tamoc import dbm
    case, ops, budget = job
    names, T, P = case['composition'], case['T'], case['P']
    out = {'case': case, 'ops': ops, 'status': 'ok', 'calls': 0, 'violations': []}

    def flash(obj, arr):
        with np.errstate(all='ignore'):
            return call_with_budget(lambda: obj.equilibrium(arr, T, P), budget)

    def judge(step, res, feed):
        mm, xi, K = (np.array(x, dtype=float) for x in res)
        feed = np.array(feed, dtype=float)
        out['calls'] += 1
        info = {'composition': names, 'T': T, 'P': P, 'history': ops, 'step': step, 'm_of_this_call': feed.tolist(), 'masses': mm.tolist()}
        fresh = tuple(np.array(x, dtype=float) for x in flash(dbm.FluidMixture(list(names)), feed.copy()))
        if not all(a.shape == b.shape and close(a.ravel().tolist(), b.ravel().tolist(), TOL['gen_vs_source']) for a, b in zip((mm, xi, K), fresh)):
            out['violations'].append(('history:result-differs-from-fresh-object', 'equilibrium(m, T, P) on an object with a call history returns something else '
                                      'than the same call on a new object', dict(info, fresh_object_masses=fresh[0].tolist())))
        if np.all(np.isfinite(mm)):
            s = np.abs(mm[0]) + np.abs(mm[1]) + np.abs(feed)
            if np.any(np.abs(mm[0] + mm[1] - feed) > TOL['identity'] * s + 1e-300) or np.any(mm < 0.):
                out['violations'].append(('history:component-mass-not-conserved', 'gas + liquid mass differs from the feed of THIS call (or a phase mass is '
                                          'negative) after an earlier call on the same object', info))
            if np.any(mm[:, feed == 0.] != 0.) or np.any(xi[:, feed == 0.] != 0.):
                out['violations'].append(('history:zero-component-not-zero', 'a component with zero mass in the feed of THIS call has mass / mole fraction in a phase',
                                          info))
    try:
        fm = dbm.FluidMixture(list(names))
        m = np.array(case['m'], dtype=float)
        judge('1:first call', flash(fm, m), m)
        for k, op in enumerate(ops):
            if op[0] == 'zero':
                m[op[1]] = 0.
            elif op[0] == 'scale':
                m *= 10.0 ** op[1]
            elif op[0] == 'permute':
                m[:] = np.roll(m, op[1])
            judge('%d:after in-place %s of the same ndarray' % (k + 2, op[0]), flash(fm, m), m)
        # the returned arrays must not alias anything the object keeps
        m2 = m.copy()
        r1 = flash(fm, m2.copy())
        snap = tuple(np.array(x, dtype=float).copy() for x in r1)
        for x, v in zip(r1, (-1., 7., 3.)):
            try:
                np.asarray(x)[...] = v
            except (ValueError, TypeError):
                pass
        r2 = tuple(np.array(x, dtype=float) for x in flash(fm, m2.copy()))
        out['calls'] += 1
        if not all(np.array_equal(a, b, equal_nan=True) for a, b in zip(snap, r2)):
            out['violations'].append(('history:result-aliases-internal-state', 'overwriting the arrays RETURNED by one call changes what the next identical call returns',
                                      {'composition': names, 'T': T, 'P': P, 'm': m2.tolist(), 'first_call_masses': snap[0].tolist(), 'second_call_masses': r2[0].tolist()}))
        judge('%d:fresh equal array after the returned arrays were overwritten' % (len(ops) + 3), r2, m2)
    except _Timeout:
        out['status'] = 'slow'
    return out


def run_history(ctx):
    r = ctx.rng
    jobs = []
    for _ in range(ctx.n(60, 1500)):
        c = scen_mix.flash_case(r, nmin=2, exclude=EXCLUDE, zero_prob=0.0)
        n = len(c['m'])
        ops = []
        for _k in range(r.randint(1, 3)):
            u = r.random()
            ops.append(('zero', r.randrange(n)) if u < 0.4 else ('scale', r.choice([-3, -1, 1, 2, 6])) if u < 0.75 else ('permute', r.randint(1, n - 1)))
        if all(o[0] == 'zero' for o in ops) and len(set(o[1] for o in ops)) >= n:
            ops = ops[:1]          # keep at least one component
        jobs.append((c, ops, ctx.n(2.0, 5.0)))
    nproc = int(os.environ.get('VERIF_PROCS', '0') or 0) or min(8, max(1, (os.cpu_count() or 2) // 2))
    import multiprocessing as mp
    with mp.get_context('fork').Pool(nproc) as pool:
        outs = pool.map(eval_history, jobs, chunksize=2)
    nok = 0
    for o in outs:
        if o['status'] != 'ok':
            ctx.count('history:budget-exceeded(not evaluated)')
            continue
        nok += 1
        ctx.evaluations += o['calls']
        ctx.count('history:histories')
        ctx.count('history:calls', o['calls'])
        for op in o['ops']:
            ctx.count('history:in-place-' + op[0])
        ctx.nontrivial.add(('history', tuple(o['case']['composition']), float('%.12g' % o['case']['T']), float('%.12g' % o['case']['P']), str(o['ops'])))
        for key, what, case in o['violations']:
            ctx.violation(key, what, case)
    ctx.oblige('floors: at least %d call histories on one FluidMixture object evaluated (in-place edits of the caller\'s mass array between calls at the '
               'same T, P; overwritten return values), each call judged against its own feed and a fresh object (%d)' % (ctx.n(45, 1100), nok),
               nok >= ctx.n(45, 1100), '%d' % nok)


def extra(ctx):
    """additional evidence fields"""
    return {'warm_start': dict(WARM)} if WARM else None


def replay(ctx, path):
    """./check C02 --replay <file>: re-evaluate the stored failing input on the real code; exit 1 if it still fails"""
    import json
    warnings.simplefilter('ignore')
    from tamoc import dbm
    d = json.load(open(path))
    case = d.get('case') or {}
    if 'composition' in case:
        job = {k: case.get(k) for k in ('composition', 'm', 'T', 'P', 'K0')}
        res = eval_feed((job, 600., 0))
        check_feed(ctx, res, [], [])
        if res['status'] == 'ok':
            print('masses=%r\nxi=%r\nK=%r' % (res['mm'], res['xi'], res['K']))
        else:
            print('status=%s' % res['status'])
    elif 'K' in case and 'M' in case:
        with np.errstate(all='ignore'):
            xi, beta = dbm.gas_liq_eq(np.array(case['m']), np.array(case['M']), np.array(case['K']))
        print('beta=%r rows=%r' % (beta, np.asarray(xi).tolist()))
        rr_predicates(ctx, case['m'], case['M'], case['K'], np.asarray(xi, dtype=float), float(beta),
                      {'beta': 0., 'rows': 0., 'trace': 0., 'sum_dev_over_gp': 0., 'passes': 0})
    else:
        print('replay file names no input (broken obligation without failing input): %r' % d.get('broken_obligations'))
        return 1
    for v in ctx.violations:
        print('REPRODUCED key=%s %s' % (v['key'], v['what']))
    if not ctx.violations:
        print('not reproduced: the stored input satisfies the property predicates now')
    return 1 if ctx.violations else 0


def run(ctx, lean_ok):
    warnings.simplefilter('ignore')
    from tamoc import dbm
    t = [time.time()]
    run_rr(ctx, lean_ok, dbm)
    t.append(time.time())
    run_flash(ctx, lean_ok, dbm)
    t.append(time.time())
    run_targeted(ctx, dbm)
    t.append(time.time())
    run_history(ctx)
    t.append(time.time())
    ctx.notes.append('wall time of the four parts (phase-split solve, flash, targeted, histories): %.1f s, %.1f s, %.1f s, %.1f s'
                     % (t[1] - t[0], t[2] - t[1], t[3] - t[2], t[4] - t[3]))
