"""
C20 — Documented entry points complete on valid input.

proof     : TamocV/Props/C20.lean — `<f>_wd` theorems: for every straight-line routine regenerated from
            seawater.py and dbm_p.py the generated well-definedness predicate (no zero denominator, no
            log / sqrt / real-power domain error) holds on the documented ranges, i.e. in exact
            arithmetic the routine returns a finite value there
tie       : translators re-run on every check (Gen.SeawaterPy, Gen.PhysPy); translator validation by
            execution is done by C13 / C08
real code : the "rather than raising" half is run-time behaviour (NumPy >= 2 scalar slots, 1-D ODE
            right-hand sides, Python 3 containers ...) and is decided HERE by calling the real entry
            points: the list of documented public entry points is parsed at run time from
            docs/_sources/modules/*.rst of the repo under test; TABLE maps each of them to a caller
            (valid seeded inputs in the documented ranges) or to an exclusion reason; every call must
            return without raising and every float in the flattened result must be finite (NaN only
            where NaN is the documented value)
"""
import io
import os
import re
import sys
import glob
import math
import time
import shutil
import tempfile
import warnings
import traceback
import contextlib

import numpy as np

import common

META = {
    'text': ('Two halves. (1) "finite": Lean 4 theorems over the reals, for every straight-line routine that the '
             'translator regenerates from seawater.py and dbm_p.py on each run, that the generated well-definedness '
             'predicate holds on the documented ranges (no zero denominator, no log/sqrt/real-power domain error), so in '
             'exact arithmetic the routine returns a finite value. (2) "rather than raising" is run-time behaviour of the '
             'installed NumPy/SciPy/Python and is decided by CALLING the real code: the ~300 public entry points listed in '
             'docs/_sources/modules/*.rst are parsed at run time; each is either called several times on valid seeded '
             'inputs in its documented ranges (property methods of mixtures and particles incl. hydrate stability and '
             'equilibrium, profile construction/queries, single-particle / bent-plume / stratified-plume simulations '
             'with soluble and inert particles and all their non-plotting post-processing incl. save/load, size-'
             'distribution models, the blowout wrapper, dbm_utilities, params.Scales) or excluded with a stated reason; '
             'a raise or a non-finite float (other than a documented NaN) is a violation with the inputs to replay.'),
    'note': ('Trusted: Lean kernel + 3 standard axioms; translator py2ir/ir2lean (validated by execution in C13/C08); real '
             'arithmetic for doubles. Partial: only the seawater / dbm_p scalar routines are proved finite; everything else '
             '(EOS loops, flash, ODE integrations, I/O) is decided by sampling the real entry points on generated valid '
             'inputs - a raise that needs an input outside the generators is not seen. Plotting entry points, loaders of '
             'external oil libraries and module/section headers are excluded (counts by reason in the evidence); documented '
             'entry points that have no caller are listed as `uncovered`.'),
    'technique': ('Lean 4 well-definedness theorems over definitions regenerated from source + exhaustive call-through of the '
                  'documented API (parsed from the docs) on seeded valid inputs with a finiteness predicate'),
}
GEN = ['seawater', 'phys']
MODULES = ['TamocV.Props.C20', 'TamocV.Gen.SeawaterPy', 'TamocV.Gen.PhysPy']
RULE = ('entry points = names under `.. currentmodule::` + autosummary in docs/_sources/modules/*.rst of the repo under test; '
        'per entry point several seeded inputs (quick 3, thorough 30; simulations quick 1-2 per model, thorough ~10, reused '
        'by all post-processing entry points) drawn inside the documented ranges: seawater states T 271-313 K, S 0-42, P 1e5-'
        '1.1e8 Pa; particle sizes 0.1-20 mm; database mixtures of 1-6 compounds at 270-420 K, 1e5-5e7 Pa; gas, liquid, '
        'two-phase and inert particles; synthetic stably stratified casts 200-3000 m with and without currents / dissolved '
        'compounds, world-ocean profile, netCDF / xarray / array input forms; releases 100-1500 m deep; a case is '
        'non-trivial when its (entry point, input kind) key is new')
LEVEL_NOTE = META['note']
LEANCHECKER = True

SCRATCH = '/root/scratch/c20'
MAX_PER_KEY = 3           # violations recorded per key (the first ones carry the replay)


def audit_files():
    return ['TamocV/Num.lean', 'TamocV/Real.lean', 'TamocV/Lemmas/Basic.lean', 'TamocV/Lemmas/C20.lean',
            'TamocV/Props/C20.lean', 'TamocV/Gen/SeawaterPy.lean', 'TamocV/Gen/PhysPy.lean']


# =====================================================================================================
# documented entry points
# =====================================================================================================

def documented_entry_points(repo=None):
    """names listed by autosummary under each `.. currentmodule::` of docs/_sources/modules/*.rst"""
    repo = repo or common.REPO
    out = []
    for f in sorted(glob.glob(os.path.join(repo, 'docs', '_sources', 'modules', '*.rst'))):
        cur, inauto = None, False
        for line in open(f):
            m = re.match(r'\.\. currentmodule::\s*(\S+)', line)
            if m:
                cur, inauto = m.group(1), False
                continue
            if re.match(r'\.\. autosummary::', line):
                inauto = True
                continue
            if inauto:
                if not line.strip():
                    continue
                if line[0] in ' \t':
                    s = line.strip()
                    if not s.startswith(':') and cur:
                        name = cur + '.' + s
                        if name not in out:
                            out.append(name)
                else:
                    inauto = False
    return out


# =====================================================================================================
# infrastructure: quiet execution, finiteness predicate, scenario context
# =====================================================================================================

@contextlib.contextmanager
def quiet():
    with warnings.catch_warnings():
        warnings.simplefilter('ignore')
        with np.errstate(all='ignore'):
            with contextlib.redirect_stdout(io.StringIO()):
                yield


class NanOK(object):
    """result wrapper: `strict` must be finite; `nan_ok` may contain NaN (documented) but no inf"""
    def __init__(self, strict, nan_ok, why):
        self.strict, self.nan_ok, self.why = strict, nan_ok, why


def _walk(x, path, out, allow_nan, depth=0):
    if depth > 8 or x is None or isinstance(x, (str, bytes, bool, np.bool_, int, np.integer)):
        return
    if isinstance(x, (float, np.floating)):
        v = float(x)
        if math.isinf(v) or (math.isnan(v) and not allow_nan):
            out.append((path, v))
        return
    if isinstance(x, (complex, np.complexfloating)):
        _walk(float(np.real(x)), path + '.re', out, allow_nan, depth + 1)
        _walk(float(np.imag(x)), path + '.im', out, allow_nan, depth + 1)
        return
    if isinstance(x, np.ndarray):
        a = np.ma.getdata(x) if np.ma.isMaskedArray(x) else x
        if a.dtype.kind in 'fc':
            bad = np.isinf(a) if allow_nan else ~np.isfinite(a)
            if np.any(bad):
                idx = tuple(int(i) for i in np.argwhere(bad)[0])
                out.append(('%s[%s] (%d of %d entries)' % (path, ','.join(map(str, idx)), int(np.sum(bad)), a.size),
                            complex(a[idx]) if a.dtype.kind == 'c' else float(a[idx])))
        elif a.dtype.kind == 'O':
            for i, v in enumerate(a.ravel()):
                _walk(v, '%s[%d]' % (path, i), out, allow_nan, depth + 1)
        return
    if isinstance(x, NanOK):
        _walk(x.strict, path, out, allow_nan, depth + 1)
        _walk(x.nan_ok, path + '(nan-ok)', out, True, depth + 1)
        return
    if isinstance(x, (list, tuple, set)):
        for i, v in enumerate(x):
            _walk(v, '%s[%d]' % (path, i), out, allow_nan, depth + 1)
        return
    if isinstance(x, dict):
        for k, v in x.items():
            _walk(v, '%s[%r]' % (path, k), out, allow_nan, depth + 1)
        return
    # any other object (Profile, Particle, Dataset ...) is a completed return value without floats of its own


def nonfinite(x):
    out = []
    _walk(x, 'result', out, False)
    return out


def J(x, depth=0):
    """JSON-able description of an input"""
    if depth > 6:
        return '...'
    if x is None or isinstance(x, (str, bool, int, float)):
        return x
    if isinstance(x, (np.bool_,)):
        return bool(x)
    if isinstance(x, np.integer):
        return int(x)
    if isinstance(x, np.floating):
        return float(x)
    if isinstance(x, np.ndarray):
        if x.size > 400:
            return {'ndarray shape': list(x.shape), 'first': J(x.ravel()[:8]), 'last': J(x.ravel()[-4:])}
        return x.tolist()
    if isinstance(x, (list, tuple)):
        return [J(v, depth + 1) for v in x]
    if isinstance(x, dict):
        return {str(k): J(v, depth + 1) for k, v in x.items()}
    d = getattr(x, '_c20_descr', None)
    if d is not None:
        return J(d, depth + 1)
    return '<%s>' % type(x).__name__


def tamoc_frame(tb):
    """last frame of the traceback that lies in tamoc (file:line: source)"""
    loc = ''
    for fr in traceback.extract_tb(tb):
        if os.sep + 'tamoc' + os.sep in fr.filename:
            loc = '%s:%d: %s' % (os.path.basename(fr.filename), fr.lineno, (fr.line or '').strip())
    return loc


class _Failed(object):
    def __repr__(self):
        return 'FAILED'

    def __bool__(self):
        return False


FAILED = _Failed()


class CallFailed(Exception):
    """an attempted entry-point call raised or returned non-finite values (already recorded)"""


class Blocked(Exception):
    """a scenario needed by this entry point could not be built (recorded at the entry point that failed)"""


class Scn(object):
    """shared, lazily built scenario context + the call recorder"""

    def __init__(self, ctx):
        self.ctx = ctx
        self.r = ctx.rng
        self.n = ctx.n(3, 30)                # inputs per cheap entry point
        self.nsim = ctx.n(2, 10)             # simulations per model
        self.cache = {}
        self.calls = {}                      # ep -> number of calls
        self.failed = {}                     # key -> count
        self.kinds = {}                      # ep -> set of kinds
        self.preconditions = {}              # ep -> count of skipped cases (documented precondition not met)
        self.slow = []                       # calls that took more than 20 s
        self.t0 = time.time()
        self.budget = ctx.n(140., 1500.)     # s; afterwards repetitions shrink to 1
        os.makedirs(SCRATCH, exist_ok=True)
        self.root = tempfile.mkdtemp(prefix='run', dir=SCRATCH)
        self._ntmp = 0
        self.current = None

    # ---- bookkeeping ---------------------------------------------------------------------------
    def reps(self, n=None):
        n = self.n if n is None else n
        return 1 if (time.time() - self.t0) > self.budget else n

    def tmp(self, stem='f'):
        """fresh path prefix inside the scratch run directory (no dots: tamoc splits file names at dots)"""
        self._ntmp += 1
        return os.path.join(self.root, '%s%d' % (stem, self._ntmp))

    def cleanup(self):
        shutil.rmtree(self.root, ignore_errors=True)

    def skip(self, ep, why):
        self.preconditions.setdefault(ep, {})
        self.preconditions[ep][why] = self.preconditions[ep].get(why, 0) + 1

    def _violate(self, key, what, case):
        k = self.failed.get(key, 0)
        self.failed[key] = k + 1
        if k < MAX_PER_KEY:
            self.ctx.violation(key, what, case)

    def attempt(self, ep, kind, inputs, thunk, edge=False, need=False):
        """call `thunk` (which calls entry point `ep` of the real code on `inputs`), apply the property predicate.
        edge=True marks a special input kind whose violations get their own key (`...:<kind>`).
        Returns the result; on a violation returns FAILED (need=False) or raises CallFailed (need=True: the caller
        cannot go on without the result)."""
        ep = ep if ep.startswith('tamoc.') else 'tamoc.' + ep
        self.calls[ep] = self.calls.get(ep, 0) + 1
        self.kinds.setdefault(ep, set()).add(kind)
        self.ctx.nontrivial.add((ep, kind))
        self.ctx.count(ep.split('.')[1] + ':' + kind if len(kind) < 40 else ep.split('.')[1])
        suffix = (':' + kind) if edge else ''
        t_call = time.time()
        try:
            try:
                with quiet():
                    res = thunk()
            finally:
                dt = time.time() - t_call
                if dt > 20.:
                    self.slow.append((ep, kind, round(dt, 1), J(inputs) if dt > 120. else None))
        except (KeyboardInterrupt, SystemExit, MemoryError):
            raise
        except BaseException as e:      # noqa: BLE001 — the property is exactly "does not raise"
            tb = sys.exc_info()[2]
            self._violate('raises:' + ep + suffix,
                          '%s raised %s for a valid input (%s)' % (ep, type(e).__name__, kind),
                          {'entry_point': ep, 'input_kind': kind, 'inputs': J(inputs), 'exception': '%s: %s' % (type(e).__name__, str(e)[:300]),
                           'failing_line': tamoc_frame(tb),
                           'traceback': ''.join(traceback.format_exception(type(e), e, tb))[-2500:], 'seed': self.ctx.seed})
            if need:
                raise CallFailed(ep)
            return FAILED
        bad = nonfinite(res)
        if bad:
            self._violate('nonfinite:' + ep + suffix,
                          '%s returned a non-finite value for a valid input (%s)' % (ep, kind),
                          {'entry_point': ep, 'input_kind': kind, 'inputs': J(inputs),
                           'nonfinite': [{'where': p, 'value': str(v)} for p, v in bad[:6]], 'seed': self.ctx.seed})
            if need:
                raise CallFailed(ep)
            return FAILED
        if len(self.ctx.samples) < 6 and self.calls[ep] == 1 and self.r.random() < 0.05:
            self.ctx.sample({'entry_point': ep, 'input_kind': kind, 'inputs': J(inputs), 'result': J(_strip(res))})
        return res

    def get(self, name):
        """lazily build a shared scenario; a failing builder blocks its dependants (the failing entry-point call
        itself has been recorded by `attempt`)"""
        if name not in self.cache:
            try:
                with quiet():
                    self.cache[name] = ('ok', BUILDERS[name](self))
            except (CallFailed, Blocked) as e:
                self.cache[name] = ('blocked', str(e))
            except Exception as e:            # noqa: BLE001
                tb = sys.exc_info()[2]
                owner = BUILDER_OWNER.get(name, 'harness')
                self._violate('raises:' + owner, 'building the shared scenario %r raised %s' % (name, type(e).__name__),
                              {'entry_point': owner, 'scenario': name, 'exception': '%s: %s' % (type(e).__name__, str(e)[:300]),
                               'failing_line': tamoc_frame(tb),
                               'traceback': ''.join(traceback.format_exception(type(e), e, tb))[-2500:], 'seed': self.ctx.seed})
                self.cache[name] = ('blocked', owner)
        st = self.cache[name]
        if st[0] != 'ok':
            raise Blocked('%s (%s)' % (name, st[1]))
        return st[1]


def _strip(res):
    if isinstance(res, NanOK):
        return {'strict': res.strict, 'nan_ok': res.nan_ok}
    return res


TABLE = {}          # entry point -> caller function f(S)  |  exclusion reason (str)
BUILDERS = {}       # scenario name -> builder f(S)
BUILDER_OWNER = {}  # scenario name -> entry point blamed when the builder itself raises outside `attempt`


def entry(*names):
    def deco(f):
        for n in names:
            TABLE['tamoc.' + n] = f
        return f
    return deco


def exclude(reason, *names):
    for n in names:
        TABLE['tamoc.' + n] = reason


def builder(name, owner):
    def deco(f):
        BUILDERS[name] = f
        BUILDER_OWNER[name] = owner if owner.startswith('tamoc.') else 'tamoc.' + owner
        return f
    return deco


# =====================================================================================================
# generators of valid inputs
# =====================================================================================================

HC_GAS = ['methane', 'ethane', 'propane', 'isobutane', 'n-butane']
HC_LIQ = ['n-pentane', 'isopentane', 'neopentane', 'n-hexane', '2-methylpentane', '3-methylpentane', 'neohexane',
          '2-3-dimethylbutane', 'n-heptane', 'benzene', 'toluene', 'ethylbenzene', 'n-decane']
AIR = ['nitrogen', 'oxygen', 'argon', 'carbon_dioxide']
HYD = ['methane', 'ethane', 'propane', 'isobutane', 'n-butane', 'nitrogen', 'carbon_dioxide', 'hydrogen_sulfide']
G = 9.81


def lu(r, lo, hi):
    return math.exp(r.uniform(math.log(lo), math.log(hi)))


def dirichlet(r, n, first=0.):
    w = [r.gammavariate(1.5, 1.) + 1e-3 for _ in range(n)]
    s = sum(w)
    w = [x / s for x in w]
    if first > 0. and n > 1:
        w = [x * (1. - first) for x in w]
        w[0] += first
    return np.array(w)


def sw_state(r, hot=False):
    """(T, S, P) inside the documented ranges of seawater.py"""
    T = r.uniform(313.15, 373.) if hot else r.uniform(271., 313.15)
    S = r.choice([0., r.uniform(0., 42.), r.uniform(30., 37.)])
    P = r.choice([101325., lu(r, 1e5, 1.1e8)])
    return T, S, P


def ocean_state(r):
    """(P, Sa, Ta) of an ocean point at 10-3000 m"""
    z = lu(r, 10., 3000.)
    Ta = 273.15 + 2. + 24. * math.exp(-z / r.uniform(100., 600.))
    Sa = r.uniform(32., 36.5)
    return 101325. + 1027. * G * z, Sa, Ta


def fluid_spec(r, kind, nmax=4):
    """kind: gas | liquid | mixed (two-phase capable: light + heavy hydrocarbons)"""
    if kind == 'gas':
        n = r.randint(1, nmax)
        comp = [r.choice(['methane', 'methane', 'ethane', 'nitrogen', 'oxygen'])]
        comp += r.sample([c for c in HC_GAS + AIR if c != comp[0]], n - 1)
        yk = dirichlet(r, n, first=0.6)
        fp = 0
    elif kind == 'liquid':
        n = r.randint(1, nmax)
        comp = r.sample(HC_LIQ, n)
        yk = dirichlet(r, n)
        fp = 1
    else:
        comp = r.sample(HC_GAS[:3], r.randint(1, 2)) + r.sample(HC_LIQ, r.randint(1, 2))
        yk = dirichlet(r, len(comp))
        fp = 2
    return {'kind': kind, 'composition': comp, 'yk': [float(v) for v in yk], 'fp_type': fp}


def inert_spec(r, sand=False):
    if sand:
        return {'kind': 'inert', 'isfluid': False, 'iscompressible': False, 'rho_p': r.uniform(1500., 2650.), 'gamma': 30.,
                'beta': 0.0007, 'co': 2.9e-9, 'fp_type': 1}
    return {'kind': 'inert', 'isfluid': r.random() < 0.8, 'iscompressible': r.random() < 0.7, 'rho_p': r.uniform(700., 960.),
            'gamma': r.uniform(20., 45.), 'beta': r.uniform(3e-4, 1e-3), 'co': r.uniform(1e-9, 5e-9),
            'fp_type': r.choice([1, 1, 0])}


def build_dbm(sp):
    from tamoc import dbm
    if sp['kind'] == 'inert':
        o = dbm.InsolubleParticle(sp['isfluid'], sp['iscompressible'], rho_p=sp['rho_p'], gamma=sp['gamma'], beta=sp['beta'],
                                  co=sp['co'], k_bio=sp.get('k_bio', 0.), t_bio=sp.get('t_bio', 0.), fp_type=sp['fp_type'])
    else:
        o = dbm.FluidParticle(list(sp['composition']), fp_type=sp['fp_type'])
    o._c20_descr = sp
    return o


def yk_of(sp):
    return np.array([1.]) if sp['kind'] == 'inert' else np.array(sp['yk'], dtype=float)


# ---- ambient profiles -----------------------------------------------------------------------------

def profile_spec(r, H=None, current='random', chems=(), n=None):
    H = H or r.choice([300., 800., 1500., 3000.])
    if current == 'random':
        current = r.choice(['none', 'uniform', 'sheared'])
    cur = None
    if current == 'uniform':
        s, a = r.uniform(0.03, 0.3), r.uniform(0., 2. * math.pi)
        cur = [[0., s * math.cos(a), s * math.sin(a), 0.], [H, s * math.cos(a), s * math.sin(a), 0.]]
    elif current == 'sheared':
        cur = []
        for z in (0., r.uniform(0.2, 0.8) * H, H):
            s, a = r.uniform(0.03, 0.3), r.uniform(0., 2. * math.pi)
            cur.append([z, s * math.cos(a), s * math.sin(a), 0.])
    return {'H': H, 'n': n or r.randint(15, 60), 'Ts': 273.15 + r.uniform(8., 28.), 'Tb': 273.15 + r.uniform(2., 5.),
            'hT': r.uniform(80., 500.), 'Ss': r.uniform(32., 35.), 'dS': r.uniform(0.3, 1.5), 'hS': r.uniform(200., 800.),
            'current': cur, 'chems': {c: [10 ** r.uniform(-6, -3), 10 ** r.uniform(-6, -3)] for c in chems}}


def profile_columns(ps):
    z = np.linspace(0., ps['H'], int(ps['n']))
    T = ps['Tb'] + (ps['Ts'] - ps['Tb']) * np.exp(-z / ps['hT'])
    S = ps['Ss'] + ps['dS'] * (1. - np.exp(-z / ps['hS']))
    return z, T, S


def build_profile(ps):
    """array route (depth, temperature, salinity): tamoc integrates the pressure; currents and dissolved
    compounds are appended"""
    from tamoc import ambient
    z, T, S = profile_columns(ps)
    prf = ambient.Profile(np.vstack((z, T, S)).T, ztsp=['z', 'temperature', 'salinity', 'pressure'],
                          ztsp_units=['m', 'K', 'psu', 'Pa'])
    if ps.get('current'):
        prf.append(np.array(ps['current'], dtype=float), ['z', 'ua', 'va', 'wa'], ['m', 'm/s', 'm/s', 'm/s'], z_col=0)
    for c, (ct, cb) in ps.get('chems', {}).items():
        prf.append(np.array([[0., ct], [ps['H'], cb]]), ['z', c], ['m', 'kg/m^3'], z_col=0)
    prf._c20_descr = ps
    return prf


def profile_table(prf):
    """(data, names, units) of everything the profile holds"""
    from tamoc import ambient
    return ambient.xr_dataset_to_array(prf.interp_ds, prf.ztsp[0])


def write_profile_nc(S, prf, path):
    """store the profile in a netCDF file the way tamoc's own tools do (create_nc_db + fill_nc_db)"""
    from tamoc import ambient
    data, names, units = profile_table(prf)
    nc = S.attempt('ambient.create_nc_db', 'scratch-file', {'nc_file': os.path.basename(path)},
                   lambda: ambient.create_nc_db(path, 'C20 synthetic profile', 'harness/c20.py', 'No Sea Name', 28.5, 270.7,
                                                1275177600.0), need=True)
    try:
        S.attempt('ambient.fill_nc_db', 'whole-table', {'names': names, 'units': units, 'rows': int(data.shape[0])},
                  lambda: _nc_numbers(ambient.fill_nc_db(nc, data, names, units, ['synthetic'] * len(names), 0), names),
                  need=True)
    finally:
        nc.close()
    return path


def _nc_numbers(nc, names):
    return {nm: np.array(nc.variables[nm][:], dtype=float) for nm in names if nm in nc.variables}


# =====================================================================================================
# exclusions
# =====================================================================================================

for _m in ('ambient', 'bent_plume_model', 'blowout', 'dbm', 'dbm_p', 'dbm_utilities', 'dispersed_phases', 'params',
           'particle_size_models', 'seawater', 'single_bubble_model', 'stratified_plume_model'):
    exclude('module header (not callable)', _m)

exclude('plotting',
        'ambient.Profile.plot_parameter', 'ambient.Profile.plot_profiles', 'ambient.Profile.plot_physical_profiles',
        'ambient.Profile.plot_chem_profiles',
        'bent_plume_model.Model.plot_psds', 'bent_plume_model.Model.plot_state_space', 'bent_plume_model.Model.plot_all_variables',
        'bent_plume_model.Model.plot_fractions_dissolved', 'bent_plume_model.Model.plot_mass_balance',
        'bent_plume_model.plot_state_space', 'bent_plume_model.plot_all_variables',
        'blowout.Blowout.plot_state_space', 'blowout.Blowout.plot_all_variables',
        'particle_size_models.Model.plot_psd', 'particle_size_models.PureJet.plot_psd', 'particle_size_models.ModelBase.plot_psd',
        'particle_size_models.plot_phase',
        'single_bubble_model.Model.post_process', 'single_bubble_model.plot_state_space',
        'stratified_plume_model.Model.plot_state_space', 'stratified_plume_model.Model.plot_all_variables',
        'stratified_plume_model.plot_state_space', 'stratified_plume_model.plot_all_variables')
exclude('needs an external oil library / data file not distributed with tamoc (adios_db, NOAA OilLibrary record)',
        'dbm_utilities.load_adios_oil')
exclude('docstring: "DO NOT CALL THIS FUNCTION DIRECTLY" (exercised through ambient.fill_nc_db)',
        'ambient.fill_nc_db_variable')


# =====================================================================================================
# seawater
# =====================================================================================================

@entry('seawater.density', 'seawater.mu', 'seawater.k')
def _sw_tsp(S):
    from tamoc import seawater
    for f in ('density', 'mu', 'k'):
        for i in range(S.reps()):
            hot = i % 4 == 3
            T, Sa, P = sw_state(S.r, hot)
            S.attempt('seawater.' + f, 'hot' if hot else 'cold', {'T': T, 'S': Sa, 'P': P},
                      lambda f=f, T=T, Sa=Sa, P=P: getattr(seawater, f)(T, Sa, P))


@entry('seawater.sigma')
def _sw_sigma(S):
    from tamoc import seawater
    for i in range(S.reps()):
        T, Sa, _P = sw_state(S.r, i % 4 == 3)
        S.attempt('seawater.sigma', 'scalar', {'T': T, 'S': Sa}, lambda T=T, Sa=Sa: seawater.sigma(T, Sa))


@entry('seawater.cp')
def _sw_cp(S):
    from tamoc import seawater
    S.attempt('seawater.cp', 'constant', {}, lambda: seawater.cp())


@entry('seawater.pH')
def _sw_ph(S):
    from tamoc import seawater
    for _ in range(S.reps()):
        # dissolved inorganic carbon of ocean water, 1.8-2.4 mmol/l, expressed as the docstring asks (kg/m^3, M = 12.011 g/mol)
        co2 = S.r.uniform(1.8e-3, 2.4e-3) * 12.011
        Ta = S.r.uniform(273.15, 303.15)
        S.attempt('seawater.pH', 'ocean-DIC', {'co2': co2, 'Ta': Ta}, lambda co2=co2, Ta=Ta: seawater.pH(co2, Ta))


# =====================================================================================================
# dbm_p — property routines
# =====================================================================================================

def _phys_scalar(r, name):
    if name == 'de':
        return lu(r, 1e-4, 2e-2)
    if name == 'rho_p':
        return r.choice([lu(r, 1., 300.), r.uniform(600., 1000.)])
    if name == 'rho':
        return r.uniform(1015., 1070.)
    if name == 'mu':
        return lu(r, 5e-4, 2e-3)
    if name == 'mu_p':
        return lu(r, 1e-5, 1e-1)
    if name == 'sigma':
        return lu(r, 1e-3, 8e-2)
    if name == 'us':
        return lu(r, 1e-4, 0.6)
    if name == 'status':
        return r.choice([1, -1])
    if name == 'fp_type':
        return r.choice([0, 1])
    if name in ('theta_w', 'theta_W'):
        return r.uniform(0.3, 3.0)
    if name == 'Eo':
        return lu(r, 1e-3, 1e3)
    if name == 'M':
        return lu(r, 1e-14, 1e-2)
    raise KeyError(name)


PHYS = ['eotvos', 'morton', 'reynolds', 'h_parameter', 'particle_shape', 'theta_w_sc', 'surface_area_sc',
        'surface_area_sphere', 'us_sphere', 'us_ellipsoid', 'us_spherical_cap', 'xfer_kumar_hartland',
        'xfer_johnson', 'xfer_clift', 'xfer_sphere', 'xfer_ellipsoid', 'xfer_spherical_cap']


@entry(*['dbm_p.' + f for f in PHYS])
def _dbm_p_phys(S):
    import inspect
    from tamoc import dbm_p
    r = S.r
    for fn in PHYS:
        params = list(inspect.signature(getattr(dbm_p, fn)).parameters)
        for _ in range(S.reps()):
            a = {}
            for p in params:
                if p == 'D':
                    a[p] = np.array([lu(r, 1e-10, 5e-9) for _ in range(r.randint(1, 5))])
                else:
                    a[p] = _phys_scalar(r, p)
            kind = 'buoyant'
            if fn == 'us_sphere' and r.random() < 0.3:
                a['rho_p'] = r.uniform(1200., 2650.)        # settling sphere: documented use (sand)
                kind = 'settling'
            S.attempt('dbm_p.' + fn, kind, a, lambda fn=fn, a=a, params=params: getattr(dbm_p, fn)(*[a[p] for p in params]))


@entry('dbm_p.cubic_roots')
def _dbm_p_cubic(S):
    from tamoc import dbm_p
    for _ in range(S.reps()):
        A, B = lu(S.r, 1e-3, 2.), lu(S.r, 1e-4, 0.3)
        p = np.array([1., -(1. - B), A - 2. * B - 3. * B ** 2, -(A * B - B ** 2 - B ** 3)])
        S.attempt('dbm_p.cubic_roots', 'PR-cubic', {'p': p}, lambda p=p: dbm_p.cubic_roots(p))


def _db_composition(r, nmin=1, nmax=6):
    """random compounds of the distributed database; water (not a dispersed-phase fluid) and hydrogen (kept for the
    separate `hydrogen-rich` input kind, so that what it triggers has a stable key) are left out"""
    import mixgen
    return mixgen.composition(r, nmin, nmax, exclude=('water', 'hydrogen'))


def _h2_case(S):
    """a hydrogen-dominated mixture at an ocean state: T / Tc_mix > 4.2"""
    from tamoc import dbm
    r = S.r
    comp = ['hydrogen'] + r.sample(['methane', 'nitrogen', 'carbon_dioxide'], r.randint(0, 1))
    fm = dbm.FluidMixture(comp)
    yk = np.array([0.95, 0.05][:len(comp)])
    m = fm.masses(yk / yk.sum())
    T, P = r.uniform(275., 320.), lu(r, 1e5, 2e7)
    return fm, m, T, P, {'composition': comp, 'm': m, 'T': T, 'P': P}


def _mix_case(S, hydrocarbon=False, nmax=6):
    import mixgen
    r = S.r
    if hydrocarbon:
        n = r.randint(1, nmax)
        comp = r.sample(HC_GAS + HC_LIQ, n)
        fm, d = mixgen.mixture(r, comp=comp, peneloux=False)
    else:
        fm, d = mixgen.mixture(r, comp=_db_composition(r, 1, nmax))
    m = mixgen.masses(r, fm.nc)
    T = r.uniform(270., 420.)
    P = lu(r, 1e5, 5e7)
    d = dict(d)
    d.update(mass=[float(v) for v in m], T=T, P=P)
    return fm, m, T, P, d


EOS_FULL = ['density', 'fugacity', 'volume_trans', 'z_pr', 'coefs', 'mole_fraction', 'viscosity']


@entry(*['dbm_p.' + f for f in EOS_FULL])
def _dbm_p_eos(S):
    import inspect
    import mixgen
    from tamoc import dbm_p
    for fn in EOS_FULL:
        params = list(inspect.signature(getattr(dbm_p, fn)).parameters)
        for _ in range(S.reps()):
            fm, m, T, P, d = _mix_case(S)
            e = mixgen.eos_args(fm)
            a = dict(e, T=T, P=P, mass=m, delta_in=e['delta'])
            S.attempt('dbm_p.' + fn, 'nc%d:%s' % (fm.nc, d['delta_mode']), d,
                      lambda fn=fn, a=a, params=params: getattr(dbm_p, fn)(
                          *[np.array(a[p], copy=True) if isinstance(a[p], np.ndarray) else a[p] for p in params]))
    fm, m, T, P, d = _h2_case(S)
    e = mixgen.eos_args(fm)
    S.attempt('dbm_p.viscosity', 'hydrogen-rich', d,
              lambda: dbm_p.viscosity(T, P, m.copy(), e['Mol_wt'], e['Pc'], e['Tc'], e['Vc'], e['omega'], e['delta'].copy(), e['Aij'],
                                      e['Bij'], e['delta_groups'], e['calc_delta'], e['C_pen'], e['C_pen_T']), edge=True)


@entry('dbm_p.kh_insitu', 'dbm_p.sw_solubility', 'dbm_p.diffusivity', 'dbm_p.kvsi_hydrate')
def _dbm_p_sol(S):
    from tamoc import dbm_p
    r = S.r
    for _ in range(S.reps()):
        fm, m, T, P, d = _mix_case(S)
        Ta, Sa = r.uniform(271., 305.), r.uniform(0., 40.)
        S.attempt('dbm_p.kh_insitu', 'database', dict(d, T=Ta, S=Sa),
                  lambda fm=fm, Ta=Ta, Sa=Sa, P=P: dbm_p.kh_insitu(Ta, P, Sa, fm.kh_0, fm.neg_dH_solR, fm.nu_bar, fm.M, fm.K_salt))
        f = np.array([lu(r, 1., 1e8) for _ in range(fm.nc)])
        kh = np.array([lu(r, 1e-9, 1e-4) for _ in range(fm.nc)])
        S.attempt('dbm_p.sw_solubility', 'arrays', {'f': f, 'kh': kh}, lambda f=f, kh=kh: dbm_p.sw_solubility(f, kh))
        mu = lu(r, 5e-4, 2e-3)
        S.attempt('dbm_p.diffusivity', 'database', dict(d, mu=mu), lambda fm=fm, mu=mu: dbm_p.diffusivity(mu, fm.Vb))
        mk = np.array([r.choice([0., r.random()]) for _ in range(8)])
        if mk.sum() == 0.:
            mk[0] = 1.
        Th, Ph = r.uniform(273.15, 300.), lu(r, 5e5, 1.2e7)      # above the ice point, within the fitted pressures of Sloan & Koh Table 4.4a
        S.attempt('dbm_p.kvsi_hydrate', 'eight-formers', {'T_in': Th, 'P_in': Ph, 'mass': mk},
                  lambda Th=Th, Ph=Ph, mk=mk: dbm_p.kvsi_hydrate(Th, Ph, mk))


# =====================================================================================================
# dbm — FluidMixture
# =====================================================================================================

def _single_phase(mi):
    return bool(np.sum(mi[0, :]) == 0. or np.sum(mi[1, :]) == 0.)


def _equil_result(res):
    """(m, xi, K): K is NaN for a single-phase outcome — dbm.py equil_MM l.2640-2668 ('Pure gas' / 'Pure liquid':
    `K = np.zeros(K.shape) + np.nan`) and FluidMixture.equilibrium l.681-682 (`K[:] = np.nan`); in that case only"""
    m, xi, K = res
    if _single_phase(np.asarray(m)) and np.all(np.isnan(K)):
        return NanOK((m, xi), K, 'K of a single-phase flash')
    return res


@entry('dbm.FluidMixture', 'dbm.FluidMixture.masses', 'dbm.FluidMixture.mass_frac', 'dbm.FluidMixture.moles',
       'dbm.FluidMixture.mol_frac', 'dbm.FluidMixture.partial_pressures', 'dbm.FluidMixture.density',
       'dbm.FluidMixture.fugacity', 'dbm.FluidMixture.viscosity', 'dbm.FluidMixture.solubility',
       'dbm.FluidMixture.diffusivity', 'dbm.FluidMixture.biodegradation_rate')
def _fm_basic(S):
    import mixgen
    from tamoc import dbm
    r = S.r
    for _ in range(S.reps()):
        comp = _db_composition(r, 1, 6)
        mode = r.choice(['zero', 'groups', 'const'])
        kw = {}
        if mode == 'groups':
            kw['delta_groups'] = {}
        elif mode == 'const':
            n = len(comp)
            dl = np.zeros((n, n))
            for i in range(n):
                for j in range(i + 1, n):
                    dl[i, j] = dl[j, i] = r.uniform(-0.05, 0.15)
            kw['delta'] = dl
        d0 = {'composition': comp, 'delta_mode': mode}
        fm = S.attempt('dbm.FluidMixture', 'database:' + mode, d0,
                       lambda comp=comp, kw=kw: dbm.FluidMixture(list(comp), **kw), need=True)
        m = mixgen.masses(r, fm.nc)
        n = m / fm.M
        T, P = r.uniform(270., 420.), lu(r, 1e5, 5e7)
        Sa, Ta = r.uniform(0., 40.), r.uniform(271., 305.)
        d = dict(d0, m=m, T=T, P=P)
        k = 'nc%d:%s' % (fm.nc, mode)
        for nm, th in (('masses', lambda: fm.masses(n.copy())), ('mass_frac', lambda: fm.mass_frac(n.copy())),
                       ('moles', lambda: fm.moles(m.copy())), ('mol_frac', lambda: fm.mol_frac(m.copy())),
                       ('partial_pressures', lambda: fm.partial_pressures(m.copy(), P)),
                       ('density', lambda: fm.density(m.copy(), T, P)), ('fugacity', lambda: fm.fugacity(m.copy(), T, P)),
                       ('viscosity', lambda: fm.viscosity(m.copy(), T, P)),
                       ('solubility', lambda: fm.solubility(m.copy(), Ta, P, Sa)),
                       ('diffusivity', lambda: fm.diffusivity(Ta, Sa, P)),
                       ('biodegradation_rate', lambda: (fm.biodegradation_rate(r.choice([0., 1e3, 1e7]), True),
                                                        fm.biodegradation_rate(0., False)))):
            S.attempt('dbm.FluidMixture.' + nm, k, dict(d, Sa=Sa, Ta=Ta), th)
    # hydrogen-dominated mixture (hydrogen is a compound of the distributed database): own key, see _h2_case
    fm, m, T, P, d = _h2_case(S)
    S.attempt('dbm.FluidMixture.viscosity', 'hydrogen-rich', d, lambda: fm.viscosity(m.copy(), T, P), edge=True)


@entry('dbm.FluidMixture.interface_tension')
def _fm_sigma(S):
    import mixgen
    from tamoc import dbm
    r = S.r
    for i in range(S.reps()):
        if i % 3 == 2:
            # air-like fluid: documented `isair=True` correlation (surface tension of seawater)
            fm = dbm.FluidMixture(['nitrogen', 'oxygen'], isair=True)
            m = fm.masses(np.array([0.79, 0.21]))
            kind, d = 'isair', {'composition': fm.composition, 'isair': True}
        else:
            # hydrocarbon mixture (the Danesh correlation is for hydrocarbon / water)
            comp = r.sample(HC_GAS + HC_LIQ, r.randint(1, 5))
            fm = dbm.FluidMixture(comp)
            m = mixgen.masses(r, fm.nc)
            kind, d = 'hydrocarbon', {'composition': comp}
        T, Sa, P = r.uniform(273., 320.), r.uniform(0., 40.), lu(r, 1e5, 4e7)
        S.attempt('dbm.FluidMixture.interface_tension', kind, dict(d, m=m, T=T, S=Sa, P=P),
                  lambda fm=fm, m=m, T=T, Sa=Sa, P=P: fm.interface_tension(m.copy(), T, Sa, P))


def _flash_feed(r, fm):
    import mixgen
    m = mixgen.masses(r, fm.nc, total=1.)
    return m


@entry('dbm.FluidMixture.equilibrium')
def _fm_equil(S):
    from tamoc import dbm
    r = S.r
    for i in range(S.reps()):
        sp = fluid_spec(r, r.choice(['mixed', 'mixed', 'gas', 'liquid']))
        fm = dbm.FluidMixture(list(sp['composition']))
        m = fm.masses(np.array(sp['yk']))
        if i % 4 == 3 and fm.nc > 1:
            m[r.randrange(fm.nc)] = 0.          # documented: zero entries are substituted (replace_zeros)
        T, P = r.uniform(275., 400.), lu(r, 1e5, 3e7)
        d = {'composition': sp['composition'], 'm': m, 'T': T, 'P': P}
        res = S.attempt('dbm.FluidMixture.equilibrium', sp['kind'], d,
                        lambda fm=fm, m=m, T=T, P=P: _equil_result(fm.equilibrium(m.copy(), T, P)))
        if res is FAILED:
            continue
        K = res.nan_ok if isinstance(res, NanOK) else res[2]
        if not np.any(np.isnan(K)):
            # warm start with the converged K (documented optional argument)
            S.attempt('dbm.FluidMixture.equilibrium', sp['kind'] + ':warm-K', dict(d, K=K),
                      lambda fm=fm, m=m, T=T, P=P, K=K: _equil_result(fm.equilibrium(m.copy(), T * 1.01, P, K=np.array(K))))


@entry('dbm.FluidMixture.hydrate_stability')
def _fm_hyd(S):
    import mixgen
    from tamoc import dbm
    r = S.r
    for i in range(S.reps()):
        if i % 3 == 2:
            comp = r.sample(HC_LIQ, r.randint(1, 3))           # no hydrate former: documented value 0
            kind = 'no-former'
        else:
            comp = r.sample(HYD[:5], r.randint(1, 3)) + r.sample(['nitrogen', 'carbon_dioxide'] + HC_LIQ, r.randint(0, 2))
            kind = 'formers'
        fm = dbm.FluidMixture(comp)
        m = mixgen.masses(r, fm.nc)
        P = lu(r, 1e6, 3e7)
        S.attempt('dbm.FluidMixture.hydrate_stability', kind, {'composition': comp, 'm': m, 'P': P},
                  lambda fm=fm, m=m, P=P: fm.hydrate_stability(m.copy(), P))


# =====================================================================================================
# dbm — FluidParticle
# =====================================================================================================

FP_METHODS = ['masses', 'mass_frac', 'moles', 'mol_frac', 'partial_pressures', 'density', 'fugacity', 'viscosity',
              'interface_tension', 'equilibrium', 'solubility', 'diffusivity', 'hydrate_stability', 'biodegradation_rate',
              'masses_by_diameter', 'diameter', 'particle_shape', 'slip_velocity', 'surface_area', 'mass_transfer',
              'heat_transfer', 'return_all']


@entry('dbm.FluidParticle', *['dbm.FluidParticle.' + m for m in FP_METHODS])
def _fp_all(S):
    from tamoc import dbm
    r = S.r
    kinds = ['gas', 'liquid', 'mixed']
    for i in range(S.reps()):
        kind = kinds[i % 3]
        sp = fluid_spec(r, kind)
        fp = S.attempt('dbm.FluidParticle', kind, sp,
                       lambda sp=sp: dbm.FluidParticle(list(sp['composition']), fp_type=sp['fp_type']), need=True)
        yk = np.array(sp['yk'])
        P, Sa, Ta = ocean_state(r)
        T = Ta + r.choice([0., r.uniform(0., 25.)])
        de = lu(r, 1e-4, 2e-2)
        st = r.choice([1, -1])
        d = dict(sp, de=de, T=T, P=P, Sa=Sa, Ta=Ta, status=st)
        m = S.attempt('dbm.FluidParticle.masses_by_diameter', kind, d, lambda: fp.masses_by_diameter(de, T, P, yk.copy()))
        if m is FAILED:
            continue
        n = m / fp.M
        d = dict(d, m=m)
        calls = [
            ('masses', lambda: fp.masses(n.copy())), ('mass_frac', lambda: fp.mass_frac(n.copy())),
            ('moles', lambda: fp.moles(m.copy())), ('mol_frac', lambda: fp.mol_frac(m.copy())),
            ('partial_pressures', lambda: fp.partial_pressures(m.copy(), P)),
            ('density', lambda: fp.density(m.copy(), T, P)), ('fugacity', lambda: fp.fugacity(m.copy(), T, P)),
            ('viscosity', lambda: fp.viscosity(m.copy(), T, P)),
            ('interface_tension', lambda: fp.interface_tension(m.copy(), T, Sa, P)),
            ('equilibrium', lambda: _equil_result(fp.equilibrium(m.copy(), T, P))),
            ('solubility', lambda: fp.solubility(m.copy(), T, P, Sa)),
            ('diffusivity', lambda: fp.diffusivity(Ta, Sa, P)),
            ('hydrate_stability', lambda: fp.hydrate_stability(m.copy(), P)),
            ('biodegradation_rate', lambda: (fp.biodegradation_rate(0., True), fp.biodegradation_rate(1e7, False))),
            ('diameter', lambda: fp.diameter(m.copy(), T, P)),
            ('particle_shape', lambda: fp.particle_shape(m.copy(), T, P, Sa, Ta)),
            ('slip_velocity', lambda: fp.slip_velocity(m.copy(), T, P, Sa, Ta, st)),
            ('surface_area', lambda: fp.surface_area(m.copy(), T, P, Sa, Ta)),
            ('mass_transfer', lambda: fp.mass_transfer(m.copy(), T, P, Sa, Ta, st)),
            ('heat_transfer', lambda: fp.heat_transfer(m.copy(), T, P, Sa, Ta, st)),
            ('return_all', lambda: fp.return_all(m.copy(), T, P, Sa, Ta, st)),
        ]
        for nm, th in calls:
            S.attempt('dbm.FluidParticle.' + nm, kind, d, th)


# =====================================================================================================
# dbm — InsolubleParticle
# =====================================================================================================

IP_METHODS = ['density', 'viscosity', 'interface_tension', 'biodegradation_rate', 'mass_by_diameter', 'diameter',
              'particle_shape', 'slip_velocity', 'surface_area', 'heat_transfer', 'return_all']


@entry('dbm.InsolubleParticle', *['dbm.InsolubleParticle.' + m for m in IP_METHODS])
def _ip_all(S):
    from tamoc import dbm
    r = S.r
    for i in range(S.reps()):
        sp = inert_spec(r, sand=(i % 4 == 3))
        sp['k_bio'], sp['t_bio'] = r.choice([0., 1e-6]), r.choice([0., 3600.])
        kind = 'rigid-settling' if not sp['isfluid'] and sp['rho_p'] > 1100. else ('fluid' if sp['isfluid'] else 'rigid')
        ip = S.attempt('dbm.InsolubleParticle', kind, sp,
                       lambda sp=sp: dbm.InsolubleParticle(sp['isfluid'], sp['iscompressible'], rho_p=sp['rho_p'], gamma=sp['gamma'],
                                                           beta=sp['beta'], co=sp['co'], k_bio=sp['k_bio'], t_bio=sp['t_bio'],
                                                           fp_type=sp['fp_type']), need=True)
        P, Sa, Ta = ocean_state(r)
        T = Ta + r.choice([0., r.uniform(0., 25.)])
        de = lu(r, 1e-4, 1e-2)
        st = r.choice([1, -1])
        d = dict(sp, de=de, T=T, P=P, Sa=Sa, Ta=Ta, status=st)
        m = S.attempt('dbm.InsolubleParticle.mass_by_diameter', kind, d, lambda: ip.mass_by_diameter(de, T, P, Sa, Ta))
        if m is FAILED:
            continue
        m = float(m)
        d = dict(d, m=m)
        rigid = not sp['isfluid']

        def doc_inf(v):
            # "If solid, the viscosity is returned as infinite" / "If solid, the surface tension is returned as infinite"
            # (docstrings of InsolubleParticle.viscosity / .interface_tension): +inf is the documented value, only then
            return 'inf (documented for a solid particle)' if (rigid and v == np.inf) else v

        def shape():
            res = list(ip.particle_shape(m, T, P, Sa, Ta))
            res[4], res[6] = doc_inf(res[4]), doc_inf(res[6])        # mu_p, sigma of a solid particle
            return res
        for nm, th in (('density', lambda: ip.density(T, P, Sa, Ta)), ('viscosity', lambda: doc_inf(ip.viscosity(T))),
                       ('interface_tension', lambda: doc_inf(ip.interface_tension(T))),
                       ('biodegradation_rate', lambda: (ip.biodegradation_rate(0., True), ip.biodegradation_rate(1e5, True),
                                                        ip.biodegradation_rate(0., False))),
                       ('diameter', lambda: ip.diameter(m, T, P, Sa, Ta)),
                       ('particle_shape', shape),
                       ('slip_velocity', lambda: ip.slip_velocity(m, T, P, Sa, Ta, st)),
                       ('surface_area', lambda: ip.surface_area(m, T, P, Sa, Ta)),
                       ('heat_transfer', lambda: ip.heat_transfer(m, T, P, Sa, Ta, st)),
                       ('return_all', lambda: ip.return_all(m, T, P, Sa, Ta, st))):
            S.attempt('dbm.InsolubleParticle.' + nm, kind, d, th)


# =====================================================================================================
# dbm — module helper functions of the flash
# =====================================================================================================

@entry('dbm.equil_MM', 'dbm.stability_analysis', 'dbm.successive_substitution', 'dbm.gas_liq_eq')
def _dbm_helpers(S):
    from tamoc import dbm, dbm_p
    r = S.r
    for _ in range(S.reps()):
        sp = fluid_spec(r, r.choice(['mixed', 'mixed', 'gas', 'liquid']))
        fm = dbm.FluidMixture(list(sp['composition']))
        m = fm.masses(np.array(sp['yk']))
        T, P = r.uniform(275., 400.), lu(r, 1e5, 3e7)
        d = {'composition': sp['composition'], 'm': m, 'T': T, 'P': P}
        args = (fm.M, fm.Pc, fm.Tc, fm.omega, fm.delta, fm.Aij, fm.Bij, fm.delta_groups, fm.calc_delta)

        def eq_mm():
            xi, beta, K = dbm.equil_MM(m.copy(), T, P, *args, None)
            if beta in (0., 1.) and np.all(np.isnan(K)):
                return NanOK((xi, beta), K, 'K of a single-phase flash (equil_MM l.2640-2668)')
            return xi, beta, K
        S.attempt('dbm.equil_MM', sp['kind'], d, eq_mm)
        # Wilson K-factors: the documented standard initial guess (Michelsen & Mollerup eq. 26)
        K0 = np.exp(5.37 * (1. + fm.omega) * (1. - fm.Tc / T)) / (P / fm.Pc)
        d2 = dict(d, K=K0)
        S.attempt('dbm.gas_liq_eq', sp['kind'], d2, lambda: dbm.gas_liq_eq(m.copy(), fm.M, K0.copy()))
        S.attempt('dbm.successive_substitution', sp['kind'], dict(d2, max_iter=3),
                      lambda: dbm.successive_substitution(m.copy(), T, P, 3, *args, K0.copy()))
        moles = m / fm.M
        zi = moles / np.sum(moles)
        f_zi = dbm_p.fugacity(T, P, zi * fm.M, fm.M, fm.Pc, fm.Tc, fm.omega, fm.delta, fm.Aij, fm.Bij, fm.delta_groups,
                              fm.calc_delta)[0, :]
        di = np.log(zi) + np.log(f_zi / (zi * P))
        S.attempt('dbm.stability_analysis', sp['kind'], dict(d2, zi=zi, di=di),
                      lambda: dbm.stability_analysis(m.copy(), T, P, *args, K0.copy(), zi.copy(), di.copy()))



# =====================================================================================================
# the check
# =====================================================================================================

def run(ctx, lean_ok):
    np.random.seed(ctx.rng.randrange(2 ** 31))      # tamoc's far-field concentration model draws from numpy's global RNG
    eps = documented_entry_points()
    S = Scn(ctx)
    only = os.environ.get('C20_ONLY')               # debugging aid: regular expression on entry-point names
    excluded, uncovered, blocked, done = {}, [], {}, set()
    try:
        for ep in eps:
            ent = TABLE.get(ep)
            if ent is None:
                uncovered.append(ep)
                continue
            if isinstance(ent, str):
                excluded.setdefault(ent, []).append(ep)
                continue
            if only and not re.search(only, ep):
                continue
            if ent in done:
                continue
            done.add(ent)
            S.current = ep
            try:
                ent(S)
            except CallFailed:
                pass
            except Blocked as b:
                for e2 in [e for e in eps if TABLE.get(e) is ent]:
                    blocked[e2] = str(b)
            except Exception as e:      # noqa: BLE001 — input preparation raised (tamoc set-up call or harness bug): never hide it
                tb = sys.exc_info()[2]
                S._violate('raises:' + ep, 'preparing the inputs of %s raised %s' % (ep, type(e).__name__),
                           {'entry_point': ep, 'stage': 'input preparation (outside the call under test)',
                            'exception': '%s: %s' % (type(e).__name__, str(e)[:300]), 'failing_line': tamoc_frame(tb),
                            'traceback': ''.join(traceback.format_exception(type(e), e, tb))[-2500:], 'seed': ctx.seed})
    finally:
        S.cleanup()
    called = sorted(e for e in eps if S.calls.get(e, 0) > 0)
    table_only = sorted(e for e in TABLE if e not in eps)
    not_called = sorted(e for e in eps if callable(TABLE.get(e)) and S.calls.get(e, 0) == 0 and e not in blocked
                        and not (only and not re.search(only, e)))
    ctx.evaluations = int(sum(S.calls.values()))
    cov = {
        'documented': len(eps), 'called': len(called), 'excluded': {k: len(v) for k, v in excluded.items()},
        'excluded_total': sum(len(v) for v in excluded.values()), 'uncovered': len(uncovered), 'blocked': len(blocked),
        'in_table_but_never_called': len(not_called), 'calls': ctx.evaluations,
    }
    ctx.notes.append('entry points: %r' % cov)
    if uncovered:
        ctx.notes.append('uncovered (documented, no caller and no exclusion in the table): %s' % ', '.join(uncovered))
    if blocked:
        ctx.notes.append('blocked (a scenario they need could not be built; the failing entry point is reported): %r' % blocked)
    if not_called:
        ctx.notes.append('in the table but not reached in this run: %s' % ', '.join(not_called))
    if table_only:
        ctx.notes.append('table entries that the docs of this repo do not list: %s' % ', '.join(table_only))
    if S.preconditions:
        ctx.notes.append('cases skipped because a documented precondition was not met: %r' % S.preconditions)
    if S.failed:
        ctx.notes.append('violation counts per key: %r' % S.failed)
    if S.slow:
        ctx.notes.append('calls slower than 20 s (entry point, kind, seconds, inputs if > 120 s): %r' % S.slow)
    ctx.oblige('every documented entry point is called, excluded with a reason, or listed as uncovered (%d = %d + %d + %d + %d blocked/unreached)'
               % (len(eps), len(called), cov['excluded_total'], len(uncovered), len(blocked) + len(not_called)),
               len(eps) == len(called) + cov['excluded_total'] + len(uncovered) + len(blocked) + len(not_called)
               or bool(only), '')
    ctx.oblige('the docs list public entry points (parsed %d)' % len(eps), len(eps) > 0, 'no docs/_sources/modules/*.rst found')
    ctx._c20 = {'coverage': cov, 'excluded': excluded, 'uncovered': uncovered, 'blocked': blocked,
                'calls_per_entry_point': dict(sorted(S.calls.items())),
                'input_kinds': {k: sorted(v) for k, v in sorted(S.kinds.items())}}


def extra(ctx):
    return {'c20': getattr(ctx, '_c20', {})}
