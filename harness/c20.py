"""
C20 — Documented entry points complete on valid input.

proof     : TamocV/Props/C20.lean — 14 theorems about definitions regenerated from seawater.py / dbm_p.py: the generated
            well-definedness predicate (no zero denominator, no log / sqrt / real-power domain error) holds on the
            documented ranges for 13 scalar routines — eotvos, morton, reynolds, h_parameter, particle_shape, theta_w_sc,
            us_spherical_cap, us_sphere, surface_area_sc (Gen.PhysPy), mu, sigma, k, density (Gen.SeawaterPy) — plus
            morton_pos.  NOT proved: us_ellipsoid, surface_area_sphere, cp, the vector routines xfer_*, every EOS routine.
tie       : translators re-run on every check (Gen.SeawaterPy, Gen.PhysPy); translator validation by execution is done
            by C13 / C08
real code : everything else, and the whole "rather than raising" half (run-time behaviour of NumPy >= 2 scalar slots, 1-D
            ODE right-hand sides, Python 3 containers ...), is decided HERE by calling the real entry points: the list of
            documented public entry points is parsed at run time from docs/_sources/modules/*.rst of the repo under test
            (the Sphinx SOURCES of docs/modules/*.html); TABLE maps each of them to a caller (valid seeded inputs in the
            documented ranges) or to an exclusion reason; every call must return — within a time limit, without raising —
            and every float in the flattened result must be finite; NaN is accepted only in the exactly described slots
            where it is the documented value.  Coverage is an obligation: no uncovered / never-called entry point, call
            floors, reach floors, pinned inventory, unfiltered run.
keys      : raises:<entry point>:<ExceptionType>@<file>:<function of the innermost tamoc frame>[:<special input kind>],
            nonfinite:<entry point>[:<recorded shape>], hang:<entry point>
"""
import io
import os
import re
import sys
import glob
import math
import time
import shutil
import tempfile
import warnings
import traceback
import contextlib

import numpy as np

import common

META = {
    'text': ('Two halves. (1) "finite", PROVED only for 13 scalar routines: Lean 4 theorems over the reals that the generated '
             'well-definedness predicate (no zero denominator, no log/sqrt/real-power domain error) of the definitions the '
             'translator regenerates from source on each run holds on the documented ranges — dbm_p: eotvos, morton, reynolds, '
             'h_parameter, particle_shape, theta_w_sc, us_spherical_cap, us_sphere, surface_area_sc; seawater: mu, sigma, k, '
             'density (+ morton_pos; 14 theorems, listed in evidence.theorems). Not proved: us_ellipsoid, surface_area_sphere, cp, '
             'the vector xfer_* routines, all EOS routines. (2) Everything else, and "rather than raising" altogether, is run-time '
             'behaviour of the installed NumPy/SciPy/Python and is decided by CALLING the real code: the 300 public entry points '
             'listed in docs/_sources/modules/*.rst (Sphinx sources of docs/modules) are parsed at run time; each is either called '
             'at least twice on valid seeded inputs in its documented ranges (property methods of mixtures and gas / liquid / '
             'two-phase / rigid and fluid inert particles incl. hydrate stability and equilibrium, profile construction/queries, '
             'single-particle / bent-plume / stratified-plume simulations with soluble and inert particles and all their '
             'non-plotting post-processing incl. save/load, size-distribution models, the blowout wrapper, dbm_utilities, '
             'params.Scales) or excluded with a stated reason (37: module headers, plotting, 2 documented-unusable). A raise, a '
             'call that does not return within the time limit, or a non-finite float outside the exactly described documented-NaN '
             'slots is a violation with the inputs to replay; coverage (no uncovered / uncalled entry point, call and reach '
             'floors, pinned inventory, unfiltered run, installed NumPy/SciPy >= declared minimum) is an obligation.'),
    'note': ('Trusted: Lean kernel + 3 standard axioms; translator py2ir/ir2lean (validated by execution in C13/C08); real '
             'arithmetic for doubles. Partial: 13 scalar routines of seawater.py / dbm_p.py are proved finite; everything else '
             '(remaining dbm_p routines, EOS loops, flash, ODE integrations, I/O) is decided by SAMPLING the real entry points on '
             'generated valid inputs — a raise that needs an input outside the generators is not seen; constructors and methods '
             'returning None are judged by the numeric attributes they leave behind. Only names listed in docs/_sources/modules are '
             'entry points: lmp, smp, psf, chemical_properties, model_share are undocumented and reached only through the documented '
             'callers. The two-phase particle / flash cases of the quick tier are pre-screened for a fast, two-phase flash (the '
             'thorough tier also draws unscreened feeds). Recorded defects are matched by exception type + innermost tamoc frame + '
             'input kind, or by the exact shape of the non-finite rows; anything else at the same scenario is a violation.'),
    'technique': ('Lean 4 well-definedness theorems over definitions regenerated from source (13 routines) + call-through of the whole '
                  'documented API (parsed from the docs) on seeded valid inputs with a finiteness / termination predicate and coverage '
                  'obligations'),
}
GEN = ['seawater', 'phys']
MODULES = ['TamocV.Props.C20', 'TamocV.Gen.SeawaterPy', 'TamocV.Gen.PhysPy']
RULE = ('entry points = names under `.. currentmodule::` + autosummary in docs/_sources/modules/*.rst of the repo under test; '
        'per entry point at least 2 calls, normally quick 3 / thorough 30 seeded inputs (simulations quick 2 per model, thorough 10 — '
        'blowout 2 / 5 —, reused by all post-processing entry points) drawn inside the documented ranges with fixed schedules so that '
        'every tier reaches: seawater T 271-313 K (Gill branch), 313-373 K (Sun et al. branch) and 373-450 K, S = 0 / 0-35 / 35-42, '
        'P 1e5-1.1e8 Pa; particle sizes 0.1-20 mm; database mixtures of 1-6 compounds at 270-420 K, 1e5-5e7 Pa; gas, liquid, '
        'two-phase (flash pre-screened fast and two-phase), fluid and rigid inert particles; synthetic casts 200-3000 m with and '
        'without density inversions, currents, dissolved compounds, world-ocean profile, netCDF / xarray / array input forms; '
        'releases 100-1500 m deep with soluble, inert and mixed particle lists, tracked and untracked; a case is non-trivial when '
        'its (entry point, input kind) key is new')
LEVEL_NOTE = META['note']
LEANCHECKER = True

SCRATCH = '/root/scratch/c20'
MAX_PER_KEY = 3           # violations recorded per key (the first ones carry the replay)


def audit_files():
    return ['TamocV/Num.lean', 'TamocV/Real.lean', 'TamocV/Lemmas/Basic.lean', 'TamocV/Lemmas/C20.lean',
            'TamocV/Props/C20.lean', 'TamocV/Gen/SeawaterPy.lean', 'TamocV/Gen/PhysPy.lean']


# =====================================================================================================
# documented entry points
# =====================================================================================================

def documented_entry_points(repo=None):
    """names listed by autosummary under each `.. currentmodule::` of docs/_sources/modules/*.rst"""
    repo = repo or common.REPO
    out = []
    for f in sorted(glob.glob(os.path.join(repo, 'docs', '_sources', 'modules', '*.rst'))):
        cur, inauto = None, False
        for line in open(f):
            m = re.match(r'\.\. currentmodule::\s*(\S+)', line)
            if m:
                cur, inauto = m.group(1), False
                continue
            if re.match(r'\.\. autosummary::', line):
                inauto = True
                continue
            if inauto:
                if not line.strip():
                    continue
                if line[0] in ' \t':
                    s = line.strip()
                    if not s.startswith(':') and cur:
                        name = cur + '.' + s
                        if name not in out:
                            out.append(name)
                else:
                    inauto = False
    return out


# =====================================================================================================
# infrastructure: quiet execution, finiteness predicate, scenario context
# =====================================================================================================

@contextlib.contextmanager
def quiet():
    with warnings.catch_warnings():
        warnings.simplefilter('ignore')
        with np.errstate(all='ignore'):
            with contextlib.redirect_stdout(io.StringIO()):
                yield


class NanOK(object):
    """result wrapper: `strict` must be finite; `nan_ok` may contain NaN (documented) but no inf"""
    def __init__(self, strict, nan_ok, why):
        self.strict, self.nan_ok, self.why = strict, nan_ok, why


def _walk(x, path, out, allow_nan, depth=0):
    if depth > 8 or x is None or isinstance(x, (str, bytes, bool, np.bool_, int, np.integer)):
        return
    if isinstance(x, (float, np.floating)):
        v = float(x)
        if math.isinf(v) or (math.isnan(v) and not allow_nan):
            out.append((path, v))
        return
    if isinstance(x, (complex, np.complexfloating)):
        _walk(float(np.real(x)), path + '.re', out, allow_nan, depth + 1)
        _walk(float(np.imag(x)), path + '.im', out, allow_nan, depth + 1)
        return
    if isinstance(x, np.ndarray):
        a = np.ma.getdata(x) if np.ma.isMaskedArray(x) else x
        if a.dtype.kind in 'fc':
            bad = np.isinf(a) if allow_nan else ~np.isfinite(a)
            if np.any(bad):
                idx = tuple(int(i) for i in np.argwhere(bad)[0])
                out.append(('%s[%s] (%d of %d entries)' % (path, ','.join(map(str, idx)), int(np.sum(bad)), a.size),
                            complex(a[idx]) if a.dtype.kind == 'c' else float(a[idx])))
        elif a.dtype.kind == 'O':
            for i, v in enumerate(a.ravel()):
                _walk(v, '%s[%d]' % (path, i), out, allow_nan, depth + 1)
        return
    if isinstance(x, NanOK):
        _walk(x.strict, path, out, allow_nan, depth + 1)
        _walk(x.nan_ok, path + '(nan-ok)', out, True, depth + 1)
        return
    if isinstance(x, (list, tuple, set)):
        for i, v in enumerate(x):
            _walk(v, '%s[%d]' % (path, i), out, allow_nan, depth + 1)
        return
    if isinstance(x, dict):
        for k, v in x.items():
            _walk(v, '%s[%r]' % (path, k), out, allow_nan, depth + 1)
        return
    # any other object (Profile, Particle, Dataset ...) is a completed return value without floats of its own


def nonfinite(x):
    out = []
    _walk(x, 'result', out, False)
    return out


def J(x, depth=0):
    """JSON-able description of an input"""
    if depth > 6:
        return '...'
    if x is None or isinstance(x, (str, bool, int, float)):
        return x
    if isinstance(x, (np.bool_,)):
        return bool(x)
    if isinstance(x, np.integer):
        return int(x)
    if isinstance(x, np.floating):
        return float(x)
    if isinstance(x, np.ndarray):
        if x.size > 400:
            return {'ndarray shape': list(x.shape), 'first': J(x.ravel()[:8]), 'last': J(x.ravel()[-4:])}
        return x.tolist()
    if isinstance(x, (list, tuple)):
        return [J(v, depth + 1) for v in x]
    if isinstance(x, dict):
        return {str(k): J(v, depth + 1) for k, v in x.items()}
    d = getattr(x, '_c20_descr', None)
    if d is not None:
        return J(d, depth + 1)
    return '<%s>' % type(x).__name__


def tamoc_frame(tb):
    """last frame of the traceback that lies in tamoc (file:line: source)"""
    loc = ''
    for fr in traceback.extract_tb(tb):
        if os.sep + 'tamoc' + os.sep in fr.filename:
            loc = '%s:%d: %s' % (os.path.basename(fr.filename), fr.lineno, (fr.line or '').strip())
    return loc


def raise_signature(e, tb):
    """mechanism of a raise: exception type + innermost frame inside the package under test, `Type@file.py:function`
    (no line number: it moves with unrelated edits).  A raise that never entered tamoc is marked `@harness`."""
    where = 'harness'
    for fr in traceback.extract_tb(tb):
        if os.sep + 'tamoc' + os.sep in fr.filename:
            where = '%s:%s' % (os.path.basename(fr.filename), fr.name)
    return '%s@%s' % (type(e).__name__, where)


class Finding(object):
    """returned by a thunk that has itself established a non-finite result of one exactly characterised, recorded shape
    (`kind`): reported under the key `nonfinite:<entry point>:<kind>`.  Anything that does not match the recorded
    shape must be returned raw so that the generic predicate (and the generic key) applies."""
    def __init__(self, kind, detail):
        self.kind, self.detail = kind, detail


class _Failed(object):
    def __repr__(self):
        return 'FAILED'

    def __bool__(self):
        return False


FAILED = _Failed()


class _Timeout(BaseException):
    """a single call exceeded the per-call time limit (not a property violation: recorded as a note)"""


@contextlib.contextmanager
def time_limit(seconds):
    import signal
    import threading
    if threading.current_thread() is not threading.main_thread() or not hasattr(signal, 'setitimer'):
        yield
        return

    def handler(signum, frame):
        raise _Timeout()
    old = signal.signal(signal.SIGALRM, handler)
    signal.setitimer(signal.ITIMER_REAL, seconds)
    try:
        yield
    finally:
        signal.setitimer(signal.ITIMER_REAL, 0.)
        signal.signal(signal.SIGALRM, old)


class AbortRun(Exception):
    """three entry points did not return: the rest of the run is abandoned (every coverage obligation then fails)"""


class CallFailed(Exception):
    """an attempted entry-point call raised or returned non-finite values (already recorded)"""


class Blocked(Exception):
    """a scenario needed by this entry point could not be built (recorded at the entry point that failed)"""


class Scn(object):
    """shared, lazily built scenario context + the call recorder"""

    def __init__(self, ctx):
        self.ctx = ctx
        self.r = ctx.rng
        self.n = ctx.n(3, 30)                # inputs per cheap entry point
        self.nsim = ctx.n(2, 10)             # simulations per model
        self.cache = {}
        self.calls = {}                      # ep -> number of calls
        self.failed = {}                     # key -> count
        self.kinds = {}                      # ep -> set of kinds
        self.preconditions = {}              # ep -> count of skipped cases (documented precondition not met)
        self.slow = []                       # calls that took more than 20 s
        self.nhang = 0
        self.reach = {}                      # branch / configuration -> how often reached (floors in run())
        self.call_limit = ctx.n(180., 600.)  # s per call; an entry point that has not returned by then is a `hang:` violation
        self.t0 = time.time()
        self.budget = ctx.n(140., 1500.)     # s; afterwards repetitions shrink to 1
        os.makedirs(SCRATCH, exist_ok=True)
        self.root = tempfile.mkdtemp(prefix='run', dir=SCRATCH)
        self._ntmp = 0
        self.current = None

    # ---- bookkeeping ---------------------------------------------------------------------------
    def reps(self, n=None):
        n = self.n if n is None else n
        return 1 if (time.time() - self.t0) > self.budget else n

    def tmp(self, stem='f'):
        """fresh path prefix inside the scratch run directory (no dots: tamoc splits file names at dots)"""
        self._ntmp += 1
        return os.path.join(self.root, '%s%d' % (stem, self._ntmp))

    def cleanup(self):
        shutil.rmtree(self.root, ignore_errors=True)

    def reached(self, what, k=1):
        self.reach[what] = self.reach.get(what, 0) + k

    def skip(self, ep, why):
        self.preconditions.setdefault(ep, {})
        self.preconditions[ep][why] = self.preconditions[ep].get(why, 0) + 1

    def _violate(self, key, what, case):
        k = self.failed.get(key, 0)
        self.failed[key] = k + 1
        if k < MAX_PER_KEY:
            self.ctx.violation(key, what, case)

    def attempt(self, ep, kind, inputs, thunk, edge=False, need=False):
        """call `thunk` (which calls entry point `ep` of the real code on `inputs`), apply the property predicate.
        edge=True marks a special input kind whose violations get their own key (`...:<kind>`).
        Returns the result; on a violation returns FAILED (need=False) or raises CallFailed (need=True: the caller
        cannot go on without the result)."""
        ep = ep if ep.startswith('tamoc.') else 'tamoc.' + ep
        self.calls[ep] = self.calls.get(ep, 0) + 1
        self.kinds.setdefault(ep, set()).add(kind)
        self.ctx.nontrivial.add((ep, kind))
        self.ctx.count(ep.split('.')[1] + ':' + kind if len(kind) < 40 else ep.split('.')[1])
        suffix = (':' + kind) if edge else ''
        t_call = time.time()
        try:
            try:
                with quiet(), time_limit(self.call_limit):
                    res = thunk()
            finally:
                dt = time.time() - t_call
                if dt > 20.:
                    self.slow.append((ep, kind, round(dt, 1), J(inputs) if dt > 120. else None))
        except (KeyboardInterrupt, SystemExit, MemoryError):
            raise
        except _Timeout:
            # "complete on valid input": an entry point that does not come back within the (generous) limit is a violation
            self._violate('hang:' + ep, '%s did not return within %g s for a valid input (%s)' % (ep, self.call_limit, kind),
                          {'entry_point': ep, 'input_kind': kind, 'inputs': J(inputs), 'limit_s': self.call_limit, 'seed': self.ctx.seed})
            self.nhang += 1
            if self.nhang >= 3:
                raise AbortRun('3 entry points did not return within %g s' % self.call_limit)
            if need:
                raise CallFailed(ep)
            return FAILED
        except BaseException as e:      # noqa: BLE001 — the property is exactly "does not raise"
            tb = sys.exc_info()[2]
            sig = raise_signature(e, tb)
            # key = entry point + mechanism (exception type @ innermost tamoc frame) [+ special input kind]: a recorded defect is
            # matched only by the same error from the same routine at the same kind of input
            self._violate('raises:%s:%s%s' % (ep, sig, suffix),
                          '%s raised %s for a valid input (%s)' % (ep, type(e).__name__, kind),
                          {'entry_point': ep, 'input_kind': kind, 'signature': sig, 'inputs': J(inputs),
                           'exception': '%s: %s' % (type(e).__name__, str(e)[:300]), 'failing_line': tamoc_frame(tb),
                           'traceback': ''.join(traceback.format_exception(type(e), e, tb))[-2500:], 'seed': self.ctx.seed})
            if need:
                raise CallFailed(ep)
            return FAILED
        if isinstance(res, Finding):
            self._violate('nonfinite:%s:%s' % (ep, res.kind),
                          '%s returned non-finite values of the recorded shape %r (%s)' % (ep, res.kind, kind),
                          {'entry_point': ep, 'input_kind': kind, 'inputs': J(inputs), 'nonfinite': J(res.detail), 'seed': self.ctx.seed})
            if need:
                raise CallFailed(ep)
            return FAILED
        bad = nonfinite(res)
        if bad:
            self._violate('nonfinite:' + ep + suffix,
                          '%s returned a non-finite value for a valid input (%s)' % (ep, kind),
                          {'entry_point': ep, 'input_kind': kind, 'inputs': J(inputs),
                           'nonfinite': [{'where': p, 'value': str(v)} for p, v in bad[:6]], 'seed': self.ctx.seed})
            if need:
                raise CallFailed(ep)
            return FAILED
        if len(self.ctx.samples) < 6 and self.calls[ep] == 1 and self.r.random() < 0.05:
            self.ctx.sample({'entry_point': ep, 'input_kind': kind, 'inputs': J(inputs), 'result': J(_strip(res))})
        return res

    def get(self, name):
        """lazily build a shared scenario; a failing builder blocks its dependants (the failing entry-point call
        itself has been recorded by `attempt`)"""
        if name not in self.cache:
            try:
                with quiet():
                    self.cache[name] = ('ok', BUILDERS[name](self))
            except (CallFailed, Blocked) as e:
                self.cache[name] = ('blocked', str(e))
            except AbortRun:
                raise
            except ImportError:
                raise                          # a missing harness module / tamoc module is an infrastructure failure (exit 2)
            except Exception as e:            # noqa: BLE001
                tb = sys.exc_info()[2]
                owner = BUILDER_OWNER.get(name, 'harness')
                self._violate('raises:%s:%s' % (owner, raise_signature(e, tb)), 'building the shared scenario %r raised %s' % (name, type(e).__name__),
                              {'entry_point': owner, 'scenario': name, 'exception': '%s: %s' % (type(e).__name__, str(e)[:300]),
                               'failing_line': tamoc_frame(tb),
                               'traceback': ''.join(traceback.format_exception(type(e), e, tb))[-2500:], 'seed': self.ctx.seed})
                self.cache[name] = ('blocked', owner)
        st = self.cache[name]
        if st[0] != 'ok':
            raise Blocked('%s (%s)' % (name, st[1]))
        return st[1]


def _strip(res):
    if isinstance(res, NanOK):
        return {'strict': res.strict, 'nan_ok': res.nan_ok}
    return res


TABLE = {}          # entry point -> caller function f(S)  |  exclusion reason (str)
BUILDERS = {}       # scenario name -> builder f(S)
BUILDER_OWNER = {}  # scenario name -> entry point blamed when the builder itself raises outside `attempt`


def entry(*names):
    def deco(f):
        for n in names:
            TABLE['tamoc.' + n] = f
        return f
    return deco


def exclude(reason, *names):
    for n in names:
        TABLE['tamoc.' + n] = reason


def builder(name, owner):
    def deco(f):
        BUILDERS[name] = f
        BUILDER_OWNER[name] = owner if owner.startswith('tamoc.') else 'tamoc.' + owner
        return f
    return deco


# =====================================================================================================
# generators of valid inputs
# =====================================================================================================

HC_GAS = ['methane', 'ethane', 'propane', 'isobutane', 'n-butane']
HC_LIQ = ['n-pentane', 'isopentane', 'neopentane', 'n-hexane', '2-methylpentane', '3-methylpentane', 'neohexane',
          '2-3-dimethylbutane', 'n-heptane', 'benzene', 'toluene', 'ethylbenzene', 'n-decane']
AIR = ['nitrogen', 'oxygen', 'argon', 'carbon_dioxide']
HYD = ['methane', 'ethane', 'propane', 'isobutane', 'n-butane', 'nitrogen', 'carbon_dioxide', 'hydrogen_sulfide']
G = 9.81


def lu(r, lo, hi):
    return math.exp(r.uniform(math.log(lo), math.log(hi)))


def dirichlet(r, n, first=0.):
    w = [r.gammavariate(1.5, 1.) + 1e-3 for _ in range(n)]
    s = sum(w)
    w = [x / s for x in w]
    if first > 0. and n > 1:
        w = [x * (1. - first) for x in w]
        w[0] += first
    return np.array(w)


def sw_state(r, hot=False):
    """(T, S, P) inside the documented ranges of seawater.py"""
    T = r.uniform(313.15, 373.) if hot else r.uniform(271., 313.15)
    S = r.choice([0., r.uniform(0., 42.), r.uniform(30., 37.)])
    P = r.choice([101325., lu(r, 1e5, 1.1e8)])
    return T, S, P


def ocean_state(r):
    """(P, Sa, Ta) of an ocean point at 10-3000 m"""
    z = lu(r, 10., 3000.)
    Ta = 273.15 + 2. + 24. * math.exp(-z / r.uniform(100., 600.))
    Sa = r.uniform(32., 36.5)
    return 101325. + 1027. * G * z, Sa, Ta


def fluid_spec(r, kind, nmax=4):
    """kind: gas | liquid | mixed (two-phase capable: light + heavy hydrocarbons)"""
    if kind == 'gas':
        n = r.randint(1, nmax)
        comp = [r.choice(['methane', 'methane', 'ethane', 'nitrogen', 'oxygen'])]
        comp += r.sample([c for c in HC_GAS + AIR if c != comp[0]], n - 1)
        yk = dirichlet(r, n, first=0.6)
        fp = 0
    elif kind == 'liquid':
        n = r.randint(1, nmax)
        comp = r.sample(HC_LIQ, n)
        yk = dirichlet(r, n)
        fp = 1
    else:
        comp = r.sample(HC_GAS[:3], r.randint(1, 2)) + r.sample(HC_LIQ, r.randint(1, 2))
        yk = dirichlet(r, len(comp))
        fp = 2
    return {'kind': kind, 'composition': comp, 'yk': [float(v) for v in yk], 'fp_type': fp}


def inert_spec(r, sand=False):
    if sand:
        return {'kind': 'inert', 'isfluid': False, 'iscompressible': False, 'rho_p': r.uniform(1500., 2650.), 'gamma': 30.,
                'beta': 0.0007, 'co': 2.9e-9, 'fp_type': 1}
    # buoyant oil-like particle at every ocean depth: API gravity 30-45 (<= 876 kg/m^3 at 60 deg F), compressibility and thermal
    # expansion of crude oils (at most ~10 % denser at 3000 m / 2 deg C)
    return {'kind': 'inert', 'isfluid': r.random() < 0.8, 'iscompressible': r.random() < 0.7, 'rho_p': r.uniform(700., 940.),
            'gamma': r.uniform(30., 45.), 'beta': r.uniform(3e-4, 1e-3), 'co': r.uniform(5e-10, 3e-9),
            'fp_type': r.choice([1, 1, 0])}


def build_dbm(sp):
    from tamoc import dbm
    if sp['kind'] == 'inert':
        o = dbm.InsolubleParticle(sp['isfluid'], sp['iscompressible'], rho_p=sp['rho_p'], gamma=sp['gamma'], beta=sp['beta'],
                                  co=sp['co'], k_bio=sp.get('k_bio', 0.), t_bio=sp.get('t_bio', 0.), fp_type=sp['fp_type'])
    else:
        o = dbm.FluidParticle(list(sp['composition']), fp_type=sp['fp_type'])
    o._c20_descr = sp
    return o


def yk_of(sp):
    return np.array([1.]) if sp['kind'] == 'inert' else np.array(sp['yk'], dtype=float)


# ---- ambient profiles -----------------------------------------------------------------------------

def profile_spec(r, H=None, current='random', chems=(), n=None):
    H = H or r.choice([300., 800., 1500., 3000.])
    if current == 'random':
        current = r.choice(['none', 'uniform', 'sheared'])
    cur = None
    if current == 'uniform':
        s, a = r.uniform(0.03, 0.3), r.uniform(0., 2. * math.pi)
        cur = [[0., s * math.cos(a), s * math.sin(a), 0.], [H, s * math.cos(a), s * math.sin(a), 0.]]
    elif current == 'sheared':
        cur = []
        for z in (0., r.uniform(0.2, 0.8) * H, H):
            s, a = r.uniform(0.03, 0.3), r.uniform(0., 2. * math.pi)
            cur.append([z, s * math.cos(a), s * math.sin(a), 0.])
    return {'H': H, 'n': n or r.randint(15, 60), 'Ts': 273.15 + r.uniform(8., 28.), 'Tb': 273.15 + r.uniform(2., 5.),
            'hT': r.uniform(80., 500.), 'Ss': r.uniform(32., 35.), 'dS': r.uniform(0.3, 1.5), 'hS': r.uniform(200., 800.),
            'current': cur, 'chems': {c: [10 ** r.uniform(-6, -3), 10 ** r.uniform(-6, -3)] for c in chems}}


def profile_columns(ps):
    z = np.linspace(0., ps['H'], int(ps['n']))
    T = ps['Tb'] + (ps['Ts'] - ps['Tb']) * np.exp(-z / ps['hT'])
    S = ps['Ss'] + ps['dS'] * (1. - np.exp(-z / ps['hS']))
    return z, T, S


def build_profile(ps):
    """array route (depth, temperature, salinity): tamoc integrates the pressure; currents and dissolved
    compounds are appended"""
    from tamoc import ambient
    z, T, S = profile_columns(ps)
    prf = ambient.Profile(np.vstack((z, T, S)).T, ztsp=['z', 'temperature', 'salinity', 'pressure'],
                          ztsp_units=['m', 'K', 'psu', 'Pa'])
    if ps.get('current'):
        prf.append(np.array(ps['current'], dtype=float), ['z', 'ua', 'va', 'wa'], ['m', 'm/s', 'm/s', 'm/s'], z_col=0)
    for c, (ct, cb) in ps.get('chems', {}).items():
        prf.append(np.array([[0., ct], [ps['H'], cb]]), ['z', c], ['m', 'kg/m^3'], z_col=0)
    prf._c20_descr = ps
    return prf


def profile_table(prf):
    """(data, names, units) of everything the profile holds"""
    from tamoc import ambient
    return ambient.xr_dataset_to_array(prf.interp_ds, prf.ztsp[0])


def write_profile_nc(S, prf, path):
    """store the profile in a netCDF file the way tamoc's own tools do (create_nc_db + fill_nc_db)"""
    from tamoc import ambient
    data, names, units = profile_table(prf)
    nc = S.attempt('ambient.create_nc_db', 'scratch-file', {'nc_file': os.path.basename(path)},
                   lambda: ambient.create_nc_db(path, 'C20 synthetic profile', 'harness/c20.py', 'No Sea Name', 28.5, 270.7,
                                                1275177600.0), need=True)
    try:
        S.attempt('ambient.fill_nc_db', 'whole-table', {'names': names, 'units': units, 'rows': int(data.shape[0])},
                  lambda: _nc_numbers(ambient.fill_nc_db(nc, data, names, units, ['synthetic'] * len(names), 0), names),
                  need=True)
    finally:
        nc.close()
    return path


def _nc_numbers(nc, names):
    return {nm: np.array(nc.variables[nm][:], dtype=float) for nm in names if nm in nc.variables}


# =====================================================================================================
# exclusions
# =====================================================================================================

for _m in ('ambient', 'bent_plume_model', 'blowout', 'dbm', 'dbm_p', 'dbm_utilities', 'dispersed_phases', 'params',
           'particle_size_models', 'seawater', 'single_bubble_model', 'stratified_plume_model'):
    exclude('module header (not callable)', _m)

exclude('plotting',
        'ambient.Profile.plot_parameter', 'ambient.Profile.plot_profiles', 'ambient.Profile.plot_physical_profiles',
        'ambient.Profile.plot_chem_profiles',
        'bent_plume_model.Model.plot_psds', 'bent_plume_model.Model.plot_state_space', 'bent_plume_model.Model.plot_all_variables',
        'bent_plume_model.Model.plot_fractions_dissolved', 'bent_plume_model.Model.plot_mass_balance',
        'bent_plume_model.plot_state_space', 'bent_plume_model.plot_all_variables',
        'blowout.Blowout.plot_state_space', 'blowout.Blowout.plot_all_variables',
        'particle_size_models.Model.plot_psd', 'particle_size_models.PureJet.plot_psd', 'particle_size_models.ModelBase.plot_psd',
        'particle_size_models.plot_phase',
        'single_bubble_model.Model.post_process', 'single_bubble_model.plot_state_space',
        'stratified_plume_model.Model.plot_state_space', 'stratified_plume_model.Model.plot_all_variables',
        'stratified_plume_model.plot_state_space', 'stratified_plume_model.plot_all_variables')
exclude('needs an external oil library / data file not distributed with tamoc (adios_db, NOAA OilLibrary record)',
        'dbm_utilities.load_adios_oil')
exclude('docstring: "DO NOT CALL THIS FUNCTION DIRECTLY" (exercised through ambient.fill_nc_db)',
        'ambient.fill_nc_db_variable')


# =====================================================================================================
# seawater
# =====================================================================================================

# every run visits the three temperature ranges of seawater.py (Gill/EOS-80 branch below 40 deg C, Sun et al. branch above,
# liquid water above the normal boiling point under pressure) and the salinity classes S = 0, S > 35 and in between
SW_SCHEDULE = [('cold', 'S=0'), ('hot', 'S>35'), ('above-boiling', 'mid'), ('cold', 'S>35'), ('hot', 'S=0'), ('cold', 'mid'),
               ('above-boiling', 'S>35'), ('hot', 'mid'), ('above-boiling', 'S=0')]


def _sw_case(S, i):
    r = S.r
    tk, sk = SW_SCHEDULE[i % len(SW_SCHEDULE)]
    T = {'cold': r.uniform(271., 313.15), 'hot': r.uniform(313.15, 373.15), 'above-boiling': r.uniform(373.15, 450.)}[tk]
    Sa = {'S=0': 0., 'S>35': r.uniform(35.01, 42.), 'mid': r.uniform(0., 35.)}[sk]
    P = r.choice([101325., lu(r, 1e5, 1.1e8)]) if tk != 'above-boiling' else lu(r, 2e6, 1.1e8)     # liquid above 100 deg C
    if tk == 'hot':
        S.reached('seawater:hot-branch')
    if tk == 'above-boiling':
        S.reached('seawater:above-boiling')
    return tk + ':' + sk, T, Sa, P


@entry('seawater.density', 'seawater.mu', 'seawater.k')
def _sw_tsp(S):
    from tamoc import seawater
    for f in ('density', 'mu', 'k'):
        for i in range(max(S.reps(), 4)):
            kind, T, Sa, P = _sw_case(S, i)
            if f == 'k' and Sa > 35.:
                S.reached('seawater.k:S>35')
            S.attempt('seawater.' + f, kind, {'T': T, 'S': Sa, 'P': P},
                      lambda f=f, T=T, Sa=Sa, P=P: getattr(seawater, f)(T, Sa, P))


@entry('seawater.sigma')
def _sw_sigma(S):
    from tamoc import seawater
    for i in range(max(S.reps(), 4)):
        kind, T, Sa, _P = _sw_case(S, i)
        S.attempt('seawater.sigma', kind, {'T': T, 'S': Sa}, lambda T=T, Sa=Sa: seawater.sigma(T, Sa))


@entry('seawater.cp')
def _sw_cp(S):
    from tamoc import seawater
    for _ in range(2):
        S.attempt('seawater.cp', 'constant', {}, lambda: seawater.cp())


@entry('seawater.pH')
def _sw_ph(S):
    from tamoc import seawater
    for _ in range(S.reps()):
        # dissolved inorganic carbon of ocean water, 1.8-2.4 mmol/l, expressed as the docstring asks (kg/m^3, M = 12.011 g/mol)
        co2 = S.r.uniform(1.8e-3, 2.4e-3) * 12.011
        Ta = S.r.uniform(273.15, 303.15)
        S.attempt('seawater.pH', 'ocean-DIC', {'co2': co2, 'Ta': Ta}, lambda co2=co2, Ta=Ta: seawater.pH(co2, Ta))


# =====================================================================================================
# dbm_p — property routines
# =====================================================================================================

def _phys_scalar(r, name):
    if name == 'de':
        return lu(r, 1e-4, 2e-2)
    if name == 'rho_p':
        return r.choice([lu(r, 1., 300.), r.uniform(600., 1000.)])
    if name == 'rho':
        return r.uniform(1015., 1070.)
    if name == 'mu':
        return lu(r, 5e-4, 2e-3)
    if name == 'mu_p':
        return lu(r, 1e-5, 1e-1)
    if name == 'sigma':
        return lu(r, 1e-3, 8e-2)
    if name == 'us':
        return lu(r, 1e-4, 0.6)
    if name == 'status':
        return r.choice([1, -1])
    if name == 'fp_type':
        return r.choice([0, 1])
    if name in ('theta_w', 'theta_W'):
        return r.uniform(0.3, 3.0)
    if name == 'Eo':
        return lu(r, 1e-3, 1e3)
    if name == 'M':
        return lu(r, 1e-14, 1e-2)
    raise KeyError(name)


PHYS = ['eotvos', 'morton', 'reynolds', 'h_parameter', 'particle_shape', 'theta_w_sc', 'surface_area_sc',
        'surface_area_sphere', 'us_sphere', 'us_ellipsoid', 'us_spherical_cap', 'xfer_kumar_hartland',
        'xfer_johnson', 'xfer_clift', 'xfer_sphere', 'xfer_ellipsoid', 'xfer_spherical_cap']


@entry(*['dbm_p.' + f for f in PHYS])
def _dbm_p_phys(S):
    import inspect
    from tamoc import dbm_p
    r = S.r
    for fn in PHYS:
        params = list(inspect.signature(getattr(dbm_p, fn)).parameters)
        for _ in range(S.reps()):
            a = {}
            for p in params:
                if p == 'D':
                    a[p] = np.array([lu(r, 1e-10, 5e-9) for _ in range(r.randint(1, 5))])
                else:
                    a[p] = _phys_scalar(r, p)
            kind = 'buoyant'
            if fn == 'us_sphere' and r.random() < 0.3:
                a['rho_p'] = r.uniform(1200., 2650.)        # settling sphere: documented use (sand)
                kind = 'settling'
            S.attempt('dbm_p.' + fn, kind, a, lambda fn=fn, a=a, params=params: getattr(dbm_p, fn)(*[a[p] for p in params]))


@entry('dbm_p.cubic_roots')
def _dbm_p_cubic(S):
    from tamoc import dbm_p
    for _ in range(S.reps()):
        A, B = lu(S.r, 1e-3, 2.), lu(S.r, 1e-4, 0.3)
        p = np.array([1., -(1. - B), A - 2. * B - 3. * B ** 2, -(A * B - B ** 2 - B ** 3)])
        S.attempt('dbm_p.cubic_roots', 'PR-cubic', {'p': p}, lambda p=p: dbm_p.cubic_roots(p))


def _db_composition(r, nmin=1, nmax=6):
    """random compounds of the distributed database; water (not a dispersed-phase fluid) and hydrogen (kept for the
    separate `hydrogen-rich` input kind, so that what it triggers has a stable key) are left out"""
    import mixgen
    return mixgen.composition(r, nmin, nmax, exclude=('water', 'hydrogen'))


def _h2_case(S):
    """a hydrogen-dominated mixture at an ocean state: T / Tc_mix > 4.2"""
    from tamoc import dbm
    r = S.r
    comp = ['hydrogen'] + r.sample(['methane', 'nitrogen', 'carbon_dioxide'], r.randint(0, 1))
    fm = dbm.FluidMixture(comp)
    yk = np.array([0.95, 0.05][:len(comp)])
    m = fm.masses(yk / yk.sum())
    T, P = r.uniform(275., 320.), lu(r, 1e5, 2e7)
    return fm, m, T, P, {'composition': comp, 'm': m, 'T': T, 'P': P}


def _mix_case(S, hydrocarbon=False, nmax=6):
    import mixgen
    r = S.r
    if hydrocarbon:
        n = r.randint(1, nmax)
        comp = r.sample(HC_GAS + HC_LIQ, n)
        fm, d = mixgen.mixture(r, comp=comp, peneloux=False)
    else:
        fm, d = mixgen.mixture(r, comp=_db_composition(r, 1, nmax))
    m = mixgen.masses(r, fm.nc)
    T = r.uniform(270., 420.)
    P = lu(r, 1e5, 5e7)
    d = dict(d)
    d.update(mass=[float(v) for v in m], T=T, P=P)
    return fm, m, T, P, d


EOS_FULL = ['density', 'fugacity', 'volume_trans', 'z_pr', 'coefs', 'mole_fraction', 'viscosity']


@entry(*['dbm_p.' + f for f in EOS_FULL])
def _dbm_p_eos(S):
    import inspect
    import mixgen
    from tamoc import dbm_p
    for fn in EOS_FULL:
        params = list(inspect.signature(getattr(dbm_p, fn)).parameters)
        for _ in range(S.reps()):
            fm, m, T, P, d = _mix_case(S)
            e = mixgen.eos_args(fm)
            a = dict(e, T=T, P=P, mass=m, delta_in=e['delta'])
            S.attempt('dbm_p.' + fn, 'nc%d:%s' % (fm.nc, d['delta_mode']), d,
                      lambda fn=fn, a=a, params=params: getattr(dbm_p, fn)(
                          *[np.array(a[p], copy=True) if isinstance(a[p], np.ndarray) else a[p] for p in params]))
    fm, m, T, P, d = _h2_case(S)
    e = mixgen.eos_args(fm)
    S.attempt('dbm_p.viscosity', 'hydrogen-rich', d,
              lambda: dbm_p.viscosity(T, P, m.copy(), e['Mol_wt'], e['Pc'], e['Tc'], e['Vc'], e['omega'], e['delta'].copy(), e['Aij'],
                                      e['Bij'], e['delta_groups'], e['calc_delta'], e['C_pen'], e['C_pen_T']))


@entry('dbm_p.kh_insitu', 'dbm_p.sw_solubility', 'dbm_p.diffusivity', 'dbm_p.kvsi_hydrate')
def _dbm_p_sol(S):
    from tamoc import dbm_p
    r = S.r
    for _ in range(S.reps()):
        fm, m, T, P, d = _mix_case(S)
        Ta, Sa = r.uniform(271., 305.), r.uniform(0., 40.)
        S.attempt('dbm_p.kh_insitu', 'database', dict(d, T=Ta, S=Sa),
                  lambda fm=fm, Ta=Ta, Sa=Sa, P=P: dbm_p.kh_insitu(Ta, P, Sa, fm.kh_0, fm.neg_dH_solR, fm.nu_bar, fm.M, fm.K_salt))
        f = np.array([lu(r, 1., 1e8) for _ in range(fm.nc)])
        kh = np.array([lu(r, 1e-9, 1e-4) for _ in range(fm.nc)])
        S.attempt('dbm_p.sw_solubility', 'arrays', {'f': f, 'kh': kh}, lambda f=f, kh=kh: dbm_p.sw_solubility(f, kh))
        mu = lu(r, 5e-4, 2e-3)
        S.attempt('dbm_p.diffusivity', 'database', dict(d, mu=mu), lambda fm=fm, mu=mu: dbm_p.diffusivity(mu, fm.Vb))
        mk = np.array([r.choice([0., r.random()]) for _ in range(8)])
        if mk.sum() == 0.:
            mk[0] = 1.
        Th, Ph = r.uniform(273.15, 300.), lu(r, 5e5, 1.2e7)      # above the ice point, within the fitted pressures of Sloan & Koh Table 4.4a
        S.attempt('dbm_p.kvsi_hydrate', 'eight-formers', {'T_in': Th, 'P_in': Ph, 'mass': mk},
                  lambda Th=Th, Ph=Ph, mk=mk: dbm_p.kvsi_hydrate(Th, Ph, mk))


# =====================================================================================================
# dbm — FluidMixture
# =====================================================================================================

# Harness-owned table of two-phase feeds (no call into the package decides what is admitted): a supercritical light gas
# (methane, optionally with a little ethane / nitrogen; 55-80 mol %) together with liquids far below their boiling point, at
# 278-320 K and 2-6 MPa — far below the bubble-point pressure of such a mixture (> 10 MPa for methane / n-heptane ... n-decane at
# these methane fractions) and far above its dew point, so gas and liquid coexist (vapour-liquid data of methane / n-alkane
# and methane / aromatic binaries, e.g. Reamer et al. 1942, Lin et al. 1979).  Validated once off line (720 draws, all two-phase,
# slowest flash 0.03 s); the check itself never pre-runs the flash to select a case.
TWO_PHASE_LIGHT = [['methane'], ['methane', 'ethane'], ['methane', 'nitrogen']]
TWO_PHASE_HEAVY = [['n-decane'], ['n-heptane'], ['toluene'], ['n-decane', 'benzene'], ['n-hexane', 'ethylbenzene'],
                   ['n-decane', 'n-heptane', 'toluene']]


def _two_phase_case(S):
    """-> (spec, FluidMixture, masses of one mole of feed, T, P) of a feed that is two-phase by the table above"""
    from tamoc import dbm
    r = S.r
    L, H = r.choice(TWO_PHASE_LIGHT), r.choice(TWO_PHASE_HEAVY)
    zl = r.uniform(0.55, 0.8)
    wl = np.array([1.] + [r.uniform(0.05, 0.2) for _ in L[1:]])
    wh = np.array([r.uniform(0.3, 1.) for _ in H])
    yk = np.concatenate([wl / wl.sum() * zl, wh / wh.sum() * (1. - zl)])
    sp = {'kind': 'mixed', 'composition': L + H, 'yk': [float(v) for v in yk], 'fp_type': 2, 'table': 'two-phase'}
    fm = dbm.FluidMixture(list(sp['composition']))
    return sp, fm, fm.masses(yk), r.uniform(278., 320.), r.uniform(2.e6, 6.e6)


def _judge_table_flash(S, mi):
    """the flash of a feed from the harness's two-phase table must report a gas AND a liquid phase (counted; obliged in run())"""
    ok = bool(np.sum(mi[0, :]) > 0. and np.sum(mi[1, :]) > 0.)
    S.reached('table-feed:flash-two-phase' if ok else 'table-feed:flash-SINGLE-PHASE')
    return ok


def _single_phase(mi):
    return bool(np.sum(mi[0, :]) == 0. or np.sum(mi[1, :]) == 0.)


def _equil_result(res):
    """(m, xi, K): K is NaN for a single-phase outcome — dbm.py equil_MM l.2640-2668 ('Pure gas' / 'Pure liquid':
    `K = np.zeros(K.shape) + np.nan`) and FluidMixture.equilibrium l.681-682 (`K[:] = np.nan`); in that case only"""
    m, xi, K = res
    if _single_phase(np.asarray(m)) and np.all(np.isnan(K)):
        return NanOK((m, xi), K, 'K of a single-phase flash')
    return res


@entry('dbm.FluidMixture', 'dbm.FluidMixture.masses', 'dbm.FluidMixture.mass_frac', 'dbm.FluidMixture.moles',
       'dbm.FluidMixture.mol_frac', 'dbm.FluidMixture.partial_pressures', 'dbm.FluidMixture.density',
       'dbm.FluidMixture.fugacity', 'dbm.FluidMixture.viscosity', 'dbm.FluidMixture.solubility',
       'dbm.FluidMixture.diffusivity', 'dbm.FluidMixture.biodegradation_rate')
def _fm_basic(S):
    import mixgen
    from tamoc import dbm
    r = S.r
    for _ in range(S.reps()):
        comp = _db_composition(r, 1, 6)
        mode = r.choice(['zero', 'groups', 'const'])
        kw = {}
        if mode == 'groups':
            kw['delta_groups'] = {}
        elif mode == 'const':
            n = len(comp)
            dl = np.zeros((n, n))
            for i in range(n):
                for j in range(i + 1, n):
                    dl[i, j] = dl[j, i] = r.uniform(-0.05, 0.15)
            kw['delta'] = dl
        d0 = {'composition': comp, 'delta_mode': mode}
        fm = S.attempt('dbm.FluidMixture', 'database:' + mode, d0,
                       lambda comp=comp, kw=kw: dbm.FluidMixture(list(comp), **kw), need=True)
        S.attempt('dbm.FluidMixture', 'database:' + mode + ':attributes', d0, lambda: _obj_numbers(fm))
        m = mixgen.masses(r, fm.nc)
        n = m / fm.M
        T, P = r.uniform(270., 420.), lu(r, 1e5, 5e7)
        Sa, Ta = r.uniform(0., 40.), r.uniform(271., 305.)
        d = dict(d0, m=m, T=T, P=P)
        k = 'nc%d:%s' % (fm.nc, mode)
        for nm, th in (('masses', lambda: fm.masses(n.copy())), ('mass_frac', lambda: fm.mass_frac(n.copy())),
                       ('moles', lambda: fm.moles(m.copy())), ('mol_frac', lambda: fm.mol_frac(m.copy())),
                       ('partial_pressures', lambda: fm.partial_pressures(m.copy(), P)),
                       ('density', lambda: fm.density(m.copy(), T, P)), ('fugacity', lambda: fm.fugacity(m.copy(), T, P)),
                       ('viscosity', lambda: fm.viscosity(m.copy(), T, P)),
                       ('solubility', lambda: fm.solubility(m.copy(), Ta, P, Sa)),
                       ('diffusivity', lambda: fm.diffusivity(Ta, Sa, P)),
                       ('biodegradation_rate', lambda: (fm.biodegradation_rate(r.choice([0., 1e3, 1e7]), True),
                                                        fm.biodegradation_rate(0., False)))):
            S.attempt('dbm.FluidMixture.' + nm, k, dict(d, Sa=Sa, Ta=Ta), th)
    # hydrogen-dominated mixture (hydrogen is a compound of the distributed database): own key, see _h2_case
    fm, m, T, P, d = _h2_case(S)
    S.attempt('dbm.FluidMixture.viscosity', 'hydrogen-rich', d, lambda: fm.viscosity(m.copy(), T, P))


@entry('dbm.FluidMixture.interface_tension')
def _fm_sigma(S):
    import mixgen
    from tamoc import dbm
    r = S.r
    for i in range(S.reps()):
        if i % 3 == 2:
            # air-like fluid: documented `isair=True` correlation (surface tension of seawater)
            fm = dbm.FluidMixture(['nitrogen', 'oxygen'], isair=True)
            m = fm.masses(np.array([0.79, 0.21]))
            kind, d = 'isair', {'composition': fm.composition, 'isair': True}
        else:
            # hydrocarbon mixture (the Danesh correlation is for hydrocarbon / water)
            comp = r.sample(HC_GAS + HC_LIQ, r.randint(1, 5))
            fm = dbm.FluidMixture(comp)
            m = mixgen.masses(r, fm.nc)
            kind, d = 'hydrocarbon', {'composition': comp}
        T, Sa, P = r.uniform(273., 320.), r.uniform(0., 40.), lu(r, 1e5, 4e7)
        S.attempt('dbm.FluidMixture.interface_tension', kind, dict(d, m=m, T=T, S=Sa, P=P),
                  lambda fm=fm, m=m, T=T, Sa=Sa, P=P: fm.interface_tension(m.copy(), T, Sa, P))


def _flash_feed(r, fm):
    import mixgen
    m = mixgen.masses(r, fm.nc, total=1.)
    return m


@entry('dbm.FluidMixture.equilibrium')
def _fm_equil(S):
    from tamoc import dbm
    r = S.r
    for i in range(max(S.reps(), 4)):
        which = ('two-phase', 'gas', 'liquid', 'unscreened')[i % 4]
        if which == 'two-phase':
            sp, fm, m, T, P = _two_phase_case(S)
        else:
            sp = fluid_spec(r, 'mixed' if which == 'unscreened' else which)
            fm = dbm.FluidMixture(list(sp['composition']))
            m = fm.masses(np.array(sp['yk']))
            T, P = r.uniform(275., 400.), lu(r, 1e5, 3e7)
        if i % 4 == 3 and fm.nc > 1:
            m[r.randrange(fm.nc)] = 0.          # documented: zero entries are substituted (replace_zeros)
        d = {'composition': sp['composition'], 'm': m, 'T': T, 'P': P}
        res = S.attempt('dbm.FluidMixture.equilibrium', which, d,
                        lambda fm=fm, m=m, T=T, P=P: _equil_result(fm.equilibrium(m.copy(), T, P)))
        if res is FAILED:
            continue
        K = res.nan_ok if isinstance(res, NanOK) else res[2]
        S.reached('equilibrium:single-phase' if isinstance(res, NanOK) else 'equilibrium:two-phase')
        if which == 'two-phase':
            _judge_table_flash(S, (res.strict if isinstance(res, NanOK) else res)[0])
        if not np.any(np.isnan(K)):
            # warm start with the converged K (documented optional argument)
            S.attempt('dbm.FluidMixture.equilibrium', which + ':warm-K', dict(d, K=K),
                      lambda fm=fm, m=m, T=T, P=P, K=K: _equil_result(fm.equilibrium(m.copy(), T * 1.01, P, K=np.array(K))))


@entry('dbm.FluidMixture.hydrate_stability')
def _fm_hyd(S):
    import mixgen
    from tamoc import dbm
    r = S.r
    for i in range(S.reps()):
        if i % 3 == 2:
            comp = r.sample(HC_LIQ, r.randint(1, 3))           # no hydrate former: documented value 0
            kind = 'no-former'
        else:
            comp = r.sample(HYD[:5], r.randint(1, 3)) + r.sample(['nitrogen', 'carbon_dioxide'] + HC_LIQ, r.randint(0, 2))
            kind = 'formers'
        fm = dbm.FluidMixture(comp)
        m = mixgen.masses(r, fm.nc)
        P = lu(r, 1e6, 3e7)
        S.attempt('dbm.FluidMixture.hydrate_stability', kind, {'composition': comp, 'm': m, 'P': P},
                  lambda fm=fm, m=m, P=P: fm.hydrate_stability(m.copy(), P))


# =====================================================================================================
# dbm — FluidParticle
# =====================================================================================================

FP_METHODS = ['masses', 'mass_frac', 'moles', 'mol_frac', 'partial_pressures', 'density', 'fugacity', 'viscosity',
              'interface_tension', 'equilibrium', 'solubility', 'diffusivity', 'hydrate_stability', 'biodegradation_rate',
              'masses_by_diameter', 'diameter', 'particle_shape', 'slip_velocity', 'surface_area', 'mass_transfer',
              'heat_transfer', 'return_all']


@entry('dbm.FluidParticle', *['dbm.FluidParticle.' + m for m in FP_METHODS])
def _fp_all(S):
    from tamoc import dbm
    r = S.r
    nrep = S.reps()
    for i in range(nrep):
        # gas, liquid and two-phase particle in turn (every tier reaches all three).  The two-phase particle is a feed of the
        # harness's own two-phase table (_two_phase_case; nothing is pre-run); every sixth case is an unscreened random
        # light + heavy mixture at an ocean state
        kind = ('gas', 'liquid', 'mixed')[i % 3]
        table = False
        if kind == 'mixed' and i % 6 == 5:
            sp = fluid_spec(r, 'mixed')
            P, Sa, Ta = ocean_state(r)
            T = Ta + r.choice([0., r.uniform(0., 25.)])
        elif kind == 'mixed':
            table = True
            sp, _fm, _m1, T, P = _two_phase_case(S)
            Sa, Ta = r.uniform(32., 36.5), T
        else:
            sp = fluid_spec(r, kind)
            P, Sa, Ta = ocean_state(r)
            T = Ta + r.choice([0., r.uniform(0., 25.)])
        fp = S.attempt('dbm.FluidParticle', kind, sp,
                       lambda sp=sp: dbm.FluidParticle(list(sp['composition']), fp_type=sp['fp_type']), need=True)
        S.attempt('dbm.FluidParticle', kind + ':attributes', sp, lambda: _obj_numbers(fp))
        yk = np.array(sp['yk'])
        de = lu(r, 1e-4, 2e-2)
        st = r.choice([1, -1])
        d = dict(sp, de=de, T=T, P=P, Sa=Sa, Ta=Ta, status=st)
        m = S.attempt('dbm.FluidParticle.masses_by_diameter', kind, d, lambda: fp.masses_by_diameter(de, T, P, yk.copy()))
        if m is FAILED:
            continue
        n = m / fp.M
        d = dict(d, m=m)
        calls = [
            ('masses', lambda: fp.masses(n.copy())), ('mass_frac', lambda: fp.mass_frac(n.copy())),
            ('moles', lambda: fp.moles(m.copy())), ('mol_frac', lambda: fp.mol_frac(m.copy())),
            ('partial_pressures', lambda: fp.partial_pressures(m.copy(), P)),
            ('density', lambda: fp.density(m.copy(), T, P)), ('fugacity', lambda: fp.fugacity(m.copy(), T, P)),
            ('viscosity', lambda: fp.viscosity(m.copy(), T, P)),
            ('interface_tension', lambda: fp.interface_tension(m.copy(), T, Sa, P)),
            ('equilibrium', lambda: _equil_result(fp.equilibrium(m.copy(), T, P))),
            ('solubility', lambda: fp.solubility(m.copy(), T, P, Sa)),
            ('diffusivity', lambda: fp.diffusivity(Ta, Sa, P)),
            ('hydrate_stability', lambda: fp.hydrate_stability(m.copy(), P)),
            ('biodegradation_rate', lambda: (fp.biodegradation_rate(0., True), fp.biodegradation_rate(1e7, False))),
            ('diameter', lambda: fp.diameter(m.copy(), T, P)),
            ('particle_shape', lambda: fp.particle_shape(m.copy(), T, P, Sa, Ta)),
            ('slip_velocity', lambda: fp.slip_velocity(m.copy(), T, P, Sa, Ta, st)),
            ('surface_area', lambda: fp.surface_area(m.copy(), T, P, Sa, Ta)),
            ('mass_transfer', lambda: fp.mass_transfer(m.copy(), T, P, Sa, Ta, st)),
            ('heat_transfer', lambda: fp.heat_transfer(m.copy(), T, P, Sa, Ta, st)),
            ('return_all', lambda: fp.return_all(m.copy(), T, P, Sa, Ta, st)),
        ]
        two_phase = table              # by the harness's table, not by asking the package
        S.reached('FluidParticle:' + ('mixed-two-phase' if two_phase else ('mixed-unscreened' if kind == 'mixed' else kind)))
        if two_phase:
            S.reached('FluidParticle.masses_by_diameter:mixed-two-phase')
        for nm, th in calls:
            res_ = S.attempt('dbm.FluidParticle.' + nm, kind + (':table' if table else ''), d, th)
            if two_phase:
                S.reached('FluidParticle.%s:mixed-two-phase' % nm)
                if nm == 'equilibrium' and res_ is not FAILED:
                    _judge_table_flash(S, (res_.strict if isinstance(res_, NanOK) else res_)[0])


# =====================================================================================================
# dbm — InsolubleParticle
# =====================================================================================================

IP_METHODS = ['density', 'viscosity', 'interface_tension', 'biodegradation_rate', 'mass_by_diameter', 'diameter',
              'particle_shape', 'slip_velocity', 'surface_area', 'heat_transfer', 'return_all']


@entry('dbm.InsolubleParticle', *['dbm.InsolubleParticle.' + m for m in IP_METHODS])
def _ip_all(S):
    from tamoc import dbm
    r = S.r
    for i in range(S.reps()):
        sp = inert_spec(r, sand=(i % 3 == 1))          # fluid / rigid settling / fluid ... : every tier reaches a rigid particle
        if i % 3 == 2:
            sp['isfluid'] = True
        sp['k_bio'], sp['t_bio'] = r.choice([0., 1e-6]), r.choice([0., 3600.])
        kind = 'rigid-settling' if not sp['isfluid'] and sp['rho_p'] > 1100. else ('fluid' if sp['isfluid'] else 'rigid')
        ip = S.attempt('dbm.InsolubleParticle', kind, sp,
                       lambda sp=sp: dbm.InsolubleParticle(sp['isfluid'], sp['iscompressible'], rho_p=sp['rho_p'], gamma=sp['gamma'],
                                                           beta=sp['beta'], co=sp['co'], k_bio=sp['k_bio'], t_bio=sp['t_bio'],
                                                           fp_type=sp['fp_type']), need=True)
        S.reached('InsolubleParticle:' + ('fluid' if sp['isfluid'] else 'rigid'))
        S.attempt('dbm.InsolubleParticle', kind + ':attributes', sp, lambda: _obj_numbers(ip))
        P, Sa, Ta = ocean_state(r)
        T = Ta + r.choice([0., r.uniform(0., 25.)])
        de = lu(r, 1e-4, 1e-2)
        st = r.choice([1, -1])
        d = dict(sp, de=de, T=T, P=P, Sa=Sa, Ta=Ta, status=st)
        m = S.attempt('dbm.InsolubleParticle.mass_by_diameter', kind, d, lambda: ip.mass_by_diameter(de, T, P, Sa, Ta))
        if m is FAILED:
            continue
        m = float(m)
        d = dict(d, m=m)
        rigid = not sp['isfluid']

        def doc_inf(v):
            # "If solid, the viscosity is returned as infinite" / "If solid, the surface tension is returned as infinite"
            # (docstrings of InsolubleParticle.viscosity / .interface_tension): +inf is the documented value, only then
            return 'inf (documented for a solid particle)' if (rigid and v == np.inf) else v

        def shape():
            res = list(ip.particle_shape(m, T, P, Sa, Ta))
            res[4], res[6] = doc_inf(res[4]), doc_inf(res[6])        # mu_p, sigma of a solid particle
            return res
        for nm, th in (('density', lambda: ip.density(T, P, Sa, Ta)), ('viscosity', lambda: doc_inf(ip.viscosity(T))),
                       ('interface_tension', lambda: doc_inf(ip.interface_tension(T))),
                       ('biodegradation_rate', lambda: (ip.biodegradation_rate(0., True), ip.biodegradation_rate(1e5, True),
                                                        ip.biodegradation_rate(0., False))),
                       ('diameter', lambda: ip.diameter(m, T, P, Sa, Ta)),
                       ('particle_shape', shape),
                       ('slip_velocity', lambda: ip.slip_velocity(m, T, P, Sa, Ta, st)),
                       ('surface_area', lambda: ip.surface_area(m, T, P, Sa, Ta)),
                       ('heat_transfer', lambda: ip.heat_transfer(m, T, P, Sa, Ta, st)),
                       ('return_all', lambda: ip.return_all(m, T, P, Sa, Ta, st))):
            S.attempt('dbm.InsolubleParticle.' + nm, kind, d, th)


# =====================================================================================================
# dbm — module helper functions of the flash
# =====================================================================================================

@entry('dbm.equil_MM', 'dbm.stability_analysis', 'dbm.successive_substitution', 'dbm.gas_liq_eq')
def _dbm_helpers(S):
    from tamoc import dbm, dbm_p
    r = S.r
    for i in range(max(S.reps(), 4)):
        which = ('two-phase', 'gas', 'liquid', 'unscreened')[i % 4]
        if which == 'two-phase':
            sp, fm, m, T, P = _two_phase_case(S)
        else:
            sp = fluid_spec(r, 'mixed' if which == 'unscreened' else which)
            fm = dbm.FluidMixture(list(sp['composition']))
            m = fm.masses(np.array(sp['yk']))
            T, P = r.uniform(275., 400.), lu(r, 1e5, 3e7)
        sp = dict(sp, kind=which)
        d = {'composition': sp['composition'], 'm': m, 'T': T, 'P': P}
        args = (fm.M, fm.Pc, fm.Tc, fm.omega, fm.delta, fm.Aij, fm.Bij, fm.delta_groups, fm.calc_delta)

        def eq_mm():
            xi, beta, K = dbm.equil_MM(m.copy(), T, P, *args, None)
            if beta in (0., 1.) and np.all(np.isnan(K)):
                return NanOK((xi, beta), K, 'K of a single-phase flash (equil_MM l.2640-2668)')
            return xi, beta, K
        S.attempt('dbm.equil_MM', sp['kind'], d, eq_mm)
        # Wilson K-factors: the documented standard initial guess (Michelsen & Mollerup eq. 26)
        K0 = np.exp(5.37 * (1. + fm.omega) * (1. - fm.Tc / T)) / (P / fm.Pc)
        d2 = dict(d, K=K0)
        S.attempt('dbm.gas_liq_eq', sp['kind'], d2, lambda: dbm.gas_liq_eq(m.copy(), fm.M, K0.copy()))
        S.attempt('dbm.successive_substitution', sp['kind'], dict(d2, max_iter=3),
                      lambda: dbm.successive_substitution(m.copy(), T, P, 3, *args, K0.copy()))
        moles = m / fm.M
        zi = moles / np.sum(moles)
        f_zi = dbm_p.fugacity(T, P, zi * fm.M, fm.M, fm.Pc, fm.Tc, fm.omega, fm.delta, fm.Aij, fm.Bij, fm.delta_groups,
                              fm.calc_delta)[0, :]
        di = np.log(zi) + np.log(f_zi / (zi * P))
        S.attempt('dbm.stability_analysis', sp['kind'], dict(d2, zi=zi, di=di),
                      lambda: dbm.stability_analysis(m.copy(), T, P, *args, K0.copy(), zi.copy(), di.copy()))


# =====================================================================================================
# dispersed_phases
# =====================================================================================================

def _particle_case(S, kinds=('gas', 'liquid', 'inert'), current='random', chems=False):
    """(profile, z0, dbm object, spec, yk) for a release inside a synthetic profile"""
    r = S.r
    kind = r.choice(list(kinds))
    sp = inert_spec(r) if kind == 'inert' else fluid_spec(r, kind)
    ps = profile_spec(r, current=current, chems=(sp['composition'] if (chems and kind != 'inert') else ()))
    prf = build_profile(ps)
    z0 = r.uniform(0.3, 0.95) * ps['H']
    return prf, z0, build_dbm(sp), sp, yk_of(sp)


def _cp(m0):
    """initial_conditions returns an array (soluble) or a float (inert): hand over what it returned, arrays as copies"""
    return np.array(m0, copy=True) if isinstance(m0, np.ndarray) and m0.ndim > 0 else m0


def _wrap_args(r):
    return dict(K=r.choice([1., 1., r.uniform(0.2, 2.)]), K_T=r.choice([1., 1., 0., r.uniform(0.2, 2.)]),
                fdis=10 ** r.uniform(-8, -2), t_hyd=r.choice([0., 0., r.uniform(1., 500.)]), lag_time=r.random() < 0.5)


def _particle_numbers(p):
    out = [p.m0, p.T0, p.cp, p.K, p.K_T, p.fdis, p.t_hyd]
    for a in ('m', 'T', 'us', 'rho_p', 'A', 'Cs', 'beta', 'beta_T', 'k_bio', 'nb0', 'lambda_1'):
        if hasattr(p, a):
            out.append(getattr(p, a))
    return out


@entry('dispersed_phases.initial_conditions', 'dispersed_phases.SingleParticle', 'dispersed_phases.SingleParticle.properties',
       'dispersed_phases.SingleParticle.diameter', 'dispersed_phases.SingleParticle.biodegradation_rate',
       'dispersed_phases.PlumeParticle', 'dispersed_phases.PlumeParticle.properties', 'dispersed_phases.PlumeParticle.diameter',
       'dispersed_phases.PlumeParticle.biodegradation_rate', 'dispersed_phases.PlumeParticle.update')
def _dp_particles(S):
    from tamoc import dispersed_phases as dp
    r = S.r
    kinds = ['gas', 'liquid', 'inert']
    for i in range(S.reps()):
        prf, z0, obj, sp, yk = _particle_case(S, kinds=(kinds[i % 3],))
        kind = sp['kind']
        de = lu(r, 2e-4, 1.5e-2)
        q_type = r.choice([0, 1, 2])
        q = None if q_type == 0 else (lu(r, 1e-3, 1.) if q_type == 1 else lu(r, 1e-2, 10.))
        T0 = r.choice([None, None, float(prf.get_values(z0, ['temperature'])[0]) + r.uniform(0., 30.)])
        d = dict(sp, profile=prf._c20_descr, z0=z0, de=de, q=q, q_type=q_type, T0=T0)
        ic = S.attempt('dispersed_phases.initial_conditions', '%s:q_type%d' % (kind, q_type), d,
                       lambda: dp.initial_conditions(prf, z0, obj, yk.copy(), q, q_type, de, T0))
        if ic is FAILED:
            continue
        m0, T0p, nb0, P, Sa, Ta = ic
        w = _wrap_args(r)
        d = dict(d, m0=m0, T0=T0p, nb0=nb0, P=P, Sa=Sa, Ta=Ta, **w)
        for cls in ('SingleParticle', 'PlumeParticle'):
            if cls == 'SingleParticle':
                part = S.attempt('dispersed_phases.SingleParticle', kind, d,
                                 lambda: dp.SingleParticle(obj, _cp(m0), T0p, **w))
            else:
                lam = r.uniform(0.7, 1.)
                part = S.attempt('dispersed_phases.PlumeParticle', kind, dict(d, lambda_1=lam),
                                 lambda: dp.PlumeParticle(obj, _cp(m0), T0p, nb0, lam, P, Sa, Ta, **w))
            if part is FAILED:
                continue
            S.attempt('dispersed_phases.' + cls, kind + ':attributes', d, lambda: _particle_numbers(part))
            # a later state of the same particle: smaller masses, other depth, age before / after t_hyd
            f = r.uniform(0.05, 1.)
            m = np.atleast_1d(np.array(m0, dtype=float)) * f
            z1 = r.uniform(prf.z_min, z0)
            Ta1, Sa1, P1 = prf.get_values(z1, ['temperature', 'salinity', 'pressure'])
            T1 = Ta1 + r.choice([0., r.uniform(0., 10.)])
            t = r.choice([0., r.uniform(0., 1000.), 1e5])
            d1 = dict(d, m=m, T=T1, P=P1, Sa=Sa1, Ta=Ta1, t=t)
            S.attempt('dispersed_phases.%s.properties' % cls, kind, d1, lambda: part.properties(m.copy(), T1, P1, Sa1, Ta1, t))
            S.attempt('dispersed_phases.%s.diameter' % cls, kind, d1, lambda: part.diameter(m.copy(), T1, P1, Sa1, Ta1))
            S.attempt('dispersed_phases.%s.biodegradation_rate' % cls, kind, d1, lambda: part.biodegradation_rate(t))
            if cls == 'PlumeParticle':
                def upd(mm):
                    part.update(mm, T1, P1, Sa1, Ta1, t)
                    return _particle_numbers(part)
                S.attempt('dispersed_phases.PlumeParticle.update', kind, d1, lambda: upd(m.copy()))
                # documented branch: all mass gone (dissolved particle)
                S.attempt('dispersed_phases.PlumeParticle.update', kind + ':dissolved', dict(d1, m=0. * m), lambda: upd(0. * m))


def _plume_particles(S, n=None, need_soluble=False, current='random'):
    """a list of PlumeParticle objects sharing one profile and (for the soluble ones) one composition"""
    from tamoc import stratified_plume_model as spm
    r = S.r
    n = n or r.randint(1, 3)
    gas = fluid_spec(r, 'gas')
    ps = profile_spec(r, current=current, chems=gas['composition'] if r.random() < 0.5 else ())
    prf = build_profile(ps)
    z0 = r.uniform(0.4, 0.95) * ps['H']
    parts, specs = [], []
    for i in range(n):
        if (need_soluble and i == 0) or r.random() < 0.6:
            sp = dict(gas, yk=[float(v) for v in dirichlet(r, len(gas['composition']), first=0.6)])
        else:
            sp = inert_spec(r)
        sp = dict(sp, mb0=lu(r, 1e-2, 2.), de=lu(r, 5e-4, 1e-2), lambda_1=r.uniform(0.7, 1.))
        obj = build_dbm(sp)
        parts.append(spm.particle_from_mb0(prf, z0, obj, yk_of(sp), sp['mb0'], sp['de'], sp['lambda_1']))
        specs.append(sp)
    return prf, z0, parts, {'profile': ps, 'z0': z0, 'particles': specs}


@entry('dispersed_phases.zfe_volume_flux', 'dispersed_phases.wuest_ic', 'dispersed_phases.bf_average',
       'dispersed_phases.get_chem_names', 'dispersed_phases.particles_state_space')
def _dp_ic(S):
    from tamoc import dispersed_phases as dp, stratified_plume_model as spm, bent_plume_model as bpm, seawater
    r = S.r
    for i in range(S.reps()):
        prf, z0, parts, d = _plume_particles(S)
        p = spm.ModelParams(prf) if i % 2 == 0 else bpm.ModelParams(prf)
        R = lu(r, 0.02, 0.5)
        X0 = r.choice([z0, [0., 0., z0], np.array([0., 0., z0])])
        kind = '%dparticles:%s' % (len(parts), 'spm' if i % 2 == 0 else 'bpm')
        S.attempt('dispersed_phases.zfe_volume_flux', kind, dict(d, R=R, X0=X0), lambda: dp.zfe_volume_flux(prf, parts, p, X0, R))
        Ta, Sa, P = prf.get_values(z0, ['temperature', 'salinity', 'pressure'])
        rho = seawater.density(Ta, Sa, P)
        lam = np.array([pt.lambda_1 for pt in parts])
        us = np.array([pt.us for pt in parts])
        rho_p = np.array([pt.rho_p for pt in parts])
        Q = np.array([np.sum(pt.m) * pt.nb0 / pt.rho_p for pt in parts])
        lam_ave = S.attempt('dispersed_phases.bf_average', kind, dict(d, rho=rho, parm=lam),
                            lambda: dp.bf_average(parts, rho, p.g, p.rho_r, lam.copy()))
        # every particle of these lists is buoyant, so the buoyancy-flux average of the spreading ratios lies between the smallest
        # and the largest of them: the first guess comes from the harness's own mean, the call is made whatever bf_average gave
        lam_h = float(np.mean([sp_['lambda_1'] for sp_ in d['particles']]))
        u0 = float(np.sum(Q) / (np.pi * (lam_h * R) ** 2))
        if lam_ave is FAILED:
            lam_ave = lam_h
        if True:
            S.attempt('dispersed_phases.wuest_ic', kind, dict(d, u_0=u0, lambda_ave=lam_ave, us=us, rho_p=rho_p, rho=rho, Q=Q, R=R, Fr_0=p.Fr_0),
                      lambda: dp.wuest_ic(u0, parts, lam, lam_ave, us, rho_p, rho, Q, R, p.g, p.Fr_0))
        S.attempt('dispersed_phases.get_chem_names', kind, d, lambda: dp.get_chem_names(parts))
        nb = np.array([pt.nb0 for pt in parts])
        S.attempt('dispersed_phases.particles_state_space', kind, d, lambda: dp.particles_state_space(parts, nb))


@entry('dispersed_phases.shear_entrainment')
def _dp_shear(S):
    from tamoc import dispersed_phases as dp, bent_plume_model as bpm, stratified_plume_model as spm
    r = S.r
    prf = build_profile(profile_spec(r, current='none'))
    for i in range(S.reps()):
        p = bpm.ModelParams(prf) if i % 2 else spm.ModelParams(prf)
        rho_a = r.uniform(1020., 1050.)
        U = lu(r, 1e-3, 3.)
        # plume (lighter or heavier than ambient), pure jet (equal densities), horizontal section (sin_p = 0)
        kind = ('plume', 'jet', 'plume', 'horizontal')[i % 4]
        rho = rho_a if kind == 'jet' else rho_a * (1. + r.choice([-1., 1.]) * lu(r, 1e-5, 3e-2))
        sin_p = 0. if kind == 'horizontal' else r.choice([-1., r.uniform(-1., 1.)])
        a = dict(U=U, Us=r.choice([0., r.uniform(-0.3, 0.3)]), rho=rho, rho_a=rho_a, b=lu(r, 0.02, 50.), sin_p=sin_p)
        S.attempt('dispersed_phases.shear_entrainment', kind, a, lambda: dp.shear_entrainment(a['U'], a['Us'], a['rho'], a['rho_a'], a['b'], a['sin_p'], p))


@entry('dispersed_phases.hydrate_formation_time')
def _dp_hyd(S):
    from tamoc import dispersed_phases as dp
    r = S.r
    for _ in range(S.reps()):
        prf, z0, obj, sp, yk = _particle_case(S, kinds=('gas',))
        z = r.uniform(0.1, 1.) * prf.z_max
        Ta, Sa, P = prf.get_values(z, ['temperature', 'salinity', 'pressure'])
        T = Ta + r.choice([0., r.uniform(0., 20.)])
        m = obj.masses_by_diameter(lu(r, 5e-4, 1.5e-2), T, P, yk)
        S.attempt('dispersed_phases.hydrate_formation_time', 'gas', dict(sp, profile=prf._c20_descr, z=z, m=m, T=T),
                  lambda: dp.hydrate_formation_time(obj, z, m.copy(), T, prf))


def _save_particles_direct(S, parts, kind, d, single=False):
    """direct call of save_particle_to_nc_file into a scratch file; returns the path or FAILED"""
    from tamoc import dispersed_phases as dp, model_share
    chem_names = dp.get_chem_names(parts)
    K_T0 = np.array([pt.K_T for pt in parts])
    path = S.tmp('particles') + '.nc'

    def save():
        nc = model_share.tamoc_nc_file(path, 'C20 particle file', 'none', 'harness/c20.py')
        try:
            dp.save_particle_to_nc_file(nc, chem_names, parts[0] if single else parts, K_T0)
        finally:
            nc.close()
    if S.attempt('dispersed_phases.save_particle_to_nc_file', kind, d, save) is FAILED:
        return FAILED
    return path


def _load_particles_direct(S, path, kind, d):
    from netCDF4 import Dataset
    from tamoc import dispersed_phases as dp

    def load():
        nc = Dataset(path)
        try:
            ps, names = dp.load_particle_from_nc_file(nc)
        finally:
            nc.close()
        return [_particle_numbers(q) for q in ps], names
    return S.attempt('dispersed_phases.load_particle_from_nc_file', kind, d, load)


@entry('dispersed_phases.save_particle_to_nc_file', 'dispersed_phases.load_particle_from_nc_file')
def _dp_nc(S):
    """stand-alone round trip for SingleParticle lists, stand-alone save of PlumeParticle lists.  Reading PlumeParticle /
    bent_plume_model.Particle lists needs the variables P, Sa, Ta that only the models' save_sim adds to the file, and
    writing bent-plume particles needs their simulation attributes: those kinds are exercised on the files and
    particles of the simulations (see the model sections)."""
    from tamoc import dispersed_phases as dp
    for i in range(S.reps()):
        prf, z0, parts, d = _plume_particles(S, n=1 if i % 2 == 0 else None)
        if i % 2 == 0:
            pt = parts[0]
            parts = [dp.SingleParticle(pt.particle, pt.m0, pt.T0, K=pt.K, K_T=pt.K_T, fdis=pt.fdis, t_hyd=pt.t_hyd)]
            path = _save_particles_direct(S, parts, 'SingleParticle', d, single=True)
            if path is not FAILED:
                _load_particles_direct(S, path, 'SingleParticle', d)
        else:
            path = _save_particles_direct(S, parts, 'PlumeParticle', d)
        if path is not FAILED and os.path.exists(path):
            os.remove(path)


# =====================================================================================================
# ambient
# =====================================================================================================

def _cast(r, n=None, H=None, extras=True, inversions=False):
    """synthetic CTD table in standard units: (data [z, T, S, P, extras...], names, units); stable unless
    `inversions`: then (as in measured casts, and as in the generator of C14) a few levels — interior ones and, half
    of the time, the DEEPEST sample — are warmed or freshened so that potential density is locally not monotone"""
    from tamoc import ambient
    ps = profile_spec(r, H=H, current='none', n=n)
    z, T, S = profile_columns(ps)
    if inversions:
        rows = [r.randrange(1, len(z)) for _k in range(r.randint(1, 3))]
        if r.random() < 0.5:
            rows.append(len(z) - 1)
        for j in rows:
            if r.random() < 0.5:
                T[j] += r.uniform(0.5, 5.)
            else:
                S[j] -= r.uniform(0.2, 1.5)
        ps = dict(ps, inversion_rows=sorted(set(rows)))
    P = ambient.compute_pressure(z, T, S, 0)
    cols, names, units = [z, T, S, P], ['z', 'temperature', 'salinity', 'pressure'], ['m', 'K', 'psu', 'Pa']
    if extras:
        for c in r.sample(['oxygen', 'methane', 'nitrogen', 'tracer_a'], r.randint(0, 2)):
            cols.append(10 ** r.uniform(-5, -2) * (1. + 0.5 * np.cos(z / ps['H'] * r.uniform(1., 6.))))
            names.append(c)
            units.append('kg/m^3')
        if r.random() < 0.5:
            for c in ('ua', 'va'):
                cols.append(r.uniform(-0.3, 0.3) + 0.05 * np.sin(z / ps['H'] * 4.))
                names.append(c)
                units.append('m/s')
    return np.column_stack(cols), names, units, ps


def _xr_dataset(data, names, units):
    import xarray as xr
    ds = xr.Dataset()
    ds.coords[names[0]] = np.array(data[:, 0])
    ds.coords[names[0]].attrs['units'] = units[0]
    for j in range(1, len(names)):
        ds[names[j]] = ((names[0]), np.array(data[:, j]))
        ds[names[j]].attrs['units'] = units[j]
    return ds


def _profile_numbers(prf, extra_names=()):
    """what a constructed / modified profile holds and answers"""
    zq = np.linspace(prf.z_min, prf.z_max, 7)
    names = list(prf.f_names) + list(extra_names)
    return [prf.z_min, prf.z_max, np.array(prf.interp_data, dtype=float), prf.get_values(zq, names),
            prf.get_values(float(zq[3]), names)]


def _write_cast_nc(S, data, names, units):
    """netCDF file of a cast written with tamoc's own tools; returns the path"""
    from tamoc import ambient
    path = S.tmp('cast') + '.nc'
    nc = ambient.create_nc_db(path, 'C20 synthetic cast', 'harness/c20.py', 'No Sea Name', 28.5, 270.7, 1275177600.0)
    try:
        ambient.fill_nc_db(nc, data, names, units, ['synthetic'] * len(names), 0)
    finally:
        nc.close()
    return path


@entry('ambient.Profile', 'ambient.BaseProfile', 'ambient.Profile.close_nc')
def _amb_construct(S):
    from netCDF4 import Dataset
    from tamoc import ambient
    r = S.r
    ztsp = ['z', 'temperature', 'salinity', 'pressure']
    routes = ['array3', 'array', 'world', 'surface-array', 'surface-list', 'xarray', 'ncfile', 'ncdataset', 'array+current',
              'array-nostab', 'base-xarray']
    for i in range(max(S.reps(), 1) * 4):
        route = routes[i % len(routes)]
        data, names, units, ps = _cast(r, extras=route not in ('array3',), inversions=(i // len(routes)) % 2 == 1)
        chem_names, chem_units = names[4:], units[4:]
        d = {'route': route, 'cast': ps, 'names': names, 'units': units}
        close = None
        if route == 'array3':
            th = lambda: ambient.Profile(data[:, :3].copy(), ztsp=list(ztsp), ztsp_units=['m', 'K', 'psu', 'Pa'])
        elif route in ('array', 'array-nostab'):
            kw = dict(err=r.choice([0.01, 0.001, 0.]), stabilize_profile=(route == 'array'))
            d.update(kw)
            th = lambda: ambient.Profile(data.copy(), ztsp=list(ztsp), chem_names=list(chem_names), ztsp_units=units[:4],
                                         chem_units=list(chem_units), **kw)
        elif route == 'array+current':
            data, names, units = data[:, :4], names[:4], units[:4]
            chem_names, chem_units = [], []
            H = ps['H']
            cur = r.choice([np.array([0.1, 0.05, 0.]), np.array([[0., 0.1, 0., 0.], [H, 0.2, 0.05, 0.]])])
            d.update(current=cur, current_units=['m/s', 'm/s', 'm/s'])
            th = lambda: ambient.Profile(data.copy(), ztsp=list(ztsp), ztsp_units=units[:4], current=cur.copy(),
                                         current_units=['m/s', 'm/s', 'm/s'])
        elif route == 'world':
            th = lambda: ambient.Profile(None)
        elif route == 'surface-array':
            sv = np.array([0., r.uniform(275., 303.), r.uniform(30., 37.)])
            d['data'] = sv
            th = lambda: ambient.Profile(sv.copy())
        elif route == 'surface-list':
            sv = [0., r.uniform(275., 303.), r.uniform(30., 37.)]
            d['data'] = sv
            th = lambda: ambient.Profile(list(sv))
        elif route == 'xarray':
            ds = _xr_dataset(data, names, units)
            th = lambda: ambient.Profile(ds, ztsp=list(ztsp), chem_names=list(chem_names))
        elif route == 'base-xarray':
            ds = _xr_dataset(data, names, units)
            th = lambda: ambient.BaseProfile(ds, ztsp=list(ztsp), ztsp_units=units[:4], chem_names=list(chem_names),
                                             chem_units=list(chem_units))
        elif route == 'ncfile':
            path = _write_cast_nc(S, data, names, units)
            cn = r.choice(['all', None])
            d['chem_names'] = cn
            th = lambda: ambient.Profile(path, ztsp=list(ztsp), chem_names=('all' if cn else list(chem_names)))
        else:
            path = _write_cast_nc(S, data, names, units)
            nc = Dataset(path, 'a')
            close = nc
            th = lambda: ambient.Profile(nc, ztsp=list(ztsp), chem_names='all')
        ep = 'ambient.BaseProfile' if route == 'base-xarray' else 'ambient.Profile'
        prf = S.attempt(ep, route, d, th)
        if prf is not FAILED:
            S.attempt(ep, route + ':contents', d, lambda: _profile_numbers(prf, ['not_in_profile']))
            if hasattr(prf, 'close_nc'):
                def cl():
                    prf.close_nc()
                    return _profile_numbers(prf)
                S.attempt('ambient.Profile.close_nc', route, d, cl)
        elif close is not None:
            try:
                close.close()
            except Exception:      # noqa: BLE001
                pass


def _any_profile(S, kinds=('array', 'world', 'ncdataset')):
    """a profile for the query / modification methods -> (profile, kind, description, closer)"""
    from netCDF4 import Dataset
    from tamoc import ambient
    r = S.r
    kind = r.choice(list(kinds))
    if kind == 'world':
        # depth range and variable names read by the harness from the distributed data file, not from the object
        zw = np.loadtxt(os.path.join(common.REPO, 'tamoc', 'data', 'world_ocean_ave_ctd.dat'), comments='%')[:, 0]
        return ambient.Profile(None), kind, {'profile': 'world-ocean average', 'z_range': [float(zw.min()), float(zw.max())],
                                             'names': ['z', 'temperature', 'salinity', 'pressure', 'oxygen', 'oxygen_sat']}
    data, names, units, ps = _cast(r)
    if kind == 'array':
        prf = ambient.Profile(data.copy(), ztsp=names[:4], chem_names=names[4:], ztsp_units=units[:4], chem_units=units[4:])
    else:
        path = _write_cast_nc(S, data, names, units)
        prf = ambient.Profile(Dataset(path, 'a'), chem_names='all')
    return prf, kind, {'profile': ps, 'names': names, 'route': kind, 'z_range': [float(data[:, 0].min()), float(data[:, 0].max())]}


@entry('ambient.Profile.get_values', 'ambient.Profile.get_units', 'ambient.Profile.buoyancy_frequency')
def _amb_query(S):
    r = S.r
    for i in range(S.reps()):
        prf, kind, d = _any_profile(S)
        # the valid depth range and the variable names are the harness's own (the table it handed over / the distributed data
        # file), not what the object reports about itself
        zlo, zhi = d['z_range']
        names = list(d['names'][1:])
        r.shuffle(names)
        names = names[:r.randint(1, len(names))] + r.sample(['ua', 'no_such_variable'], r.randint(0, 2))
        zs = [r.uniform(zlo, zhi), np.sort(np.array([r.uniform(zlo, zhi) for _ in range(5)])),
              [zlo, zhi], np.array([zlo - 5., zhi + 50.]), float(zhi)]
        for z, zk in zip(zs, ('float', 'ndarray', 'list', 'out-of-range', 'bottom')):
            S.attempt('ambient.Profile.get_values', zk, dict(d, z=z, names=names),
                      lambda z=z: prf.get_values(z.copy() if isinstance(z, np.ndarray) else z, list(names)))
        S.attempt('ambient.Profile.get_values', 'name-as-str', dict(d, z=zs[0], names='temperature'),
                  lambda: prf.get_values(zs[0], 'temperature'))
        S.attempt('ambient.Profile.get_units', 'list', dict(d, names=names), lambda: prf.get_units(list(names)))
        S.attempt('ambient.Profile.get_units', 'str', dict(d, names='salinity'), lambda: prf.get_units('salinity'))
        h = r.choice([0.01, 0.01, lu(r, 0.005, 0.3)])
        S.attempt('ambient.Profile.buoyancy_frequency', 'float', dict(d, z=zs[0], h=h), lambda: prf.buoyancy_frequency(zs[0], h))
        S.attempt('ambient.Profile.buoyancy_frequency', 'ndarray', dict(d, z=zs[1], h=h), lambda: prf.buoyancy_frequency(zs[1].copy(), h=h))
        S.attempt('ambient.Profile.buoyancy_frequency', 'ends', dict(d, z=[zlo, zhi]),
                  lambda: (prf.buoyancy_frequency(float(zlo)), prf.buoyancy_frequency(float(zhi))))
        prf.close_nc()


@entry('ambient.Profile.append', 'ambient.Profile.extend_profile_deeper', 'ambient.Profile.add_computed_gas_concentrations',
       'ambient.Profile.insert_density', 'ambient.Profile.insert_potential_density', 'ambient.Profile.insert_buoyancy_frequency')
def _amb_modify(S):
    r = S.r
    for i in range(S.reps()):
        # ---- append
        prf, kind, d = _any_profile(S)
        H = float(d['z_range'][1])
        zc = np.linspace(0., H, r.randint(2, 12)) if r.random() < 0.7 else np.linspace(0.2 * H, 0.7 * H, 4)
        new = np.column_stack([zc, r.uniform(0.01, 0.3) * np.ones(len(zc)), 0.05 * np.cos(zc / H), 1e-4 * (1. + zc / H)])
        syms, uns = ['z', 'ua', 'va', 'tracer_b'], ['m', 'm/s', 'm/s', 'mg/l']
        com = r.choice([None, ['measured'] * 4])

        def app():
            prf.append(new.copy(), list(syms), list(uns), comments=com, z_col=0)
            return _profile_numbers(prf), prf.get_units(syms[1:])
        S.attempt('ambient.Profile.append', kind + ':3-variables', dict(d, data=new, var_symbols=syms, var_units=uns, comments=com), app)
        one = np.column_stack([zc, 1e-3 * np.ones(len(zc))])
        S.attempt('ambient.Profile.append', kind + ':str-arguments', dict(d, data=one, var_symbols='oxygen2', var_units='kg/m^3'),
                  lambda: (prf.append(np.column_stack([one[:, 1], one[:, 0]]), ['oxygen2', 'z'], ['kg/m^3', 'm'], z_col=1),
                           _profile_numbers(prf))[1])
        # ---- derived columns
        S.attempt('ambient.Profile.insert_density', kind, d, lambda: (prf.insert_density(), _profile_numbers(prf))[1])
        P0 = r.choice([101325., lu(r, 1e5, 1e7)])
        S.attempt('ambient.Profile.insert_density', kind + ':P0', dict(d, P0=P0), lambda: prf.insert_density(P0=P0))
        S.attempt('ambient.Profile.insert_potential_density', kind, d, lambda: (prf.insert_potential_density(), _profile_numbers(prf))[1])
        S.attempt('ambient.Profile.insert_buoyancy_frequency', kind, d, lambda: (prf.insert_buoyancy_frequency(), _profile_numbers(prf))[1])
        prf.close_nc()
        # ---- dissolved atmospheric gases
        prf, kind, d = _any_profile(S)
        S.attempt('ambient.Profile.add_computed_gas_concentrations', kind, d,
                  lambda: (prf.add_computed_gas_concentrations(), _profile_numbers(prf))[1])
        prf.close_nc()
        # ---- deeper
        prf, kind, d = _any_profile(S)
        z_old = float(d['z_range'][1])
        z_new = z_old + lu(r, 10., 2000.)
        how = r.choice(['default', 'h_N', 'N'])
        kw = {} if how == 'default' else ({'h_N': r.uniform(0.5, 1.), 'h': lu(r, 0.005, 0.2)} if how == 'h_N' else {'N': lu(r, 1e-4, 1e-2)})
        if kind == 'ncdataset':
            kw['nc_name'] = S.tmp('deeper') + '.nc'

        def ext():
            prf.extend_profile_deeper(z_new, **kw)
            # queries inside the added stretch (valid by what the harness asked for, whatever the object says its range is)
            zq = z_old + r.uniform(0.2, 0.9) * (z_new - z_old)
            return _profile_numbers(prf), prf.buoyancy_frequency(zq), prf.get_values(zq, ['temperature', 'salinity', 'pressure'])
        S.attempt('ambient.Profile.extend_profile_deeper', kind + ':' + how, dict(d, z_new=z_new, **{k: v for k, v in kw.items() if k != 'nc_name'}), ext)
        prf.close_nc()


@entry('ambient.xr_check_units', 'ambient.xr_convert_units', 'ambient.xr_coarsen_dataset', 'ambient.xr_stabilize_dataset',
       'ambient.xr_dataset_to_array', 'ambient.xr_array_to_dataset', 'ambient.xr_add_data_from_numpy', 'ambient.get_xarray_data')
def _amb_xr(S):
    from tamoc import ambient
    r = S.r

    def num(ds):
        return {str(k): np.array(ds[k].values, dtype=float) for k in list(ds.keys()) + list(ds.coords)}
    for _ in range(S.reps()):
        data, names, units, ps = _cast(r)
        d = {'cast': ps, 'names': names, 'units': units}
        ds = S.attempt('ambient.xr_array_to_dataset', 'cast', d, lambda: ambient.xr_array_to_dataset(data.copy(), list(names), list(units)),
                       need=True)
        S.attempt('ambient.xr_array_to_dataset', 'cast:contents', d, lambda: num(ds))
        S.attempt('ambient.xr_dataset_to_array', 'cast', d, lambda: ambient.xr_dataset_to_array(ds, 'z'))
        # units in other recognised systems
        d2 = data.copy()
        d2[:, 1] -= 273.15
        d2[:, 3] = (d2[:, 3] - 101325.) / 1e4
        u2 = ['meter', 'deg C', 'psu', 'db'] + ['mg/l' if u == 'kg/m^3' else 'meter second-1' for u in units[4:]]
        for j, u in enumerate(units[4:]):
            if u == 'kg/m^3':
                d2[:, 4 + j] *= 1e3
        ds2 = _xr_dataset(d2, names, u2)
        S.attempt('ambient.xr_convert_units', 'other-units', dict(d, units=u2), lambda: (ambient.xr_convert_units(ds2, 'z'), num(ds2))[1])
        ds3 = _xr_dataset(data, names, units)
        for k in list(ds3.keys())[:2]:
            del ds3[k].attrs['units']
        S.attempt('ambient.xr_check_units', 'missing-units', d, lambda: (ambient.xr_check_units(ds3, names[1:], units[1:]), num(ds3))[1])
        err = r.choice([0.01, 0.1, 1e-3])
        S.attempt('ambient.xr_coarsen_dataset', 'cast', dict(d, err=err), lambda: num(ambient.xr_coarsen_dataset(ds, 'z', err)))
        S.attempt('ambient.xr_stabilize_dataset', 'cast', d, lambda: num(ambient.xr_stabilize_dataset(_xr_dataset(data, names, units), 'z', names[:4])))
        dinv, ninv, uinv, psinv = _cast(r, inversions=True)
        S.attempt('ambient.xr_stabilize_dataset', 'cast-with-inversions', {'cast': psinv, 'names': ninv, 'units': uinv},
                  lambda: num(ambient.xr_stabilize_dataset(_xr_dataset(dinv, ninv, uinv), 'z', ninv[:4])))
        zc = np.linspace(0., ps['H'] * r.uniform(0.5, 1.2), r.randint(2, 9))
        new = np.column_stack([zc, 1e-3 * (1. + zc / ps['H']), 0.1 * np.ones(len(zc))])
        ds4 = _xr_dataset(data, names, units)
        S.attempt('ambient.xr_add_data_from_numpy', 'two-variables', dict(d, data=new),
                  lambda: (ambient.xr_add_data_from_numpy(ds4, 'z', new.copy(), ['argon', 'wa'], ['kg/m^3', 'm/s']), num(ds4))[1])
        S.attempt('ambient.get_xarray_data', 'cast', d, lambda: ambient.get_xarray_data(ds, names[:4], names[4:]))


@entry('ambient.create_nc_db', 'ambient.fill_nc_db', 'ambient.get_nc_data')
def _amb_nc(S):
    from tamoc import ambient
    r = S.r
    for _ in range(S.reps()):
        data, names, units, ps = _cast(r)
        d = {'cast': ps, 'names': names, 'units': units}
        path = S.tmp('db') + '.nc'
        nc = S.attempt('ambient.create_nc_db', 'scratch-file', d,
                       lambda: ambient.create_nc_db(path, 'C20 cast', 'harness/c20.py', 'No Sea Name', r.uniform(-60., 60.),
                                                    r.uniform(0., 360.), 1275177600.0 + r.uniform(0., 1e8)), need=True)
        try:
            com = ['synthetic'] * len(names)
            # depths, temperature and salinity first; pressure (other unit system is rejected by design, so standard units)
            ok = S.attempt('ambient.fill_nc_db', 'z-T-S', d, lambda: _nc_numbers(ambient.fill_nc_db(nc, data[:, :3].copy(), names[:3], units[:3], com[:3], 0), names[:3]))
            if ok is not FAILED:
                S.attempt('ambient.fill_nc_db', 'pressure-on-existing-depths', d,
                          lambda: _nc_numbers(ambient.fill_nc_db(nc, data[:, [0, 3]].copy(), ['z', 'pressure'], ['m', 'Pa'], ['measured', 'computed'], 0), ['pressure']))
                # new variables on a coarser / shorter depth grid: interpolated to the existing depths
                zc = np.linspace(0.1 * ps['H'], 0.8 * ps['H'], r.randint(2, 8))
                new = np.column_stack([1e-3 * (1. + zc / ps['H']), zc, 0.1 * np.cos(zc / ps['H'])])
                S.attempt('ambient.fill_nc_db', 'new-variables-z_col-1', dict(d, data=new),
                          lambda: _nc_numbers(ambient.fill_nc_db(nc, new.copy(), ['oxygen', 'z', 'ua'], ['kg/m^3', 'm', 'm/s'], ['measured'] * 3, 1), ['oxygen', 'ua']))
                S.attempt('ambient.get_nc_data', 'ztsp+chems', d, lambda: ambient.get_nc_data(nc, names[:4], ['oxygen', 'ua']))
        finally:
            nc.close()


@entry('ambient.add_data', 'ambient.extract_profile', 'ambient.coarsen', 'ambient.stabilize', 'ambient.compute_pressure',
       'ambient.convert_units', 'ambient.get_world_ocean', 'ambient.load_raw')
def _amb_arrays(S):
    from tamoc import ambient
    r = S.r
    for i in range(S.reps()):
        data, names, units, ps = _cast(r, n=r.randint(20, 120))
        H = ps['H']
        d = {'cast': ps, 'names': names}
        # ---- add_data: replace a column / add a column from a table on another grid
        zc = np.linspace(0.1 * H, 0.9 * H, r.randint(2, 9))
        new = np.column_stack([zc, 1e-3 * (1. + zc / H), 280. + 0. * zc])
        S.attempt('ambient.add_data', 'new-column', dict(d, new_data=new),
                  lambda: ambient.add_data(data.copy(), data.shape[1], 'argon', new.copy(), ['z', 'argon', 'temperature'], ['m', 'kg/m^3', 'K'], 'measured', 0))
        S.attempt('ambient.add_data', 'replace-column', dict(d, new_data=new),
                  lambda: ambient.add_data(data.copy(), 1, 'temperature', new.copy(), ['z', 'argon', 'temperature'], ['m', 'kg/m^3', 'K'], 'measured', 0))
        # ---- extract_profile: raw record with a surface soak (z < z_start) and an up-cast after the deepest sample
        n = data.shape[0]
        dz = H / (n - 1)
        k = r.randint(1, 3)
        zr = np.concatenate([np.arange(0, k + 1) * dz + 1., (k - np.arange(1, k + 1)) * dz + 1.5, np.linspace(2., H, n), H - np.arange(1, 6) * dz])
        raw = np.column_stack([zr, 290. - 10. * zr / H, 34. + zr / H, 101325. + 1.e4 * zr])
        z_start = r.choice([50., max(3. * k * dz, 10.)])
        if H > z_start:
            S.attempt('ambient.extract_profile', 'soak+upcast', dict(d, data=raw, z_start=z_start, p_col=3),
                      lambda: ambient.extract_profile(raw.copy(), z_col=0, z_start=z_start, p_col=3, P_atm=101325.))
        S.attempt('ambient.extract_profile', 'monotone', dict(d, z_start=50.), lambda: ambient.extract_profile(data.copy(), z_col=0, z_start=50.))
        # ---- coarsen / stabilize
        err = r.choice([0.01, 0.001, 0.2])
        S.attempt('ambient.coarsen', 'cast', dict(d, err=err), lambda: ambient.coarsen(data.copy(), err))
        inv = data.copy()
        for _k in range(r.randint(0, 3)):
            j = r.randrange(1, n)                        # interior levels and the deepest sample
            inv[j, 1] += r.uniform(0.5, 5.)              # warm parcels: density inversions
        if r.random() < 0.5:
            inv[n - 1, 2] -= r.uniform(0.2, 1.5)         # fresher deepest sample: reversal at the bottom of the cast
        S.attempt('ambient.stabilize', 'inversions', dict(d, data=inv), lambda: ambient.stabilize(inv.copy()))
        # ---- compute_pressure, depth positive down, free surface first (the convention of every tamoc model)
        z, T, Sa = data[:, 0], data[:, 1], data[:, 2]
        S.attempt('ambient.compute_pressure', 'positive-depths:surface-first', d, lambda: ambient.compute_pressure(z.copy(), T.copy(), Sa.copy(), 0))
        # docstring example: negative elevations, free surface last
        S.attempt('ambient.compute_pressure', 'negative-depths:surface-last', d,
                  lambda: ambient.compute_pressure(-z[::-1].copy(), T[::-1].copy(), Sa[::-1].copy(), -1))
        # ---- convert_units
        tab = np.array([[10., 25.4, 9.5, 34., 1500., 0.3], [100., 10.7, 8.4, 34.5, 150., 0.1]])
        un = ['m', 'deg C', 'mg/l', 'psu', 'db', 'm/s']
        S.attempt('ambient.convert_units', '2-D', {'data': tab, 'units': un}, lambda: ambient.convert_units(tab.copy(), list(un)))
        S.attempt('ambient.convert_units', 'scalar', {'data': 10., 'units': 'deg C'}, lambda: ambient.convert_units(10., 'deg C'))
        S.attempt('ambient.convert_units', 'int', {'data': 10, 'units': 'deg C'}, lambda: ambient.convert_units(10, 'deg C'))
        S.attempt('ambient.convert_units', 'list-row', {'data': [5., 10., 20.], 'units': ['MPa', 'Celsius', 'ppt']},
                  lambda: ambient.convert_units([5., 10., 20.], ['MPa', 'Celsius', 'ppt']))
        col = np.atleast_2d(np.array([1., 2., 3.])).transpose()
        S.attempt('ambient.convert_units', 'column', {'data': col, 'units': ['mg/m^3']}, lambda: ambient.convert_units(col.copy(), ['mg/m^3']))
        S.attempt('ambient.convert_units', 'unknown-unit', {'data': [1., 2.], 'units': ['furlong', 'm']},
                  lambda: ambient.convert_units([1., 2.], ['furlong', 'm']))
        # ---- world ocean
        Ts, Ss = r.uniform(275., 303.), r.uniform(30., 37.)
        S.attempt('ambient.get_world_ocean', 'defaults', {}, lambda: ambient.get_world_ocean())
        S.attempt('ambient.get_world_ocean', 'surface-values', {'Ts': Ts, 'Ss': Ss}, lambda: ambient.get_world_ocean(Ts, Ss))
        # ---- load_raw
        path = S.tmp('raw') + '.txt'
        with open(path, 'w') as f:
            f.write('# synthetic cast\n* header line\n')
            for row in data[:15]:
                f.write(' '.join('%.10g' % v for v in row) + '\n')
        S.attempt('ambient.load_raw', 'text-file', {'rows': 15, 'columns': int(data.shape[1])}, lambda: ambient.load_raw(path))
        os.remove(path)
    # ---- input kinds with their own key (valid per the docstrings; what they trigger is recorded separately)
    data, names, units, ps = _cast(r, n=30, H=300.)
    z, T, Sa = data[:, 0], data[:, 1], data[:, 2]
    S.attempt('ambient.compute_pressure', 'negative-depths:surface-first', {'cast': ps},
              lambda: ambient.compute_pressure(-z.copy(), T.copy(), Sa.copy(), 0), edge=True)
    S.attempt('ambient.compute_pressure', 'positive-depths:surface-last', {'cast': ps},
              lambda: ambient.compute_pressure(z[::-1].copy(), T[::-1].copy(), Sa[::-1].copy(), -1))
    shallow = data[data[:, 0] < 40., :]
    S.attempt('ambient.extract_profile', 'cast-shallower-than-z_start', {'depths': shallow[:, 0], 'z_start': 50.},
              lambda: ambient.extract_profile(shallow.copy(), z_col=0, z_start=50.), edge=True)


# =====================================================================================================
# particle_size_models
# =====================================================================================================

def _jet_fluids(r):
    return dict(rho_gas=lu(r, 5., 300.), mu_gas=lu(r, 1e-5, 3e-5), sigma_gas=r.uniform(0.03, 0.07), rho_oil=r.uniform(600., 950.),
                mu_oil=lu(r, 2e-4, 5e-2), sigma_oil=r.uniform(0.01, 0.04), rho=r.uniform(1020., 1060.), mu=lu(r, 1e-3, 1.8e-3))


def _psd_numbers(m, absent=None, S=None):
    """median sizes and spread parameters left behind by simulate().  A phase that is not released has no spread parameters
    ("There is no gas / liquid in this mixture"): which phase that is comes from the harness's own input (`absent`: the mass
    flux it passed was 0).  Only where the harness cannot know it (particle_size_models.Model decides the phase split with a
    flash) the model's d50 == 0 is taken, and every such case is counted as a skip in the evidence."""
    out = {}
    for ph in ('gas', 'oil'):
        d50 = getattr(m, 'd50_' + ph, None)
        out['d50_' + ph] = d50
        if absent is not None:
            if ph in absent:
                continue
        elif d50 is None or d50 == 0.:
            if S is not None:
                S.skip('tamoc.particle_size_models.Model.simulate', 'spread parameters of the %s phase not inspected: the model reports no %s at the release' % (ph, ph))
            continue
        for a in ('de_max_', 'k_', 'alpha_', 'sigma_ln_'):
            if hasattr(m, a + ph):
                out[a + ph] = getattr(m, a + ph)
    return out


PSM_GAS = [('wang_etal', 'lognormal'), ('li_etal', 'lognormal'), ('li_etal', 'rosin-rammler')]
PSM_OIL = [('sintef', 'rosin-rammler'), ('sintef', 'lognormal'), ('li_etal', 'rosin-rammler'), ('li_etal', 'lognormal')]


@entry('particle_size_models.ModelBase', 'particle_size_models.ModelBase.update_properties', 'particle_size_models.ModelBase.simulate',
       'particle_size_models.ModelBase.get_de_max', 'particle_size_models.ModelBase.get_d50',
       'particle_size_models.ModelBase.get_distributions')
def _psm_base(S):
    from tamoc import particle_size_models as psm
    r = S.r
    P = 'particle_size_models.ModelBase'
    order = ('rho_gas', 'mu_gas', 'sigma_gas', 'rho_oil', 'mu_oil', 'sigma_oil', 'rho', 'mu')
    for i in range(S.reps()):
        fl = _jet_fluids(r)
        mb = S.attempt(P, 'fluids', fl, lambda: psm.ModelBase(*[fl[k] for k in order]), need=True)
        S.attempt(P, 'fluids:attributes', fl, lambda: _obj_numbers(mb))
        for fp in (0, 1):
            S.attempt(P + '.get_de_max', 'before-simulate:fp%d' % fp, fl, lambda fp=fp: mb.get_de_max(fp))
        fl2 = _jet_fluids(r)
        S.attempt(P + '.update_properties', 'fluids', fl2, lambda: (mb.update_properties(*[fl2[k] for k in order]), [getattr(mb, k) for k in order])[1])
        d0 = lu(r, 0.01, 1.)
        phases = ('gas+oil', 'gas-only', 'oil-only')[i % 3]
        m_gas = 0. if phases == 'oil-only' else lu(r, 1e-2, 50.)
        m_oil = 0. if phases == 'gas-only' else lu(r, 1e-1, 200.)
        (mg, pg), (mo, po) = r.choice(PSM_GAS), r.choice(PSM_OIL)
        d = dict(fl2, d0=d0, m_gas=m_gas, m_oil=m_oil, model_gas=mg, pdf_gas=pg, model_oil=mo, pdf_oil=po)
        kind = '%s:%s/%s:%s/%s' % (phases, mg, pg, mo, po)
        ok = S.attempt(P + '.simulate', kind, d,
                       lambda: (mb.simulate(d0, m_gas, m_oil, model_gas=mg, model_oil=mo, pdf_gas=pg, pdf_oil=po,
                                            Pj=lu(r, 5e5, 3e7), Tj=r.uniform(275., 350.)),
                                _psd_numbers(mb, absent=[ph for ph, q_ in (('gas', m_gas), ('oil', m_oil)) if q_ == 0.]))[1])
        if ok is FAILED:
            continue
        for fp in (0, 1):
            S.attempt(P + '.get_de_max', kind, d, lambda fp=fp: mb.get_de_max(fp))
            S.attempt(P + '.get_d50', kind, d, lambda fp=fp: mb.get_d50(fp))
        ng, no = r.randint(1, 30), r.randint(1, 30)
        S.attempt(P + '.get_distributions', kind, dict(d, nbins_gas=ng, nbins_oil=no), lambda: mb.get_distributions(ng, no))
    # documented combination with its own key: wang_etal median size with a Rosin-Rammler distribution
    fl = _jet_fluids(r)
    mb = psm.ModelBase(*[fl[k] for k in order])
    d = dict(fl, d0=0.2, m_gas=5., m_oil=30., model_gas='wang_etal', pdf_gas='rosin-rammler')

    def wang_rr():
        mb.simulate(0.2, 5., 30., model_gas='wang_etal', pdf_gas='rosin-rammler')
        return mb.get_distributions(10, 10)
    S.attempt(P + '.get_distributions', 'wang_etal/rosin-rammler', d, wang_rr)


@entry('particle_size_models.PureJet', 'particle_size_models.PureJet.update_properties', 'particle_size_models.PureJet.simulate',
       'particle_size_models.PureJet.get_de_max', 'particle_size_models.PureJet.get_d50', 'particle_size_models.PureJet.get_distributions')
def _psm_jet(S):
    from tamoc import particle_size_models as psm
    r = S.r
    P = 'particle_size_models.PureJet'
    for i in range(S.reps()):
        fp = i % 2
        fl = _jet_fluids(r)
        a = (fl['rho_gas'], fl['mu_gas'], fl['sigma_gas']) if fp == 0 else (fl['rho_oil'], fl['mu_oil'], fl['sigma_oil'])
        d = dict(rho_p=a[0], mu_p=a[1], sigma_p=a[2], rho=fl['rho'], mu=fl['mu'], fp_type=fp)
        pj = S.attempt(P, 'fp%d' % fp, d, lambda: psm.PureJet(a[0], a[1], a[2], fl['rho'], fl['mu'], fp_type=fp), need=True)
        S.attempt(P, 'fp%d:attributes' % fp, d, lambda: _obj_numbers(pj))
        S.attempt(P + '.get_de_max', 'before-simulate:fp%d' % fp, d, lambda: pj.get_de_max())
        S.attempt(P + '.update_properties', 'fp%d' % fp, d,
                  lambda: (pj.update_properties(a[0] * 1.01, a[1], a[2], fl['rho'], fl['mu'], fp), pj.get_de_max())[1])
        # "the model choice must agree with the fluid of interest"
        model, pdf = r.choice(PSM_GAS) if fp == 0 else r.choice(PSM_OIL)
        d0, m = lu(r, 0.01, 1.), lu(r, 1e-2, 100.)
        d = dict(d, d0=d0, m=m, model=model, pdf=pdf)
        kind = 'fp%d:%s/%s' % (fp, model, pdf)
        if S.attempt(P + '.simulate', kind, d, lambda: (pj.simulate(d0, m, model=model, pdf=pdf), _psd_numbers(pj, absent=['oil' if fp == 0 else 'gas']))[1]) is FAILED:
            continue
        S.attempt(P + '.get_de_max', kind, d, lambda: pj.get_de_max())
        S.attempt(P + '.get_d50', kind, d, lambda: pj.get_d50())
        nb = r.randint(1, 30)
        S.attempt(P + '.get_distributions', kind, dict(d, nbins=nb), lambda: pj.get_distributions(nb))
    fl = _jet_fluids(r)
    pj = psm.PureJet(fl['rho_gas'], fl['mu_gas'], fl['sigma_gas'], fl['rho'], fl['mu'], fp_type=0)

    def wang_rr():
        pj.simulate(0.2, 5., model='wang_etal', pdf='rosin-rammler')
        return pj.get_distributions(10)
    S.attempt(P + '.get_distributions', 'wang_etal/rosin-rammler', dict(fl, d0=0.2, m=5., fp_type=0), wang_rr)


def _live_oil(r, phases='two-phase'):
    """a FluidMixture and component mass fluxes (kg/s): light gases + liquid hydrocarbons"""
    from tamoc import dbm
    if phases == 'oil-only':
        comp = r.sample(HC_LIQ, r.randint(2, 4))
        w = dirichlet(r, len(comp))
    elif phases == 'gas-only':
        comp = ['methane'] + r.sample(['ethane', 'propane', 'nitrogen'], r.randint(0, 2))
        w = dirichlet(r, len(comp), first=0.7)
    else:
        light = ['methane'] + r.sample(['ethane', 'propane'], r.randint(0, 2))
        heavy = r.sample(HC_LIQ[3:], r.randint(2, 4))
        comp = light + heavy
        w = np.concatenate([dirichlet(r, len(light)) * r.uniform(0.1, 0.5), dirichlet(r, len(heavy))])
        w = w / w.sum()
    oil = dbm.FluidMixture(comp)
    m = w * lu(r, 0.5, 100.)
    return oil, m, {'composition': comp, 'm_mixture': m}


@entry('particle_size_models.Model', 'particle_size_models.Model.update_properties', 'particle_size_models.Model.update_z0',
       'particle_size_models.Model.update_Tj', 'particle_size_models.Model.update_m_mixture', 'particle_size_models.Model.simulate',
       'particle_size_models.Model.get_de_max', 'particle_size_models.Model.get_d50', 'particle_size_models.Model.get_distributions')
def _psm_model(S):
    from tamoc import particle_size_models as psm
    r = S.r
    P = 'particle_size_models.Model'

    def state(mo):
        return [mo.rho, mo.mu, mo.Tj, mo.Pj, mo.m_gas, mo.m_oil, mo.rho_gas, mo.mu_gas, mo.sigma_gas, mo.rho_oil, mo.mu_oil, mo.sigma_oil]
    for i in range(S.reps()):
        phases = ('two-phase', 'two-phase', 'oil-only', 'gas-only')[i % 4]
        ps = profile_spec(r, H=r.choice([800., 1500., 3000.]), current='none')
        prf = build_profile(ps)
        oil, m, d = _live_oil(r, phases)
        z0 = r.uniform(0.2, 0.95) * ps['H']
        Tj = r.choice([None, r.uniform(280., 370.)])
        d = dict(d, profile=ps, z0=z0, Tj_user=Tj)
        mo = S.attempt(P, phases, d, lambda: psm.Model(prf, oil, m.copy(), z0, Tj_user=Tj), need=True)
        S.attempt(P, phases + ':attributes', d, lambda: state(mo))
        S.attempt(P + '.get_de_max', phases + ':before-simulate', d,
                  lambda: [mo.get_de_max(fp) for fp, x in ((0, mo.rho_gas), (1, mo.rho_oil)) if x is not None])
        z1, T1 = r.uniform(0.2, 0.95) * ps['H'], r.uniform(280., 370.)
        S.attempt(P + '.update_z0', phases, dict(d, z0=z1), lambda: (mo.update_z0(z1), state(mo))[1])
        S.attempt(P + '.update_Tj', phases, dict(d, Tj=T1), lambda: (mo.update_Tj(T1), state(mo))[1])
        m2 = m * r.uniform(0.3, 3.)
        S.attempt(P + '.update_m_mixture', phases, dict(d, m_mixture=m2), lambda: (mo.update_m_mixture(m2.copy()), state(mo))[1])
        S.attempt(P + '.update_properties', phases, d, lambda: (mo.update_properties(prf, oil, m.copy(), z0, Tj, None), state(mo))[1])
        d0 = lu(r, 0.02, 0.8)
        (mg, pg), (mo_, po) = r.choice(PSM_GAS), r.choice(PSM_OIL)
        dd = dict(d, d0=d0, model_gas=mg, pdf_gas=pg, model_oil=mo_, pdf_oil=po)
        kind = '%s:%s/%s:%s/%s' % (phases, mg, pg, mo_, po)
        ok = S.attempt(P + '.simulate', kind, dd,
                       lambda: (mo.simulate(d0, model_gas=mg, pdf_gas=pg, model_oil=mo_, pdf_oil=po), _psd_numbers(mo, S=S))[1])
        if ok is FAILED:
            continue
        for fp in (0, 1):
            S.attempt(P + '.get_de_max', kind, dd, lambda fp=fp: mo.get_de_max(fp))
            S.attempt(P + '.get_d50', kind, dd, lambda fp=fp: mo.get_d50(fp))
        ng, no = r.randint(1, 25), r.randint(1, 25)
        S.attempt(P + '.get_distributions', kind, dict(dd, nbins_gas=ng, nbins_oil=no), lambda: mo.get_distributions(ng, no))


# =====================================================================================================
# dbm_utilities
# =====================================================================================================

def _dead_oil(r, live=False):
    """substance dictionary of database compounds: dead oil (liquids only) or live oil (with light gases)"""
    # compounds that stay liquid at standard conditions (15 deg C, 1 atm) also when natural gas is mixed in
    heavy = r.sample(['n-hexane', 'n-heptane', 'benzene', 'toluene', 'ethylbenzene', 'n-decane'], r.randint(2, 5))
    if 'n-decane' not in heavy and 'ethylbenzene' not in heavy:
        heavy[0] = 'n-decane'
    if live:
        light = ['methane'] + r.sample(['ethane', 'propane'], r.randint(0, 2))
        comp = light + heavy
        w = np.concatenate([dirichlet(r, len(light)) * r.uniform(0.05, 0.4), dirichlet(r, len(heavy))])
    else:
        comp, w = heavy, dirichlet(r, len(heavy))
    return {'composition': comp, 'masses': w * r.choice([1., r.uniform(0.5, 20.)])}


def _pseudo_components(r):
    """SIMAP-like pseudo-component table: aromatic (AR) and aliphatic (AL) cuts above n-C6 + a residual"""
    n_ar, n_al = r.randint(2, 4), r.randint(2, 4)
    names = ['AR%d' % (i + 1) for i in range(n_ar)] + ['AL%d' % (i + 1) for i in range(n_al)] + ['residual']
    tb = np.concatenate([np.sort([r.uniform(80., 330.) for _ in range(n_ar)]), np.sort([r.uniform(70., 350.) for _ in range(n_al)]),
                         [r.uniform(380., 450.)]])                                   # deg C
    mw = 60. + 0.55 * tb + np.array([r.uniform(0., 15.) for _ in names])              # g/mol, increasing with boiling point
    vp = 10 ** (-(tb - 30.) / 60.) * np.array([r.uniform(0.5, 2.) for _ in names])    # atm at 25 C
    sol = 10 ** (3.5 - tb / 60.) * np.array([r.uniform(0.5, 2.) for _ in names])      # mg/l
    mf = dirichlet(r, len(names))
    return {'name': 'C20 synthetic pseudo-component oil', 'simap_names': names, 'molecular_weight': mw, 'mass_fraction': mf,
            'boiling_point': tb, 'vapor_pressure': vp, 'solubility': sol, 'T_0': np.array([288.15, 298.15]),
            'rho_0': np.array([r.uniform(830., 900.)] * 2) - np.array([0., 7.])}


@entry('dbm_utilities.get_oil', 'dbm_utilities.load_tamoc_oil', 'dbm_utilities.format_dbm_data', 'dbm_utilities.mix_gas_for_gor',
       'dbm_utilities.natural_gas', 'dbm_utilities.gas_fraction', 'dbm_utilities.set_mass_fluxes', 'dbm_utilities.pedersen',
       'dbm_utilities.print_chemdata', 'dbm_utilities.print_composition', 'dbm_utilities.print_petroleum_props')
def _util_oil(S):
    from tamoc import dbm, dbm_utilities as du
    r = S.r
    U = 'dbm_utilities.'

    def oil_numbers(res):
        oil, mf = res
        return [mf, oil.M, oil.Pc, oil.Tc, oil.omega, oil.delta]
    for _k in range(2):
        S.attempt(U + 'natural_gas', 'constant', {}, lambda: du.natural_gas())
    for i in range(S.reps()):
        # ---- get_oil: dead oil + GOR, live oil without added gas, atmospheric gases, gas-rate specification
        gor = (0., lu(r, 50., 3000.), lu(r, 50., 3000.))[i % 3]
        sub = _dead_oil(r, live=(gor == 0. and r.random() < 0.7))
        q_oil = lu(r, 500., 1e5)
        ca = r.choice([[], ['nitrogen', 'oxygen', 'argon', 'carbon_dioxide'], ['oxygen']])
        fp = 1 if (gor == 0. or r.random() < 0.7) else 0
        d = dict(sub, q_oil=q_oil, gor=gor, ca=ca, fp_type=fp)
        S.attempt(U + 'get_oil', 'gor%s:ca%d:fp%d' % ('>0' if gor else '=0', len(ca), fp), d,
                  lambda: oil_numbers(du.get_oil({'composition': list(sub['composition']), 'masses': np.array(sub['masses'])}, q_oil, gor, list(ca), fp)))
        # ---- the steps get_oil is made of
        masses = r.choice([sub['masses'], list(sub['masses'])])
        res = S.attempt(U + 'load_tamoc_oil', 'masses-' + type(masses).__name__, sub,
                        lambda: du.load_tamoc_oil({'composition': list(sub['composition']), 'masses': masses}))
        if res is FAILED:
            continue
        comp, mf, user_data, delta, dgroups, units = res
        fm = dbm.FluidMixture(list(comp))
        opt = r.random() < 0.5
        S.attempt(U + 'format_dbm_data', 'all-properties' if opt else 'required-only', {'composition': comp},
                  lambda: du.format_dbm_data(list(comp), fm.M, fm.Pc, fm.Tc, fm.omega, fm.kh_0, fm.neg_dH_solR, fm.nu_bar, fm.K_salt,
                                             *((fm.Vc, fm.Tb, fm.Vb, fm.B, fm.dE) if opt else ())))
        S.attempt(U + 'pedersen', 'hydrocarbons', {'composition': comp}, lambda: du.pedersen(fm.M.copy(), list(comp)))
        air = dbm.FluidMixture(list(comp) + ['nitrogen', 'carbon_dioxide', 'oxygen', 'argon'])
        S.attempt(U + 'pedersen', 'with-atmospheric-gases', {'composition': air.composition}, lambda: du.pedersen(air.M.copy(), list(air.composition)))
        S.attempt(U + 'pedersen', 'no-names', {'M': fm.M}, lambda: du.pedersen(fm.M.copy()))
        dead = _dead_oil(r)
        dc, dmf, dud, ddelta, ddg, _u = du.load_tamoc_oil(dict(dead))
        g = lu(r, 50., 3000.)
        live = S.attempt(U + 'mix_gas_for_gor', 'delta_groups-None', dict(dead, gor=g),
                         lambda: du.mix_gas_for_gor(list(dc), dmf.copy(), dud, ddelta, None, g))
        if live is not FAILED:
            lc, lmf, ldelta, ldg = live
            loil = dbm.FluidMixture(list(lc), delta=ldelta, user_data=dud)
            gas_comp, gas_mf, _gg = du.natural_gas()
            mfg, mfo = np.zeros(len(lc)), np.zeros(len(lc))
            mfg[:len(gas_mf)] = gas_mf
            mfo[len(gas_mf):] = dmf
            # gas mass fraction near the one the GOR implies (the first guess of mix_gas_for_gor), so that gas and oil coexist
            m_g, m_o = 0.68 * g * 0.0283168, 800. * 0.158987
            beta = min(0.9, m_g / (m_g + m_o) * r.uniform(0.5, 1.5))
            S.attempt(U + 'gas_fraction', 'standard-conditions', dict(dead, beta=beta, gor_0=g),
                      lambda: du.gas_fraction(beta, g, loil, mfg.copy(), mfo.copy(), 288.15, 101325.))
            q = lu(r, 500., 1e5)
            S.attempt(U + 'set_mass_fluxes', 'oil-rate', dict(dead, gor=g, q_oil=q),
                      lambda: du.set_mass_fluxes(list(lc), np.array(lmf), dud, ldelta, None, q, 1))
            S.attempt(U + 'set_mass_fluxes', 'gas-rate', dict(dead, gor=g, q_oil=q),
                      lambda: du.set_mass_fluxes(list(lc), np.array(lmf), dud, ldelta, None, q, 0))
            T, Sa, P = r.uniform(275., 300.), r.uniform(30., 36.), lu(r, 1e6, 2e7)
            S.attempt(U + 'print_petroleum_props', 'q_oil-None', dict(dead, gor=g, T=T, S=Sa, P=P),
                      lambda: du.print_petroleum_props(list(lc), np.array(lmf), dud, ldelta, None, T, Sa, P))
        S.attempt(U + 'print_composition', 'database', sub, lambda: du.print_composition(list(comp), np.array(mf)))
        S.attempt(U + 'print_chemdata', 'chems-list', {'composition': comp}, lambda: du.print_chemdata(user_data, units, list(comp)))
    # ---- documented argument forms with their own key
    dead = _dead_oil(r)
    dc, dmf, dud, ddelta, ddg, units = du.load_tamoc_oil(dict(dead))
    S.attempt(U + 'print_chemdata', 'chems-None', {'composition': dc}, lambda: du.print_chemdata(dud, units))
    live = du.mix_gas_for_gor(list(dc), dmf.copy(), dud, ddelta, None, 500.)
    S.attempt(U + 'print_petroleum_props', 'q_oil-given', dict(dead, gor=500., q_oil=20000.),
              lambda: du.print_petroleum_props(list(live[0]), np.array(live[1]), dud, live[2], None, 285., 35., 1e7, q_oil=20000.))
    # Privat & Jaubert group contributions of the dead-oil compounds as an array ("delta_groups : None or np.array")
    fm = dbm.FluidMixture(list(dc), delta_groups={})
    S.attempt(U + 'mix_gas_for_gor', 'delta_groups-ndarray', dict(dead, gor=500.),
              lambda: du.mix_gas_for_gor(list(dc), dmf.copy(), dud, ddelta, np.array(fm.delta_groups), 500.))


@entry('dbm_utilities.sequence_names', 'dbm_utilities.get_solubility', 'dbm_utilities.get_henry_constant',
       'dbm_utilities.get_preos_params', 'dbm_utilities.compute_Vb', 'dbm_utilities.Vc_tuning', 'dbm_utilities.load_simap_oil')
def _util_pseudo(S):
    from tamoc import dbm_utilities as du
    r = S.r
    U = 'dbm_utilities.'
    for i in range(S.reps()):
        names = ['Saturates', 'Aromatics', 'Saturates', 'Resins', 'Aromatics', 'Asphaltenes', 'Saturates']
        which = r.choice(['Saturates', 'Aromatics'])
        S.attempt(U + 'sequence_names', which, {'sara_names': names, 'name': which},
                  lambda: (lambda l: (du.sequence_names(l, which), l)[1])(list(names)))
        sm = _pseudo_components(r)
        nm = sm['simap_names']
        mw, tb = sm['molecular_weight'], sm['boiling_point'] + 273.15
        rho = np.array([r.uniform(700., 1000.) for _ in nm])
        d = {k: v for k, v in sm.items()}
        sol = S.attempt(U + 'get_solubility', 'pseudo-components', dict(molecular_weight=mw, density=rho), lambda: du.get_solubility(mw.copy(), rho.copy()))
        if sol is not FAILED:
            S.attempt(U + 'get_henry_constant', 'pseudo-components', dict(solubility=sol, vapor_pressure=sm['vapor_pressure'] * 101325., molecular_weight=mw),
                      lambda: du.get_henry_constant(sol.copy(), sm['vapor_pressure'] * 101325., mw.copy()))
        pre = S.attempt(U + 'get_preos_params', 'above-nC6', dict(Tb=tb, M=mw, rho=rho), lambda: du.get_preos_params(tb.copy(), mw.copy(), rho.copy()))
        Vc = r.uniform(2e-4, 1.5e-3)
        S.attempt(U + 'compute_Vb', 'float', {'Vc': Vc}, lambda: du.compute_Vb(Vc))
        if pre is not FAILED:
            Tc, Pc, Vc_a, M, omega, delta = pre
            S.attempt(U + 'compute_Vb', 'array', {'Vc': Vc_a}, lambda: du.compute_Vb(Vc_a.copy()))
        if i < 2 or i % 5 == 0:
            # tune Vc of every component to a measured density (what load_simap_oil / load_adios_oil do); database compounds with
            # their handbook liquid densities at 15 deg C, so that this call does not depend on get_preos_params
            dens = {'n-hexane': 664., 'n-heptane': 688., 'benzene': 884., 'toluene': 871., 'ethylbenzene': 871., 'n-decane': 734.}
            cmp_ = r.sample(sorted(dens), r.randint(2, 4))
            mfv = dirichlet(r, len(cmp_))
            _c, _mf, ud2, delta2, _dg, _un = du.load_tamoc_oil({'composition': cmp_, 'masses': mfv})
            rho_i = np.array([dens[c] * r.uniform(0.98, 1.02) for c in cmp_])
            rho_w = 1. / np.sum(mfv / rho_i)
            S.attempt(U + 'Vc_tuning', 'database-compounds', dict(composition=cmp_, mass_frac=mfv, rho_i=rho_i),
                      lambda: {k: v['Vc'] for k, v in du.Vc_tuning(mfv.copy(), list(cmp_), np.array([288.15, 298.15]), np.array([rho_w, rho_w - 8.]),
                                                                   np.zeros(2), rho_i, delta2, ud2).items()})
        if i < 2 or i % 5 == 0:
            S.attempt(U + 'load_simap_oil', 'synthetic-table', d,
                      lambda: (lambda res: [res[1], {k: list(v.values()) for k, v in res[2].items()}, res[3]])(du.load_simap_oil(dict(sm))))


# =====================================================================================================
# params.Scales
# =====================================================================================================

@entry('params.Scales', 'params.Scales.simulate', 'params.Scales.save_txt', 'params.Scales.get_variables', 'params.Scales.h_T',
       'params.Scales.h_P', 'params.Scales.h_S', 'params.Scales.lambda_1', 'params.Scales.u_inf_crit')
def _params(S):
    from tamoc import params
    r = S.r
    for i in range(S.reps()):
        prf, z0, parts, d = _plume_particles(S, current='none')
        arg = parts[0] if (len(parts) == 1 and r.random() < 0.5) else parts        # a single particle is put into a list by the class
        sc = S.attempt('params.Scales', '%dparticles' % len(parts), d, lambda: params.Scales(prf, arg), need=True)
        u = lu(r, 0.01, 0.5)
        dd = dict(d, u_inf=u)
        k = '%dparticles' % len(parts)
        S.attempt('params.Scales.get_variables', k, dd, lambda: sc.get_variables(z0, u))
        S.attempt('params.Scales.h_T', k, dd, lambda: sc.h_T(z0))
        S.attempt('params.Scales.h_P', k, dd, lambda: sc.h_P(z0))
        S.attempt('params.Scales.h_S', k, dd, lambda: sc.h_S(z0, u))
        n = r.randrange(len(parts))
        S.attempt('params.Scales.lambda_1', k, dict(dd, n=n), lambda: sc.lambda_1(z0, n))
        S.attempt('params.Scales.u_inf_crit', k, dd, lambda: sc.u_inf_crit(z0))
        S.attempt('params.Scales.simulate', k, dd, lambda: sc.simulate(z0, u))
        base = S.tmp('scales')
        S.attempt('params.Scales.save_txt', k, dd,
                  lambda: (sc.save_txt(z0, u, base, 'profile.nc', 'synthetic profile'), np.loadtxt(base + '.txt'))[1])
        for f in (base + '.txt', base + '_header.txt'):
            if os.path.exists(f):
                os.remove(f)


# =====================================================================================================
# single_bubble_model
# =====================================================================================================

def _scratch_profile(S, ps):
    """profile object + the same data in a netCDF file of a fresh scratch directory (for save_sim / load_sim)"""
    prf = build_profile(ps)
    d = S.tmp('sim')
    os.makedirs(d)
    write_profile_nc(S, prf, os.path.join(d, 'profile.nc'))
    return prf, d


def _sbm_spec(S, kind):
    r = S.r
    sp = inert_spec(r) if kind == 'inert' else fluid_spec(r, kind)
    chems = sp['composition'] if (kind != 'inert' and r.random() < 0.5) else ()
    ps = profile_spec(r, H=r.choice([300., 800., 1500.]), current=r.choice(['none', 'uniform', 'sheared']), chems=chems)
    z0 = r.uniform(0.25, 0.9) * min(ps['H'], 700.)
    Tdiff = r.choice([None, None, r.uniform(0.5, 25.)])
    return {'profile': ps, 'particle': sp, 'z0': z0, 'x0': r.choice([0., r.uniform(-50., 50.)]), 'y0': 0.,
            'de': lu(r, 5e-4, 1.2e-2), 'dT': Tdiff, 'K': r.choice([1., 1., r.uniform(0.2, 2.)]), 'K_T': r.choice([1., 1., 0.]),
            'fdis': 10 ** r.uniform(-8, -3), 't_hyd': r.choice([0., 0., r.uniform(1., 500.)]), 'lag_time': r.random() < 0.5,
            'delta_t': r.choice([10., 30., 100.])}


def _sbm_args(spec, prf):
    T0 = None if spec['dT'] is None else float(prf.get_values(spec['z0'], ['temperature'])[0]) + spec['dT']
    return dict(X0=np.array([spec['x0'], spec['y0'], spec['z0']]), de=spec['de'], yk=yk_of(spec['particle']), T0=T0, K=spec['K'],
                K_T=spec['K_T'], fdis=spec['fdis'], t_hyd=spec['t_hyd'], lag_time=spec['lag_time'], delta_t=spec['delta_t'])


@builder('sbm_sims', 'single_bubble_model.Model.simulate')
def _build_sbm(S):
    from tamoc import single_bubble_model as sbm
    sims = []
    kinds = ['gas', 'inert', 'liquid']
    for k in range(S.reps(S.nsim)):
        spec = _sbm_spec(S, kinds[k % 3])
        try:
            prf, d = _scratch_profile(S, spec['profile'])
        except CallFailed:
            continue
        model = S.attempt('single_bubble_model.Model', 'profile', spec['profile'], lambda: sbm.Model(prf))
        if model is FAILED:
            continue
        S.attempt('single_bubble_model.Model', 'profile:attributes', None, lambda: _obj_numbers(model.p))
        a = _sbm_args(spec, prf)
        obj = build_dbm(spec['particle'])

        def sim():
            model.simulate(obj, a['X0'].copy(), a['de'], a['yk'].copy(), a['T0'], a['K'], a['K_T'], a['fdis'], a['t_hyd'],
                           a['lag_time'], a['delta_t'])
            return model.t, model.y
        if S.attempt('single_bubble_model.Model.simulate', spec['particle']['kind'], spec, sim) is FAILED:
            continue
        S.reached('sbm:inert' if spec['particle']['kind'] == 'inert' else 'sbm:soluble')
        sims.append({'model': model, 'spec': spec, 'prf': prf, 'dir': d, 'kind': spec['particle']['kind']})
    if not sims:
        raise Blocked('no single-particle simulation completed')
    return sims


TABLE['tamoc.single_bubble_model.Model.simulate'] = lambda S: S.get('sbm_sims')


SBM_ZERO_MASS_NAN = ('Particle temperature', 'Slip velocity', 'Particle density', 'Particle diameter', 'Heat transfer coefficient')


def _sbm_derived(res, y):
    """derived-variable table of the single bubble model.  Recorded defect (known_findings, `dissolved-particle`): the rows of
    a bubble that has dissolved completely (all component masses exactly 0 — calculate_path clips the overshoot) hold NaN
    temperature / slip velocity / density / diameter / heat-transfer coefficient.  ONLY that shape is reported under the
    recorded key: the rows with a non-finite entry are exactly the zero-mass rows and only those columns are affected.
    Any other non-finite entry (a positive-mass row, another column) goes to the generic predicate and key."""
    data, names = np.asarray(res[0], dtype=float), res[1]
    if isinstance(names, str):
        names = [ln.split(':', 1)[1].strip() for ln in names.splitlines() if ln.strip().startswith('Col')]
    bad = ~np.isfinite(data)
    if not bad.any():
        return res
    y = np.asarray(y, dtype=float)
    if data.ndim != 2 or data.shape[0] != y.shape[0] or len(names) != data.shape[1]:
        return res
    zero_rows = np.sum(y[:, 3:-1], axis=1) <= 0.
    cols_ok = all(any(nm.startswith(pref) for pref in SBM_ZERO_MASS_NAN) for j, nm in enumerate(names) if bad[:, j].any())
    if np.array_equal(bad.any(axis=1), zero_rows) and cols_ok and np.all(np.isnan(data[bad])):
        return Finding('dissolved-particle', {'zero_mass_rows': np.flatnonzero(zero_rows), 'rows': int(data.shape[0]),
                                              'columns': [nm for j, nm in enumerate(names) if bad[:, j].any()]})
    return res


@entry('single_bubble_model.Model', 'single_bubble_model.Model.get_derived_variables', 'single_bubble_model.Model.save_sim',
       'single_bubble_model.Model.save_txt', 'single_bubble_model.Model.save_derived_variables', 'single_bubble_model.Model.load_sim')
def _sbm_post(S):
    from tamoc import single_bubble_model as sbm
    r = S.r
    M = 'single_bubble_model.Model.'
    for sim in S.get('sbm_sims'):
        model, spec, kind, d = sim['model'], sim['spec'], sim['kind'], sim['dir']
        comp = list(model.particle.composition)
        tc = r.choice([None, comp[:1]])
        S.attempt(M + 'get_derived_variables', kind, dict(spec, track_chems=tc),
                  lambda: _sbm_derived(model.get_derived_variables(track_chems=tc), model.y))
        f_nc, f_txt, f_der = os.path.join(d, 'sbm.nc'), os.path.join(d, 'sbm_state'), os.path.join(d, 'sbm_derived.txt')
        S.attempt(M + 'save_txt', kind, spec, lambda: (model.save_txt(f_txt, 'profile.nc', 'C20 synthetic profile'), np.loadtxt(f_txt + '.txt'))[1])
        S.attempt(M + 'save_derived_variables', kind, dict(spec, track_chems=tc),
                  lambda: _sbm_derived(model.save_derived_variables(f_der, track_chems=tc), model.y))
        if S.attempt(M + 'save_sim', kind, spec, lambda: model.save_sim(f_nc, 'profile.nc', 'C20 synthetic profile')) is FAILED:
            continue
        m2 = sbm.Model(sim['prf'])

        def load(m=m2):
            m.load_sim(f_nc)
            return m.t, m.y, m.K_T0, m.delta_t, _particle_numbers(m.particle)
        S.attempt(M + 'load_sim', kind, spec, load)
        m3 = S.attempt('single_bubble_model.Model', 'simfile', spec, lambda: sbm.Model(simfile=f_nc))
        if m3 is not FAILED:
            S.attempt(M + 'get_derived_variables', kind + ':loaded', spec, lambda: _sbm_derived(m3.get_derived_variables(), m3.y))
        # the particle list of the save file read back directly
        _load_particles_direct(S, f_nc, 'SingleParticle:model-file', spec)


@entry('single_bubble_model.ModelParams', 'single_bubble_model.sbm_ic', 'single_bubble_model.derivs', 'single_bubble_model.calculate_path')
def _sbm_functions(S):
    from tamoc import single_bubble_model as sbm
    r = S.r
    kinds = ['gas', 'liquid', 'inert']
    for i in range(S.reps()):
        spec = _sbm_spec(S, kinds[i % 3])
        kind = spec['particle']['kind']
        prf = build_profile(spec['profile'])
        p = S.attempt('single_bubble_model.ModelParams', 'profile', spec['profile'], lambda: sbm.ModelParams(prf), need=True)
        S.attempt('single_bubble_model.ModelParams', 'profile:attributes', spec['profile'], lambda: [p.rho_r, p.g, p.Ru])
        a = _sbm_args(spec, prf)
        obj = build_dbm(spec['particle'])
        ic = S.attempt('single_bubble_model.sbm_ic', kind, spec,
                       lambda: (lambda res: (res, (res[1], _particle_numbers(res[0]))))(sbm.sbm_ic(prf, obj, a['X0'].copy(), a['de'], a['yk'].copy(), a['T0'], a['K'], a['K_T'], a['fdis'], a['t_hyd'], a['lag_time'])))
        if ic is FAILED:
            continue
        particle, y0 = ic[0]
        t = r.choice([0., r.uniform(0., 600.)])
        S.attempt('single_bubble_model.derivs', kind, dict(spec, t=t, y=y0), lambda: sbm.derivs(t, y0.copy(), prf, particle, p))
        if i < 2 or i % 5 == 0:
            short = dict(spec, z0=min(spec['z0'], prf.z_min + 60.))
            y1 = y0.copy()
            y1[2] = short['z0']
            S.attempt('single_bubble_model.calculate_path', kind, dict(short, y0=y1, delta_t=a['delta_t']),
                      lambda: sbm.calculate_path(prf, particle, p, y1.copy(), a['delta_t']))


# =====================================================================================================
# bent_plume_model
# =====================================================================================================

def _bpm_scenario(S, k):
    """seeded bent-plume scenario (harness/scen_bpm.py, the generator of C03/C04) with the options C20 needs:
    crossflow for the intrusion / far-field methods, stratified water so that the plume traps, tracking on / off"""
    import scen_bpm
    r = S.r
    # k = 0: soluble particles of one composition, tracked into the far field in a crossflow (what the concentration-field
    # methods need); then mixtures with inert particles, inert only, liquids
    # (the first two, which the quick tier runs, are tracked: soluble bubbles; inert droplets of >= 2 mm that reach the surface)
    mix, track = (('gas', True), ('inert', True), ('gas+inert', False), ('oil', True), ('oil+inert', False))[k % 5]
    for _try in range(20):
        scn = scen_bpm.random_scenario(r, nparticles=r.randint(2, 3) if '+' in mix else r.randint(1, 3),
                                       depth=r.uniform(800., 1500.) if k % 5 == 0 else r.uniform(300., 1500.),
                                       mix=mix, biodeg=r.choice([False, True]),
                                       current=r.choice(['uniform', 'sheared']) if track else 'random', strat='normal', wa=False)
        kinds = set(sp['kind'] for sp in scn['particles'])
        if '+' not in mix or ('inert' in kinds and len(kinds) > 1):
            break            # a "+inert" mix really holds soluble AND inert particles
    if track and scn['profile'].get('current'):
        for node in scn['profile']['current']['nodes']:
            if math.hypot(node[1], node[2]) < 0.03:
                node[1] = 0.05                       # a crossflow that can advect the intrusion
    if mix == 'inert':
        for sp in scn['particles']:
            sp['de'] = max(sp['de'], 2.e-3)          # rises to the surface well within the 14-day cap of the far-field tracking
    scn['track'] = track
    if k % 5 == 0 and len(scn['release']['tracers']) != 1:
        # the first scenario carries exactly one passive tracer (the configuration whose save file can be written and re-read)
        scn['release']['tracers'], scn['release']['cj'] = ['tracer0'], [r.uniform(0.1, 10.)]
    scn['release']['sd_max'] = r.uniform(40., 150.)
    return scn


def _bpm_particles(S, prf, z0, specs):
    """what scen_bpm.build_particles does, with the constructor calls going through the recorder"""
    import scen_bpm
    from tamoc import dispersed_phases as dp, bent_plume_model as bpm
    parts = []
    for sp in specs:
        obj = scen_bpm.build_dbm(sp)
        Ta = float(prf.get_values(z0, ['temperature'])[0])
        yk = np.array([1.]) if sp['kind'] == 'inert' else np.array(sp['yk'], dtype=float)
        m0, T0p, nb0, P, Sa, Ta_ = dp.initial_conditions(prf, z0, obj, yk, sp['mdot'], 2, sp['de'], Ta + sp.get('dT0', 0.))
        pt = S.attempt('bent_plume_model.Particle', sp['kind'], sp,
                       lambda: bpm.Particle(0., 0., z0, obj, m0, T0p, nb0, sp['lambda_1'], P, Sa, Ta_, K=sp['K'], K_T=sp['K_T'],
                                            fdis=sp['fdis'], t_hyd=sp['t_hyd'], lag_time=sp['lag_time']), need=True)
        S.attempt('bent_plume_model.Particle', sp['kind'] + ':attributes', sp, lambda: _particle_numbers(pt) + [pt.x, pt.y, pt.z, pt.t])
        parts.append(pt)
    return parts


def _positions_checked(q, pos_slices, particles=None):
    """The coordinates of a particle that has left the plume are NaN by design (lmp.correct_particle_tracking docstring,
    lmp.py l.389-435: "replaces the particle position after integration has stopped ... with NaN so that the post-processor
    always knows whether the solution ... is valid").  Exactly that shape is accepted, per particle: the three local
    coordinates are NaN together or not at all, never in the first row, and once NaN they stay NaN to the last row; with
    `particles` (right after the simulation) the particle must also carry integrate == False.  A table of that shape is
    returned with those slots zeroed (so that everything else is checked strictly); any other NaN leaves the table as it is
    and the generic predicate reports it."""
    q = np.array(q, dtype=float)
    out = q.copy()
    for i, (a, b) in enumerate(pos_slices):
        nan3 = np.isnan(q[:, a:b])
        rows = nan3.all(axis=1)
        if not np.array_equal(rows, nan3.any(axis=1)) or (len(rows) and rows[0]):
            return q
        if rows.any():
            first = int(np.argmax(rows))
            if not rows[first:].all():
                return q
            if particles is not None and bool(particles[i].integrate):
                return q
            out[rows, a:b] = 0.
    return out


def _bpm_pos_slices(model):
    import scen_bpm
    lay = scen_bpm.layout(model.particles, len(model.chem_names), len(model.tracers))
    return [tuple(pl['X']) for pl in lay['particles']], lay['len']


def _bpm_positions_ok(model, flags=False):
    """(t, q) of a bent-plume solution with the documented NaN position slots validated (see _positions_checked)"""
    q = np.array(model.q, dtype=float)
    sl, n = _bpm_pos_slices(model)
    if n != q.shape[1]:
        return model.t, q
    return model.t, _positions_checked(q, sl, model.particles if flags else None)


def _lag_numbers(ql):
    strict = [ql.M, ql.S, ql.T, ql.rho, ql.rho_a, ql.u, ql.v, ql.w, ql.V, ql.h, ql.b, ql.sin_p, ql.cos_p, ql.sin_t, ql.cos_t, ql.phi,
              ql.theta, ql.c_chems, ql.c_tracers, ql.mp, ql.fb, ql.Fb, ql.x, ql.y, ql.z, ql.s, ql.x_p]
    # X_p: local coordinates taken from the state space — NaN (all three together) for a particle outside the plume; the
    # Cartesian x_p comes from Particle.track, which then reports the exit position, and must be finite
    Xp = np.atleast_2d(np.array(ql.X_p, dtype=float))
    if Xp.size:
        nan3 = np.isnan(Xp)
        if np.array_equal(nan3.all(axis=1), nan3.any(axis=1)):
            Xp = np.where(nan3, 0., Xp)
    return strict, Xp


@builder('bpm_sims', 'bent_plume_model.Model.simulate')
def _build_bpm(S):
    import scen_bpm
    from tamoc import bent_plume_model as bpm
    sims = []
    for k in range(S.reps(S.nsim)):
        scn = _bpm_scenario(S, k)
        try:
            prf, d = _scratch_profile_obj(S, scen_bpm.build_profile(scn['profile']))
        except CallFailed:
            continue
        rel = scn['release']
        z0 = rel['z0']
        try:
            parts = _bpm_particles(S, prf, z0, scn['particles'])
        except CallFailed:
            continue
        model = S.attempt('bent_plume_model.Model', 'profile', scn['profile'], lambda: bpm.Model(prf))
        if model is FAILED:
            continue
        S.attempt('bent_plume_model.Model', 'profile:attributes', None, lambda: _obj_numbers(model.p))
        Ta = float(prf.get_values(z0, ['temperature'])[0])
        kind = '+'.join(sorted(set(sp['kind'] for sp in scn['particles']))) + (':tracked' if scn['track'] else '')

        def sim():
            model.simulate(np.array([0., 0., z0]), rel['D'], rel['Vj'], rel['phi_0'], rel['theta_0'], rel['Sj'], Ta + rel['dTj'],
                           np.array(rel['cj'], dtype=float), list(rel['tracers']), particles=parts, track=scn['track'],
                           dt_max=rel['dt_max'], sd_max=rel['sd_max'])
            return _bpm_positions_ok(model, flags=True)
        if S.attempt('bent_plume_model.Model.simulate', kind, scn, sim) is FAILED:
            continue
        for pt in parts:
            S.reached('bpm:soluble' if pt.particle.issoluble else 'bpm:inert')
        if scn['track']:
            S.reached('bpm:tracked')
        sims.append({'model': model, 'scn': scn, 'prf': prf, 'dir': d, 'kind': kind, 'parts': parts})
    if not sims:
        raise Blocked('no bent-plume simulation completed')
    return sims


def _scratch_profile_obj(S, prf):
    d = S.tmp('sim')
    os.makedirs(d)
    write_profile_nc(S, prf, os.path.join(d, 'profile.nc'))
    return prf, d


TABLE['tamoc.bent_plume_model.Model.simulate'] = lambda S: S.get('bpm_sims')


@entry('bent_plume_model.Model', 'bent_plume_model.Model.get_derived_variables', 'bent_plume_model.Model.save_sim',
       'bent_plume_model.Model.save_txt', 'bent_plume_model.Model.save_derived_variables', 'bent_plume_model.Model.load_sim',
       'bent_plume_model.Model.report_mass_fluxes', 'bent_plume_model.Model.report_surfacing_fluxes',
       'bent_plume_model.Model.report_watercolumn_particle_fluxes', 'bent_plume_model.Model.report_psds',
       'bent_plume_model.Model.get_intrusion_initial_condition', 'bent_plume_model.Model.get_intrusion_concentration',
       'bent_plume_model.Model.get_grid_concentrations', 'bent_plume_model.Model.get_planar_concentrations',
       'bent_plume_model.Particle.point_concentration', 'bent_plume_model.Particle.grid_concentrations',
       'bent_plume_model.Particle.outside', 'bent_plume_model.Particle.track', 'bent_plume_model.Particle.run_sbm',
       'bent_plume_model.LagElement.update')
def _bpm_post(S):
    from tamoc import bent_plume_model as bpm
    r = S.r
    M = 'bent_plume_model.Model.'
    for sim in S.get('bpm_sims'):
        model, scn, kind, d, prf = sim['model'], sim['scn'], sim['kind'], sim['dir'], sim['prf']
        parts = model.particles
        comp = list(model.composition)
        nt = len(model.t)
        tracked = bool(scn['track'])
        # the report_* methods index every particle's masses with the compound list of particles[0]: a list that mixes soluble
        # and inert particles (a documented, simulated configuration) gets its own input kind / key
        # classification from the scenario the harness generated (not from the objects under test)
        spec_kinds = [sp['kind'] for sp in scn['particles']]
        hetero = ('inert' in spec_kinds) and any(k_ != 'inert' for k_ in spec_kinds)
        hk = ':soluble+inert-particles' if hetero else ''
        soluble = any(k_ != 'inert' for k_ in spec_kinds)
        spec_fp = [0 if k_ == 'gas' else 1 for k_ in spec_kinds]            # scen_bpm.build_dbm: gas -> fp_type 0, liquid / inert -> 1
        cur = scn['profile'].get('current')
        crossflow = bool(cur) and min(math.hypot(nd[1], nd[2]) for nd in cur['nodes']) >= 0.03      # every current node of the spec
        # ---- LagElement.update at stored states (what every post-processing method is built on)
        for idx in sorted(set([0, nt // 2, nt - 1])):
            S.attempt('bent_plume_model.LagElement.update', kind, dict(scn, index=idx),
                      lambda idx=idx: (model.q_local.update(model.t[idx], model.q[idx], prf, model.p, parts), _lag_numbers(model.q_local))[1])
        # ---- derived variables / mass fluxes / size distributions
        tc = r.choice([None, (model.chem_names or comp)[:1]])
        S.attempt(M + 'get_derived_variables', kind, dict(scn, track_chems=tc), lambda: _derived_ok(model.get_derived_variables(track_chems=tc)))
        for idx in (0, -1, r.randrange(nt)):
            for stage in ((0, 1) if tracked else (0,)):
                chems = r.choice([None, comp[:1], [0]])
                fpt = r.choice([-1, 0, 1])
                if stage == 1:
                    # "The idx value will index the respective model simulation vector": the far-field vectors differ in length
                    lens = [len(pt.sbm.t) for pt in parts if pt.farfield]
                    idx1 = min(idx, min(lens) - 1) if (lens and idx >= 0) else idx
                else:
                    idx1 = idx
                S.attempt(M + 'report_mass_fluxes', hk[1:] if hetero else 'stage%d' % stage, dict(scn, idx=idx1, stage=stage, chems=chems, fp_type=fpt),
                          lambda: model.report_mass_fluxes(idx1, stage=stage, chems=chems, fp_type=fpt), edge=hetero)
        surfaced = model.q[-1, 9] <= 50.
        if surfaced or tracked:
            def surf(fps):
                mp, mc, tp, tc_ = model.report_surfacing_fluxes(chems=None, fp_type=fps)
                # documented NaN (docstring + l.1584-1635): tc "will equal np.nan if the near-field plume does not surface"; tp[i] is NaN
                # for a SELECTED particle that did not surface (in the plume: still deeper than 50 m; tracked: never left the plume or
                # its far-field trajectory ends deeper than 50 m).  Exactly that pattern is accepted, nothing else.
                exp = np.zeros(len(parts), dtype=bool)
                for i, pt in enumerate(parts):
                    if fps < 0 or spec_fp[i] == fps:
                        exp[i] = (pt.z >= 50.) if surfaced else ((not pt.farfield) or pt.sbm.y[-1, 2] >= 50.)
                tp = np.array(tp, dtype=float)
                sel = np.array([fps < 0 or f == fps for f in spec_fp])
                if np.any(np.isfinite(tp) & sel & (tp > 0.)):
                    S.reached('bpm:finite-surfacing-time')
                if np.array_equal(np.isnan(tp), exp) and bool(np.isnan(tc_)) == (not surfaced):
                    tp, tc_ = np.where(exp, 0., tp), (0. if not surfaced else tc_)
                return mp, mc, tp, tc_
            for fps in (-1, r.choice([0, 1])):
                S.attempt(M + 'report_surfacing_fluxes', hk[1:] if hetero else ('surfaced' if surfaced else 'trapped'), dict(scn, fp_type=fps),
                          lambda fps=fps: surf(fps), edge=hetero)
        else:
            S.skip('tamoc.' + M + 'report_surfacing_fluxes', 'plume trapped and particles not tracked (the method asks for track=True)')
        S.attempt(M + 'report_watercolumn_particle_fluxes', hk[1:] if hetero else 'all-particles', scn,
                  lambda: model.report_watercolumn_particle_fluxes(chems=None, fp_type=-1), edge=hetero)
        loc = r.randrange(nt)
        S.attempt(M + 'report_psds', kind + ':stage0', dict(scn, loc=loc, stage=0), lambda: model.report_psds(loc, 0))
        if tracked:
            def psd_expected(pt, loc):
                """the branches of report_psds l.1815-1877 that "report no result" (NaN) for one particle"""
                if not pt.farfield:
                    return True
                z = pt.sbm.y[:, 2]
                if loc < np.max(z):
                    return True
                if np.min(z) < loc:
                    return not (z[0] + 1. > loc)
                return False

            def psd1(loc, need_value):
                d_gas, v_gas, d_liq, v_liq = model.report_psds(loc, 1)
                out = []
                nvalues = 0
                for fp0, d, v in ((True, d_gas, v_gas), (False, d_liq, v_liq)):
                    exp = np.array([psd_expected(pt, loc) for pt, f in zip(parts, spec_fp) if (f == 0) == fp0], dtype=bool)
                    d, v = np.array(d, dtype=float), np.array(v, dtype=float)
                    if d.shape == exp.shape and np.array_equal(np.isnan(d), exp) and np.array_equal(np.isnan(v), exp):
                        nvalues += int(np.sum(~exp))
                        d, v = np.where(exp, 0., d), np.where(exp, 0., v)
                    out += [d, v]
                if need_value and nvalues == 0:
                    return model.report_psds(loc, 1)       # an all-NaN answer where a value is due is not accepted
                if nvalues:
                    S.reached('bpm:stage1-psd-value')
                return out
            ff = [pt for pt in parts if pt.farfield and np.max(pt.sbm.y[:, 2]) == pt.sbm.y[0, 2]]
            if not ff:
                S.skip('tamoc.' + M + 'report_psds', 'tracked scenario without a particle that rose in the far field: no stage-1 value is due')
            if ff:
                zl = float(r.choice(ff).sbm.y[0, 2]) + 0.5        # within 1 m of the start of a far-field trajectory: a value is due
                S.attempt(M + 'report_psds', kind + ':stage1:at-exit-depth', dict(scn, loc=zl, stage=1), lambda: psd1(zl, True))
            zr = r.uniform(0., float(model.q[-1, 9]))
            S.attempt(M + 'report_psds', kind + ':stage1', dict(scn, loc=zr, stage=1), lambda: psd1(zr, False))
        # ---- intrusion layer and far field (need a crossflow to advect the intrusion / the dissolved plume)
        if not soluble:
            S.skip('tamoc.' + M + 'get_intrusion_concentration', 'no soluble particle: there are no dissolved compounds to report')
        elif crossflow:
            for _k in range(2):
                S.attempt(M + 'get_intrusion_initial_condition', kind, scn, lambda: model.get_intrusion_initial_condition())
            zc = max(float(model.q[-1, 9]), 0.1)
            x = np.array([[r.uniform(10., 5000.), r.uniform(-50., 50.), zc + r.uniform(-5., 5.)] for _ in range(4)])
            for mc in (True, False):
                S.attempt(M + 'get_intrusion_concentration', hk[1:] if hetero else 'max_C=%s' % mc, dict(scn, x=x, max_C=mc),
                          lambda mc=mc: model.get_intrusion_concentration(x.copy(), max_C=mc), edge=hetero)
            if tracked and all(pt.farfield for pt in parts):
                S.reached('bpm:far-field-of-every-particle')
                for mc in (True, False):
                    S.attempt(M + 'get_grid_concentrations', hk[1:] if hetero else 'max_C=%s' % mc, dict(scn, x=x, max_C=mc),
                              lambda mc=mc: model.get_grid_concentrations(x.copy(), max_C=mc), edge=hetero)
                yv, zv = np.linspace(-20., 20., 3), np.linspace(max(zc - 100., 1.), zc, 3)
                S.attempt(M + 'get_planar_concentrations', hk[1:] if hetero else 'yz-plane', dict(scn, x=500., y=yv, z=zv),
                          lambda: model.get_planar_concentrations(500., yv.copy(), zv.copy()), edge=hetero)
                xv = np.linspace(100., 2000., 3)
                S.attempt(M + 'get_planar_concentrations', hk[1:] if hetero else 'xz-plane', dict(scn, x=xv, y=0., z=zv),
                          lambda: model.get_planar_concentrations(xv.copy(), 0., zv.copy()), edge=hetero)
                pt = r.choice(parts)
                zp = r.uniform(pt.z_min, pt.z_max)
                xp = np.array([r.uniform(10., 3000.), r.uniform(-20., 20.), zp])
                for mc in (True, False):
                    S.attempt('bent_plume_model.Particle.point_concentration', '%s:max_C=%s' % (kind, mc), dict(scn, x=xp, max_C=mc),
                              lambda mc=mc: pt.point_concentration(xp.copy(), max_C=mc))
                for mc in (True, False):
                    S.attempt('bent_plume_model.Particle.grid_concentrations', '%s:max_C=%s' % (kind, mc), dict(scn, x=x, max_C=mc),
                              lambda mc=mc: pt.grid_concentrations(x.copy(), mc))
            else:
                S.skip('tamoc.' + M + 'get_grid_concentrations', 'needs the far-field tracking of every particle (track=True and all particles left the plume below the surface)')
        else:
            S.skip('tamoc.' + M + 'get_intrusion_initial_condition', 'no ambient current at the end of the near field (the intrusion is advected by the current)')
        # ---- files
        f_nc, f_txt, f_der = os.path.join(d, 'bpm.nc'), os.path.join(d, 'bpm_state'), os.path.join(d, 'bpm_derived.txt')
        S.attempt(M + 'save_txt', kind, scn, lambda: (model.save_txt(f_txt, 'profile.nc', 'C20 synthetic profile'), _txt_ok(f_txt + '.txt', model))[1])
        S.attempt(M + 'save_derived_variables', kind, dict(scn, track_chems=tc), lambda: _derived_ok(model.save_derived_variables(f_der, track_chems=tc)))
        # the particle list of a finished simulation written directly (bent-plume particles carry their simulation attributes)
        pth = _save_particles_direct(S, parts, 'bpm.Particle:after-simulation', scn)
        if pth is not FAILED and os.path.exists(pth):
            os.remove(pth)
        # save_sim stores the tracer concentrations in one scalar slot: a release with no or with several passive tracers
        # (both simulate fine) gets its own input kind / key
        ntr = len(scn['release']['tracers'])          # from the scenario, not from the model
        if S.attempt(M + 'save_sim', kind if ntr == 1 else '%d-tracers' % ntr, scn,
                     lambda: model.save_sim(f_nc, 'profile.nc', 'C20 synthetic profile'), edge=(ntr != 1)) is not FAILED:
            m2 = bpm.Model(prf)

            def load(m=m2):
                m.load_sim(f_nc)
                return _bpm_positions_ok(m), [_particle_numbers(q) for q in m.particles]
            if S.attempt(M + 'load_sim', kind, scn, load) is not FAILED:
                S.attempt(M + 'get_derived_variables', kind + ':loaded', scn, lambda: _derived_ok(m2.get_derived_variables()))
                # a second time into the object that already holds a solution (documented use: "rebuild the Model object attributes")
                S.attempt(M + 'load_sim', kind + ':reload', scn, load)
            S.attempt('bent_plume_model.Model', 'simfile', scn, lambda: _bpm_positions_ok(bpm.Model(simfile=f_nc)))
            _load_particles_direct(S, f_nc, 'bpm.Particle:model-file', scn)
        # ---- Particle methods on the simulated particles (last: they change the particle state)
        pt = r.choice(parts)
        ql = model.q_local
        ql.update(model.t[nt // 2], model.q[nt // 2], prf, model.p, parts)
        i = parts.index(pt)
        Xp = np.array(ql.X_p[i], dtype=float)
        if not np.all(np.isfinite(Xp)):
            S.skip('tamoc.bent_plume_model.Particle.track', 'inside-the-plume case: the chosen particle has already left the plume at the middle row')
        if np.all(np.isfinite(Xp)):
            S.attempt('bent_plume_model.Particle.track', kind + ':inside', dict(scn, t_p=float(ql.t_p[i]), X_p=Xp),
                      lambda: pt.track(float(ql.t_p[i]), np.array([ql.x, ql.y, ql.z]), Xp.copy(), ql))
        if pt.integrate or not hasattr(pt, 'te'):
            S.skip('tamoc.bent_plume_model.Particle.track', 'outside-the-plume case: the chosen particle is still inside at the middle row')
        else:
            S.attempt('bent_plume_model.Particle.track', kind + ':outside', scn,
                      lambda: pt.track(float(ql.t_p[i]), np.array([ql.x, ql.y, ql.z]), Xp.copy(), ql))
        ffp = [q for q in parts if tracked and q.farfield and q.z > 0.]
        if tracked and not ffp:
            S.skip('tamoc.bent_plume_model.Particle.run_sbm', 'tracked scenario, but no particle is below the surface with a far-field solution')
        for j in range(2 if ffp else 0):
            p2 = ffp[j % len(ffp)]
            S.attempt('bent_plume_model.Particle.run_sbm', kind, dict(scn, particle=parts.index(p2)), lambda p2=p2: (p2.run_sbm(prf), p2.sbm.t, p2.sbm.y)[1:])
        Ta, Sa, Pa = prf.get_values(float(ql.z), ['temperature', 'salinity', 'pressure'])
        S.attempt('bent_plume_model.Particle.outside', kind, dict(scn, Ta=Ta, Sa=Sa, Pa=Pa),
                  lambda: (pt.outside(Ta, Sa, Pa), [pt.us, pt.rho_p, pt.A, pt.Cs, pt.beta, pt.beta_T, pt.T])[1])


def _derived_ok(res):
    """derived-variable table of the bent plume model (data, names | header, ...): strict — the particle coordinates in this
    table are Cartesian positions from Particle.track, which reports the exit position once a particle has left the plume,
    so the NaN convention of the state space does not apply here"""
    return res


def _txt_ok(path, model):
    """state space written by save_txt: column 0 is the time, then q — same documented NaN slots as the state space"""
    a = np.atleast_2d(np.loadtxt(path))
    sl, n = _bpm_pos_slices(model)
    if n + 1 != a.shape[1]:
        return a
    return _positions_checked(a, [(x + 1, y + 1) for x, y in sl])


@entry('bent_plume_model.ModelParams', 'bent_plume_model.Particle', 'bent_plume_model.LagElement', 'bent_plume_model.width_projection',
       'bent_plume_model.chem_idx_list')
def _bpm_functions(S):
    import scen_bpm
    from tamoc import bent_plume_model as bpm, lmp
    r = S.r
    for i in range(S.reps()):
        scn = _bpm_scenario(S, i)
        prf = scen_bpm.build_profile(scn['profile'])
        p = S.attempt('bent_plume_model.ModelParams', 'profile', scn['profile'], lambda: bpm.ModelParams(prf), need=True)
        S.attempt('bent_plume_model.ModelParams', 'profile:attributes', scn['profile'],
                  lambda: {k: v for k, v in vars(p).items() if isinstance(v, (int, float, np.floating))})
        rel = scn['release']
        z0 = rel['z0']
        try:
            parts = _bpm_particles(S, prf, z0, scn['particles'])
        except CallFailed:
            continue
        Ta = float(prf.get_values(z0, ['temperature'])[0])
        kind = '+'.join(sorted(set(sp['kind'] for sp in scn['particles'])))
        with quiet():
            t0, q0, chem_names = lmp.main_ic(prf, parts, np.array([0., 0., z0]), rel['D'], rel['Vj'], rel['phi_0'], rel['theta_0'],
                                             rel['Sj'], Ta + rel['dTj'], np.array(rel['cj'], dtype=float), list(rel['tracers']), p)
        S.attempt('bent_plume_model.LagElement', kind, scn,
                  lambda: _lag_numbers(bpm.LagElement(t0, q0, rel['D'], prf, p, parts, list(rel['tracers']), chem_names)))
        phi, th, b = r.uniform(-math.pi / 2, math.pi / 2), r.uniform(0., 2 * math.pi), lu(r, 0.05, 100.)
        a = r.choice([(math.cos(phi) * math.cos(th), math.cos(phi) * math.sin(th)), (math.cos(phi) * math.cos(th), math.sin(phi)), (0., 0.)])
        S.attempt('bent_plume_model.width_projection', 'unit-vector', dict(Sx=a[0], Sy=a[1], b=b), lambda: bpm.width_projection(a[0], a[1], b))
        comp = ['methane', 'ethane', 'propane', 'benzene']
        for chems in (None, ['ethane', 'benzene'], [0, 2]):
            S.attempt('bent_plume_model.chem_idx_list', type(chems).__name__ + ('' if not chems else ':' + type(chems[0]).__name__),
                      dict(chems=chems, composition=comp), lambda chems=chems: bpm.chem_idx_list(chems, list(comp)))


# =====================================================================================================
# stratified_plume_model
# =====================================================================================================

def _spm_spec(S, k, cap=None):
    """seeded stratified-plume scenario (harness/scen_spm.py, the generator of C06): soluble and inert particles"""
    import scen_spm
    r = S.r
    n_sol, n_inert = ((1, 1), (0, 1), (1, 0), (2, 1), (2, 0))[k % 5]
    spec = scen_spm.random_spec(r, n_sol, n_inert, background=r.random() < 0.5)
    # the run time grows with the height of rise: release depth capped (quick 250 m, thorough 600 m)
    spec['z0'] = min(spec['z0'], S.ctx.n(250., 600.) * (cap if cap else 1.))
    spec['maxit'] = 2
    spec['delta_z'] = r.choice([2., 4., 8.])
    spec['toler'] = 0.2
    return spec


def _spm_kind(spec):
    return '+'.join(sorted(set('soluble' if s['soluble'] else 'inert' for s in spec['particles'])))


@builder('spm_sims', 'stratified_plume_model.Model.simulate')
def _build_spm(S):
    import scen_spm
    from tamoc import stratified_plume_model as spm
    sims = []
    for k in range(S.reps(S.nsim)):
        spec = _spm_spec(S, k)
        sc = scen_spm.build(spec)
        try:
            prf, d = _scratch_profile_obj(S, sc.profile)
        except CallFailed:
            continue
        model = S.attempt('stratified_plume_model.Model', 'profile', spec['profile'], lambda: spm.Model(prf))
        if model is FAILED:
            continue
        S.attempt('stratified_plume_model.Model', 'profile:attributes', None, lambda: _obj_numbers(model.p))
        kind = _spm_kind(spec)

        def sim():
            model.simulate(sc.particles, sc.z0, sc.R, maxit=spec['maxit'], toler=spec['toler'], delta_z=spec['delta_z'], plots=False)
            return model.zi, model.yi, model.zo, model.yo
        if S.attempt('stratified_plume_model.Model.simulate', kind, spec, sim) is FAILED:
            continue
        for ps_ in spec['particles']:
            S.reached('spm:soluble' if ps_['soluble'] else 'spm:inert')
        sims.append({'model': model, 'spec': spec, 'sc': sc, 'prf': prf, 'dir': d, 'kind': kind})
    if not sims:
        raise Blocked('no stratified-plume simulation completed')
    return sims


TABLE['tamoc.stratified_plume_model.Model.simulate'] = lambda S: S.get('spm_sims')


def _inner_numbers(yi):
    return [yi.z, yi.Q, yi.J, yi.S, yi.H, yi.T, yi.u, yi.b, yi.rho, yi.rho_a, yi.c, yi.xi, yi.fb, yi.Fb, yi.Ep]


def _outer_numbers(yo):
    return [yo.z, yo.Q, yo.J, yo.S, yo.H, yo.T, yo.u, yo.b, yo.rho, yo.rho_a, yo.c]


@entry('stratified_plume_model.Model', 'stratified_plume_model.Model.get_derived_variables', 'stratified_plume_model.Model.report_psds',
       'stratified_plume_model.Model.report_intrusion_fluxes', 'stratified_plume_model.Model.save_sim',
       'stratified_plume_model.Model.save_txt', 'stratified_plume_model.Model.save_derived_variables',
       'stratified_plume_model.Model.load_sim', 'stratified_plume_model.InnerPlume.update', 'stratified_plume_model.OuterPlume.update')
def _spm_post(S):
    from tamoc import stratified_plume_model as spm
    r = S.r
    M = 'stratified_plume_model.Model.'
    for sim in S.get('spm_sims'):
        model, spec, kind, d, prf = sim['model'], sim['spec'], sim['kind'], sim['dir'], sim['prf']
        ni, no = len(model.zi), len(model.zo)
        for idx in sorted(set([0, ni // 2, ni - 1])):
            S.attempt('stratified_plume_model.InnerPlume.update', kind, dict(spec, index=idx),
                      lambda idx=idx: (model.yi_local.update(model.zi[idx], model.yi[idx, :], model.particles, prf, model.p),
                                       _obj_numbers(model.yi_local))[1])
        for idx in sorted(set([0, no // 2, no - 1])):
            S.attempt('stratified_plume_model.OuterPlume.update', kind, dict(spec, index=idx),
                      lambda idx=idx: (model.yo_local.update(model.zo[idx], model.yo[idx, :], prf, model.p, model.yi_local.b),
                                       _obj_numbers(model.yo_local))[1])
        tc = r.choice([None, list(model.chem_names)[:1] or None])
        S.attempt(M + 'get_derived_variables', kind, dict(spec, track_chems=tc), lambda: model.get_derived_variables(track_chems=tc))
        for idx in (0, -1, r.randrange(ni)):
            S.attempt(M + 'report_psds', kind, dict(spec, idx=idx), lambda idx=idx: model.report_psds(idx))
        S.attempt(M + 'report_intrusion_fluxes', kind, spec, lambda: model.report_intrusion_fluxes())
        f_nc, f_txt, f_der = os.path.join(d, 'spm.nc'), os.path.join(d, 'spm_state'), os.path.join(d, 'spm_derived')
        S.attempt(M + 'save_txt', kind, spec, lambda: (model.save_txt(f_txt, 'profile.nc', 'C20 synthetic profile'),
                                                       [np.loadtxt(f) for f in sorted(glob.glob(f_txt + '*.txt')) if 'header' not in f])[1])
        S.attempt(M + 'save_derived_variables', kind, dict(spec, track_chems=tc), lambda: model.save_derived_variables(f_der, track_chems=tc))
        if S.attempt(M + 'save_sim', kind, spec, lambda: model.save_sim(f_nc, 'profile.nc', 'C20 synthetic profile')) is FAILED:
            continue
        m2 = spm.Model(prf)

        def load(m=m2):
            m.load_sim(f_nc)
            return m.zi, m.yi, m.zo, m.yo, [_particle_numbers(q) for q in m.particles]
        if S.attempt(M + 'load_sim', kind, spec, load) is not FAILED:
            S.attempt(M + 'get_derived_variables', kind + ':loaded', spec, lambda: m2.get_derived_variables())
        S.attempt('stratified_plume_model.Model', 'simfile', spec, lambda: (lambda m: (m.zi, m.yi, m.zo, m.yo))(spm.Model(simfile=f_nc)))
        _load_particles_direct(S, f_nc, 'PlumeParticle:model-file', spec)


def _obj_numbers(o):
    """every numeric attribute of an object.  Not inspected: Aij / Bij of the dbm classes — the group-interaction tables of
    Privat & Jaubert read from data/Aij.csv, Bij.csv, whose cells for group pairs without published parameters are NaN"""
    return {k: v for k, v in vars(o).items() if isinstance(v, (int, float, np.floating, np.ndarray)) and not isinstance(v, bool)
            and k not in ('Aij', 'Bij')}


@entry('stratified_plume_model.ModelParams', 'stratified_plume_model.InnerPlume', 'stratified_plume_model.OuterPlume',
       'stratified_plume_model.inner_main', 'stratified_plume_model.outer_main', 'stratified_plume_model.err_check',
       'stratified_plume_model.particle_from_Q', 'stratified_plume_model.particle_from_mb0')
def _spm_functions(S):
    import scen_spm
    from scipy.interpolate import interp1d
    from tamoc import stratified_plume_model as spm, smp
    r = S.r
    kinds = ['gas', 'liquid', 'inert']
    for i in range(S.reps()):
        # ---- particle factories
        prf, z0, obj, sp, yk = _particle_case(S, kinds=(kinds[i % 3],), current='none')
        de, lam = lu(r, 5e-4, 1e-2), r.uniform(0.7, 1.)
        T0 = r.choice([None, float(prf.get_values(z0, ['temperature'])[0]) + r.uniform(0., 20.)])
        w = dict(K=r.choice([1., 0.5]), K_T=r.choice([1., 0.]), fdis=10 ** r.uniform(-8, -3), t_hyd=r.choice([0., 100.]))
        Q_N, mb0 = lu(r, 1e-4, 0.5), lu(r, 1e-2, 5.)
        d = dict(sp, profile=prf._c20_descr, z0=z0, de=de, lambda_1=lam, T0=T0, **w)
        S.attempt('stratified_plume_model.particle_from_Q', sp['kind'], dict(d, Q_N=Q_N),
                  lambda: _particle_numbers(spm.particle_from_Q(prf, z0, obj, yk.copy(), Q_N, de, lam, T0, **w)))
        S.attempt('stratified_plume_model.particle_from_mb0', sp['kind'], dict(d, mb0=mb0),
                  lambda: _particle_numbers(spm.particle_from_mb0(prf, z0, obj, yk.copy(), mb0, de, lam, T0, **w)))
    for i in range(S.reps(max(2, S.n // 6))):
        # ---- model pieces, called the way Model.simulate calls them
        spec = _spm_spec(S, i, cap=0.6)
        sc = scen_spm.build(spec)
        kind = _spm_kind(spec)
        prf = sc.profile
        p = S.attempt('stratified_plume_model.ModelParams', 'profile', spec['profile'], lambda: spm.ModelParams(prf), need=True)
        S.attempt('stratified_plume_model.ModelParams', 'profile:attributes', spec['profile'], lambda: _obj_numbers(p))
        with quiet():
            z0, y0, chem_names = smp.main_ic(prf, sc.particles, p, sc.z0, sc.R)
        yi = S.attempt('stratified_plume_model.InnerPlume', kind, spec, lambda: spm.InnerPlume(z0, y0, prf, sc.particles, p, chem_names), need=True)
        S.attempt('stratified_plume_model.InnerPlume', kind + ':attributes', spec, lambda: _obj_numbers(yi))
        yo = S.attempt('stratified_plume_model.OuterPlume', kind, spec,
                       lambda: spm.OuterPlume(z0, np.zeros(4 + yi.nchems), prf, p, chem_names, yi.b), need=True)
        S.attempt('stratified_plume_model.OuterPlume', kind + ':attributes', spec, lambda: _obj_numbers(yo))
        neighbor = interp1d(np.array([0, prf.z_max]), np.zeros((2, 4 + yo.nchems)).transpose())
        dz = spec['delta_z']
        sols = []
        for it in range(2):
            res = S.attempt('stratified_plume_model.inner_main', '%s:iteration%d' % (kind, it + 1), spec,
                            lambda: (lambda z, y, nb: ((z, y, nb), (z, y)))(*spm.inner_main(yi, yo, sc.particles, prf, p, neighbor, dz)))
            if res is FAILED:
                break
            (zi, yis, neighbor) = res[0]
            res = S.attempt('stratified_plume_model.outer_main', '%s:iteration%d' % (kind, it + 1), spec,
                            lambda: (lambda z, y, nb: ((z, y, nb), (z, y)))(*spm.outer_main(yi, yo, sc.particles, prf, p, neighbor, dz)))
            if res is FAILED:
                break
            (zo, yos, neighbor) = res[0]
            sols.append((zi, yis, zo, yos))
            for pt, k0 in zip(sc.particles, sc.K_T0):
                pt.K_T = k0
        if len(sols) == 2:
            (zi0, yi0, zo0, yo0), (zi1, yi1, zo1, yo1) = sols
            S.attempt('stratified_plume_model.err_check', kind, spec,
                      lambda: spm.err_check(zi1, yi1, zo1, yo1, zi0, yi0, zo0, yo0, yi, yo, sc.particles, prf, p))


# =====================================================================================================
# blowout
# =====================================================================================================

def _blowout_substance(r, light=True):
    heavy = r.sample(['n-hexane', 'n-heptane', 'benzene', 'toluene', 'ethylbenzene', 'n-decane'], r.randint(2, 4))
    if 'n-decane' not in heavy:
        heavy[-1] = 'n-decane'
    lightc = (['methane'] + r.sample(['ethane', 'propane'], r.randint(0, 2))) if light else []
    comp = lightc + heavy
    w = np.concatenate([dirichlet(r, len(lightc)) * r.uniform(0.1, 0.4), dirichlet(r, len(heavy))]) if light else dirichlet(r, len(heavy))
    return {'composition': comp, 'masses': w}


def _blowout_numbers(b):
    out = [b.T0, b.S0, b.P0, b.mass_flux, b.d_gas, b.vf_gas, b.d_liq, b.vf_liq, b.dt_max, b.sd_max]
    out += [[pt.m0, pt.nb0, pt.us, pt.rho_p] for pt in b.disp_phases]
    return out


def _water_txt(S, ps):
    """text file of depth (m), temperature (deg C), salinity (psu), u, v (m/s) — the format blowout documents"""
    z, T, Sa = profile_columns(ps)
    path = S.tmp('ctd') + '.txt'
    with open(path, 'w') as f:
        f.write('# depth temperature salinity ua va\n')
        for i in range(len(z)):
            f.write('%.6f %.6f %.6f %.4f %.4f\n' % (z[i], T[i] - 273.15, Sa[i], 0.1, 0.02))
    return path


@builder('blowouts', 'blowout.Blowout')
def _build_blowouts(S):
    from tamoc import blowout
    r = S.r
    out = []
    for k in range(S.reps(max(2, S.nsim // 2))):
        H = r.choice([1000., 1500., 2500.])
        ps = profile_spec(r, H=H, current='none')
        wk = ('world', 'profile', 'dict', 'ncfile', 'txt')[k % 5]
        cur = [np.array([0.1, 0., 0.]), 0.08, np.array([0.05, 0.05]), np.array([[0., 0.1, 0., 0.], [5000., 0.05, 0.02, 0.]])][k % 4]
        if wk == 'world':
            water = None
        elif wk == 'dict':
            water = {'temperature': r.uniform(280., 300.), 'salinity': r.uniform(33., 36.)}
        elif wk == 'profile':
            water = build_profile(dict(ps, current=[[0., 0.1, 0., 0.], [H, 0.05, 0., 0.]]))
        elif wk == 'ncfile':
            prf, d = _scratch_profile(S, dict(ps, current=[[0., 0.1, 0., 0.], [H, 0.05, 0., 0.]]))
            water = os.path.join(d, 'profile.nc')
        else:
            water = _water_txt(S, ps)
        zmax = 3000. if wk in ('world', 'dict') else H
        gor = r.choice([0., lu(r, 100., 2000.)])
        args = dict(z0=r.uniform(0.3, 0.9) * zmax, d0=lu(r, 0.05, 0.5), substance=_blowout_substance(r, light=(gor == 0.)),
                    q_oil=lu(r, 2000., 50000.), gor=gor, x0=0., y0=0., u0=r.choice([None, 0., r.uniform(0.1, 2.)]),
                    phi_0=r.choice([-math.pi / 2, -r.uniform(0.2, 1.5)]), theta_0=r.choice([0., r.uniform(0., 2 * math.pi)]),
                    num_gas_elements=r.randint(1, 4), num_oil_elements=r.randint(1, 4), water=water, current=cur,
                    ca=r.choice(['all', []]))
        d = dict(args, water=wk if wk != 'dict' else water, profile=ps)
        b = S.attempt('blowout.Blowout', 'water-%s:gor%s' % (wk, '>0' if gor else '=0'), d, lambda: blowout.Blowout(**args))
        if b is FAILED:
            continue
        S.attempt('blowout.Blowout', 'attributes', d, lambda: _blowout_numbers(b))
        out.append({'b': b, 'args': args, 'descr': d, 'ps': ps, 'zmax': zmax})
    if not out:
        raise Blocked('no Blowout object could be built')
    return out


BLOWOUT_UPDATES = ['update_release_depth', 'update_orifice_diameter', 'update_substance', 'update_q_oil', 'update_gor',
                   'update_produced_water', 'update_vertical_orientation', 'update_horizontal_orientation', 'update_num_gas_elements',
                   'update_water_data', 'update_current_data', 'update_track_particles']


@entry('blowout.Blowout', 'blowout.Blowout.simulate', 'blowout.Blowout.save_sim', 'blowout.Blowout.save_txt',
       *['blowout.Blowout.' + u for u in BLOWOUT_UPDATES])
def _blowout_obj(S):
    from tamoc import blowout
    r = S.r
    B = 'blowout.Blowout.'
    for item in S.get('blowouts'):
        b, d, zmax = item['b'], item['descr'], item['zmax']

        def settle():
            """bring the object up to date the way simulate() does before it starts the model"""
            b._update()
            return _blowout_numbers(b)
        vals = {
            'update_release_depth': r.uniform(0.3, 0.9) * zmax, 'update_orifice_diameter': lu(r, 0.05, 0.5),
            'update_substance': _blowout_substance(r, light=True), 'update_q_oil': lu(r, 2000., 50000.),
            'update_gor': r.choice([0., lu(r, 100., 2000.)]) if 'methane' not in b.substance['composition'] else 0.,
            'update_produced_water': r.choice([None, 0., r.uniform(0.1, 2.)]), 'update_vertical_orientation': -r.uniform(0.1, math.pi / 2),
            'update_horizontal_orientation': r.uniform(0., 2 * math.pi), 'update_num_gas_elements': r.randint(1, 4),
            'update_water_data': r.choice([None, {'temperature': r.uniform(280., 300.), 'salinity': r.uniform(33., 36.)}]),
            'update_current_data': r.choice([0.05, np.array([0.1, 0.02]), np.array([0.1, 0.02, 0.]), np.array([[0., 0.1, 0., 0.], [5000., 0.05, 0.02, 0.]])]),
            'update_track_particles': r.choice([True, False]),
        }
        order = list(BLOWOUT_UPDATES)
        r.shuffle(order)
        for u in order:
            v = vals[u]
            if u == 'update_water_data':
                zmax = 3000.
                b.update_release_depth(min(b.z0, 0.9 * zmax))
            S.attempt(B + u, type(v).__name__ if not isinstance(v, np.ndarray) else 'ndarray%dD' % v.ndim, dict(d, value=v),
                      lambda u=u, v=v: (getattr(b, u)(v), settle())[1])
        # ---- one short simulation of the updated object (sd_max is an attribute the class computes in _update)
        b.update_track_particles(item is S.get('blowouts')[0])
        try:
            with quiet():
                b._update()
        except Exception:      # noqa: BLE001  (already reported by the update that caused it)
            continue
        b.sd_max = r.uniform(30., 80.)
        b.dt_max = 600.

        def sim():
            b.simulate()
            return _bpm_positions_ok(b.bpm)
        if S.attempt(B + 'simulate', 'track=%s' % b.track, dict(d, sd_max=b.sd_max), sim) is FAILED:
            continue
        S.reached('blowout:simulate')
        dd = S.tmp('blow')
        os.makedirs(dd)
        write_profile_nc(S, b.profile, os.path.join(dd, 'profile.nc'))
        S.attempt(B + 'save_sim', 'track=%s' % b.track, d, lambda: b.save_sim(os.path.join(dd, 'blowout.nc'), 'profile.nc', 'C20 profile'))
        S.attempt(B + 'save_txt', 'track=%s' % b.track, d,
                  lambda: (b.save_txt(os.path.join(dd, 'blowout_state'), 'profile.nc', 'C20 profile'), _txt_ok(os.path.join(dd, 'blowout_state.txt'), b.bpm))[1])
    _blowout_histories(S)
    # ---- documented current form with its own key: profile of (depth, u, v) without the optional vertical component
    cur = np.array([[0., 0.1, 0.02], [5000., 0.05, 0.]])
    S.attempt('blowout.Blowout', 'current-2D-depth-u-v', {'current': cur}, lambda: _blowout_numbers(blowout.Blowout(z0=500., current=cur.copy(), num_gas_elements=2, num_oil_elements=2)))


def _blowout_histories(S):
    """History class: documented public calls of one Blowout object in a valid order — construct (dead oil, gor = 0, the default /
    live oil, gor > 0), then update_gor / update_substance (to a LONGER and to a SHORTER compound list) / update_q_oil /
    update_release_depth, then simulate().  Every simulate() (it rebuilds the release from the updated attributes) must
    complete with a finite bent-plume solution.  Shallow release, few size classes, no far-field tracking: four short
    simulations per run."""
    from tamoc import blowout
    r = S.r
    B = 'blowout.Blowout.'

    def oil(n_light, n_heavy):
        light = ['methane', 'ethane', 'propane', 'isobutane', 'n-butane'][:n_light]
        heavy = r.sample(['n-pentane', 'n-hexane', 'n-heptane', 'benzene', 'toluene', 'ethylbenzene'], n_heavy - 1) + ['n-decane']
        w = np.concatenate([dirichlet(r, n_light) * r.uniform(0.15, 0.3), dirichlet(r, n_heavy)])
        return {'composition': light + heavy, 'masses': w / w.sum()}

    def new(sub, gor):
        args = dict(z0=r.uniform(250., 350.), d0=r.uniform(0.12, 0.2), substance=sub, q_oil=lu(r, 3000., 8000.), gor=gor,
                    num_gas_elements=2, num_oil_elements=2, current=np.array([0.05, 0., 0.]))
        b = S.attempt('blowout.Blowout', 'history:gor%s:%dcompounds' % ('>0' if gor else '=0', len(sub['composition'])), args,
                      lambda: blowout.Blowout(**args), need=True)
        b.update_track_particles(False)
        return b, args

    def step(b, hist, name, value):
        return S.attempt(B + name, 'history:' + hist, {'history': hist, 'value': value},
                         lambda: (getattr(b, name)(value), [b.z0, b.d0, b.q_oil, b.gor])[1])

    def sim(b, hist, log):
        ok = S.attempt(B + 'simulate', 'history:' + hist, {'history': hist, 'steps': log},
                       lambda: (b.simulate(), _bpm_positions_ok(b.bpm))[1])
        if ok is not FAILED:
            S.reached('blowout:history-simulate')
        return ok
    short, longer = oil(2, 3), oil(5, 5)
    # H1: dead oil (gor = 0), then gas is added: the compound list grows by the natural-gas compounds
    try:
        b, a = new(short, 0.)
        g = lu(r, 300., 1500.)
        step(b, 'gor0->update_gor', 'update_gor', g)
        sim(b, 'gor0->update_gor', [a, ('update_gor', g)])
    except CallFailed:
        pass
    # H2: live oil (gor > 0), then a substance described by more compounds and another flow rate
    try:
        b, a = new(short, lu(r, 300., 1500.))
        q = lu(r, 3000., 8000.)
        step(b, 'gor>0->longer-substance->q_oil', 'update_substance', longer)
        step(b, 'gor>0->longer-substance->q_oil', 'update_q_oil', q)
        sim(b, 'gor>0->longer-substance->q_oil', [a, ('update_substance', longer), ('update_q_oil', q)])
    except CallFailed:
        pass
    # H3: simulate, then a substance described by FEWER compounds and another release depth, simulate again
    try:
        b, a = new(longer, 0.)
        if sim(b, 'simulate->shorter-substance->depth:first', [a]) is not FAILED:
            z1 = r.uniform(200., 280.)
            step(b, 'simulate->shorter-substance->depth', 'update_substance', short)
            step(b, 'simulate->shorter-substance->depth', 'update_release_depth', z1)
            sim(b, 'simulate->shorter-substance->depth', [a, 'simulate', ('update_substance', short), ('update_release_depth', z1)])
    except CallFailed:
        pass


@entry('blowout.particles', 'blowout.get_ambient_profile', 'blowout.get_ctd_from_txt', 'blowout.create_ambient_profile')
def _blowout_functions(S):
    from netCDF4 import Dataset, date2num
    from datetime import datetime
    from tamoc import blowout, dbm
    r = S.r
    p_time = date2num(datetime(2010, 5, 30), units='seconds since 1970-01-01 00:00:00 0:00', calendar='julian')
    for i in range(S.reps()):
        H = r.choice([800., 1500.])
        ps = profile_spec(r, H=H, current='none')
        prf = build_profile(ps)
        # ---- particles
        sp = fluid_spec(r, ('gas', 'liquid')[i % 2])
        oil = build_dbm(sp)
        nb = r.randint(1, 6)
        dsz = np.sort(np.array([lu(r, 2e-4, 1e-2) for _ in range(nb)]))
        vf = dirichlet(r, nb)
        z0 = r.uniform(0.3, 0.95) * H
        Tj = float(prf.get_values(z0, ['temperature'])[0]) + r.choice([0., r.uniform(0., 40.)])
        m_tot = lu(r, 0.05, 50.)
        d = dict(sp, profile=ps, m_tot=m_tot, d=dsz, vf=vf, z0=z0, Tj=Tj)
        S.attempt('blowout.particles', sp['kind'], d,
                  lambda: [_particle_numbers(q) for q in blowout.particles(m_tot, dsz.copy(), vf.copy(), prf, oil, yk_of(sp), 0., 0., z0, Tj,
                                                                           r.uniform(0.8, 1.), r.random() < 0.5, t_hyd=r.choice([0, 100.]))])
        # ---- get_ambient_profile: every documented form of `water` and `current`
        cur = [0.1, np.array([0.1, 0.05]), np.array([0.1, 0.05, 0.01]), np.array([[0., 0.1, 0.05, 0.], [5000., 0.2, 0., 0.]])][i % 4]
        ck = 'float' if isinstance(cur, float) else 'ndarray%s' % 'x'.join(map(str, cur.shape))
        for wk in ('None', 'dict', 'Profile', 'ncfile', 'ncdataset', 'txt'):
            close = None
            if wk == 'None':
                water = None
            elif wk == 'dict':
                water = {'temperature': r.uniform(280., 300.), 'salinity': r.uniform(33., 36.)}
            elif wk == 'Profile':
                water = prf
            elif wk in ('ncfile', 'ncdataset'):
                pth = S.tmp('amb') + '.nc'
                write_profile_nc(S, build_profile(dict(ps, current=[[0., 0.1, 0., 0.], [H, 0.05, 0., 0.]])), pth)
                water = pth if wk == 'ncfile' else Dataset(pth)
                close = None if wk == 'ncfile' else water
            else:
                water = _water_txt(S, ps)
            S.attempt('blowout.get_ambient_profile', 'water-%s:current-%s' % (wk, ck), dict(profile=ps, water=wk, current=cur),
                      lambda: _profile_numbers(blowout.get_ambient_profile(water, cur.copy() if isinstance(cur, np.ndarray) else cur,
                                                                           ca=['oxygen'] if wk == 'txt' else [])))
            if close is not None:
                try:
                    close.close()
                except Exception:      # noqa: BLE001
                    pass
        # ---- get_ctd_from_txt / create_ambient_profile
        ca = r.choice([[], ['nitrogen', 'oxygen', 'argon', 'carbon_dioxide']])
        path = _water_txt(S, ps)
        S.attempt('blowout.get_ctd_from_txt', 'ca%d' % len(ca), dict(profile=ps, ca=ca),
                  lambda: _profile_numbers(blowout.get_ctd_from_txt(path, 'C20', 'harness/c20.py', 'No Sea Name', 28.5, -89.3, p_time, list(ca))))
        z, T, Sa = profile_columns(ps)
        data = np.column_stack([z, T - 273.15, Sa, 0.1 + 0. * z, 0.02 * np.cos(z / H)])
        S.attempt('blowout.create_ambient_profile', 'ca%d' % len(ca), dict(profile=ps, ca=ca),
                  lambda: _profile_numbers(blowout.create_ambient_profile(data.copy(), ['z', 'temperature', 'salinity', 'ua', 'va'],
                                                                          ['m', 'deg C', 'psu', 'm/s', 'm/s'], ['modeled'] * 5, S.tmp('cap') + '.nc',
                                                                          'C20', 'harness/c20.py', 'No Sea Name', 28.5, -89.3, p_time, list(ca))))
    cur = np.array([[0., 0.1, 0.02], [5000., 0.05, 0.]])
    S.attempt('blowout.get_ambient_profile', 'current-2D-depth-u-v', {'water': None, 'current': cur},
              lambda: _profile_numbers(blowout.get_ambient_profile(None, cur.copy())))


# =====================================================================================================
# the check
# =====================================================================================================

# pinned inventory of the documentation this table was written against (a renamed / shortened docs tree or a thinned-out
# TABLE must not look complete): 300 documented names, 37 justified exclusions, 263 entry points with a caller
DOCUMENTED_MIN = 300
EXCLUDED_MAX = 37
CALLED_MIN = 263
CALL_FLOOR = 2            # every entry point with a caller is called at least twice in every tier
# branches / configurations every run (quick included) has to reach at least once
REACH_FLOORS = ['seawater:hot-branch', 'seawater:above-boiling', 'seawater.k:S>35', 'InsolubleParticle:rigid', 'InsolubleParticle:fluid',
                'FluidParticle:gas', 'FluidParticle:liquid', 'FluidParticle:mixed-two-phase', 'sbm:soluble', 'sbm:inert',
                'bpm:soluble', 'bpm:inert', 'bpm:tracked', 'spm:soluble', 'spm:inert', 'blowout:simulate', 'blowout:history-simulate', 'bpm:finite-surfacing-time', 'bpm:stage1-psd-value',
                'bpm:far-field-of-every-particle',
                'equilibrium:two-phase', 'equilibrium:single-phase']
MIN_VERSIONS = {'numpy': (1, 16), 'scipy': (1, 2)}        # README.rst "Requirements" (re-read from the repo under test at run time)


def _version_tuple(v):
    out = []
    for part in re.split(r'[.+]', v)[:3]:
        m = re.match(r'\d+', part)
        out.append(int(m.group(0)) if m else 0)
    return tuple(out)


def declared_minimum_versions(repo=None):
    """'* Numpy version 1.16 or higher' / '* Scipy version 1.2.0 or higher' in README.rst of the repo under test"""
    out = dict(MIN_VERSIONS)
    try:
        txt = open(os.path.join(repo or common.REPO, 'README.rst')).read()
        for name in out:
            m = re.search(r'\*\s*%s version (\d+(?:\.\d+)*) or higher' % name, txt, re.I)
            if m:
                out[name] = _version_tuple(m.group(1))
    except OSError:
        pass
    return out


def run(ctx, lean_ok):
    import scipy
    np.random.seed(ctx.rng.randrange(2 ** 31))      # tamoc's far-field concentration model draws from numpy's global RNG
    eps = documented_entry_points()
    S = Scn(ctx)
    only = os.environ.get('C20_ONLY')               # debugging aid: regular expression on entry-point names (recorded; fails coverage)
    excluded, uncovered, blocked, done = {}, [], {}, set()
    try:
        for ep in eps:
            ent = TABLE.get(ep)
            if ent is None:
                uncovered.append(ep)
                continue
            if isinstance(ent, str):
                excluded.setdefault(ent, []).append(ep)
                continue
            if only and not re.search(only, ep):
                continue
            if ent in done:
                continue
            done.add(ent)
            S.current = ep
            try:
                ent(S)
            except CallFailed:
                pass
            except AbortRun as ab:
                ctx.notes.append('RUN ABANDONED: %s' % ab)
                break
            except Blocked as b:
                for e2 in [e for e in eps if TABLE.get(e) is ent]:
                    blocked[e2] = str(b)
            except ImportError:
                raise
            except Exception as e:      # noqa: BLE001 — input preparation raised (tamoc set-up call or harness bug): never hide it
                tb = sys.exc_info()[2]
                S._violate('raises:%s:%s:input-preparation' % (ep, raise_signature(e, tb)),
                           'preparing the inputs of %s raised %s' % (ep, type(e).__name__),
                           {'entry_point': ep, 'stage': 'input preparation (outside the call under test)',
                            'exception': '%s: %s' % (type(e).__name__, str(e)[:300]), 'failing_line': tamoc_frame(tb),
                            'traceback': ''.join(traceback.format_exception(type(e), e, tb))[-2500:], 'seed': ctx.seed})
    finally:
        S.cleanup()
    with_caller = [e for e in eps if callable(TABLE.get(e))]
    called = sorted(e for e in with_caller if S.calls.get(e, 0) > 0)
    table_only = sorted(e for e in TABLE if e not in eps)
    not_called = sorted(e for e in with_caller if S.calls.get(e, 0) == 0)
    below_floor = sorted((e, S.calls.get(e, 0)) for e in with_caller if 0 < S.calls.get(e, 0) < CALL_FLOOR)
    n_excl = sum(len(v) for v in excluded.values())
    ctx.evaluations = int(sum(S.calls.values()))
    for k, v in sorted(S.reach.items()):
        ctx.count('reach:' + k, v)
    versions = {'numpy': np.__version__, 'scipy': scipy.__version__, 'python': sys.version.split()[0]}
    for mod in ('netCDF4', 'xarray'):
        try:
            versions[mod] = __import__(mod).__version__
        except Exception:      # noqa: BLE001
            versions[mod] = 'not importable'
    declared = declared_minimum_versions()
    cov = {
        'documented': len(eps), 'called': len(called), 'excluded': {k: len(v) for k, v in excluded.items()},
        'excluded_total': n_excl, 'uncovered': len(uncovered), 'blocked': len(blocked),
        'in_table_but_never_called': len(not_called), 'called_less_than_floor': len(below_floor), 'calls': ctx.evaluations,
        'C20_ONLY': only, 'docs_parsed': os.path.join(common.REPO, 'docs', '_sources', 'modules', '*.rst'),
    }
    ctx.notes.append('entry points: %r' % cov)
    ctx.notes.append('installed versions: %r; declared minimum (README.rst Requirements): %r' % (versions, {k: '.'.join(map(str, v)) for k, v in declared.items()}))
    if only:
        ctx.notes.append('FILTERED RUN: C20_ONLY=%r restricts the entry points that are called; this run is NOT a complete check' % only)
    if uncovered:
        ctx.notes.append('uncovered (documented, no caller and no exclusion in the table): %s' % ', '.join(uncovered))
    if blocked:
        ctx.notes.append('blocked (a scenario they need could not be built; the failing entry point is reported): %r' % blocked)
    if not_called:
        ctx.notes.append('in the table but not reached in this run: %s' % ', '.join(not_called))
    if below_floor:
        ctx.notes.append('called fewer than %d times: %r' % (CALL_FLOOR, below_floor))
    if table_only:
        ctx.notes.append('table entries that the docs of this repo do not list: %s' % ', '.join(table_only))
    if S.preconditions:
        ctx.notes.append('cases skipped because a documented precondition was not met: %r' % S.preconditions)
    if S.failed:
        ctx.notes.append('violation counts per key: %r' % S.failed)
    if S.slow:
        ctx.notes.append('calls slower than 20 s (entry point, kind, seconds, inputs if > 120 s): %r' % S.slow)
    # ---- coverage obligations (each one fails the check when it does not hold)
    ctx.oblige('run is not filtered (C20_ONLY unset)', not only, 'C20_ONLY=%r' % only)
    ctx.oblige('docs/_sources/modules/*.rst of the repo under test list at least the %d public entry points this table was written for (parsed %d)'
               % (DOCUMENTED_MIN, len(eps)), len(eps) >= DOCUMENTED_MIN, 'parsed %d names from %s' % (len(eps), cov['docs_parsed']))
    ctx.oblige('uncovered == []: every documented entry point has a caller or a justified exclusion', not uncovered, ', '.join(uncovered[:40]))
    ctx.oblige('every table row is a documented entry point (no stale / renamed names)', not table_only, ', '.join(table_only[:40]))
    ctx.oblige('at most %d exclusions (12 module headers, 23 plotting, 2 documented-unusable); found %d' % (EXCLUDED_MAX, n_excl),
               n_excl <= EXCLUDED_MAX, repr({k: len(v) for k, v in excluded.items()}))
    ctx.oblige('not_called == [] and blocked == []: every entry point with a caller was called (%d of %d, floor %d)' % (len(called), len(with_caller), CALLED_MIN),
               not not_called and not blocked and len(called) >= CALLED_MIN,
               'not called: %s; blocked: %s' % (', '.join(not_called[:40]), ', '.join(list(blocked)[:40])))
    ctx.oblige('every entry point with a caller was called at least %d times' % CALL_FLOOR, not below_floor and not not_called, repr(below_floor[:40]))
    missing = [k for k in REACH_FLOORS if S.reach.get(k, 0) < 1]
    mixed_missing = [m for m in FP_METHODS if S.reach.get('FluidParticle.%s:mixed-two-phase' % m, 0) < 1]
    ctx.oblige('branches / configurations reached at least once: %s' % ', '.join(REACH_FLOORS), not missing, 'not reached: %r' % missing)
    ctx.oblige('every FluidParticle method was called on a particle that is two-phase at the state of the call', not mixed_missing,
               'not reached on a mixed-phase particle: %r' % mixed_missing)
    ctx.oblige('feeds of the harness-owned two-phase table: the flash reports gas AND liquid every time (%d judged)'
               % S.reach.get('table-feed:flash-two-phase', 0),
               S.reach.get('table-feed:flash-SINGLE-PHASE', 0) == 0 and S.reach.get('table-feed:flash-two-phase', 0) >= 1,
               '%d table feeds flashed to a single phase' % S.reach.get('table-feed:flash-SINGLE-PHASE', 0))
    for name, vmin in declared.items():
        ctx.oblige('installed %s %s >= declared minimum %s' % (name, versions[name], '.'.join(map(str, vmin))),
                   _version_tuple(versions[name]) >= tuple(vmin), '')
    ctx._c20 = {'coverage': cov, 'excluded': excluded, 'uncovered': uncovered, 'blocked': blocked, 'versions': versions,
                'declared_minimum_versions': {k: '.'.join(map(str, v)) for k, v in declared.items()},
                'reach': dict(sorted(S.reach.items())), 'called_less_than_floor': below_floor,
                'calls_per_entry_point': dict(sorted(S.calls.items())),
                'input_kinds': {k: sorted(v) for k, v in sorted(S.kinds.items())}}


def extra(ctx):
    return {'c20': getattr(ctx, '_c20', {})}
