#!/venv/bin/python
"""
./check <Cxx> [--tier quick|thorough] [--seed N] [--replay file]

Decision procedure of every check (DESIGN §2.5):
  translator -> lake build -> source+axiom audit -> correspondence -> property predicates
  on the real code -> verdict (VIOLATION with failing input | VIOLATION no-failing-input-found |
  KNOWN-FINDING | ok) -> evidence/<id>.json
exit 0 ok, 1 violation, 2 infrastructure failure / timeout.
"""
import os
import sys
import argparse
import importlib
import subprocess
import traceback

HERE = os.path.dirname(os.path.abspath(__file__))
sys.path.insert(0, HERE)
sys.path.insert(0, os.environ.get('TAMOC_REPO', '/repo'))
os.environ.setdefault('OMP_NUM_THREADS', '1')
import common  # noqa: E402


def main():
    ap = argparse.ArgumentParser()
    ap.add_argument('prop')
    ap.add_argument('--tier', default=os.environ.get('VERIF_TIER', 'quick'))
    ap.add_argument('--seed', type=int, default=int(os.environ.get('VERIF_SEED', '0') or 0))
    ap.add_argument('--replay', default=None)
    a = ap.parse_args()
    prop = a.prop.upper()
    try:
        mod = importlib.import_module('c' + prop[1:].lower())
    except Exception:
        traceback.print_exc()
        print('INFRASTRUCTURE-ERROR: no loadable harness module for %s' % prop)
        return 2
    ctx = common.Ctx(prop, a.tier, a.seed)
    if a.replay:
        if not hasattr(mod, 'replay'):
            print('replay: %s has no dedicated replayer; the replay file holds the failing case (key, inputs) in JSON:' % prop)
            print(open(a.replay).read()[:4000])
            return 0
        return mod.replay(ctx, a.replay)
    running_body = False
    # lean/TamocV/Gen is regenerated from the repository under test and shared by every check of this working tree: a check
    # that regenerates it (GEN non-empty) keeps the lock until it has finished, so that a concurrent check against ANOTHER
    # copy of the repository cannot swap the generated model between this check's build and its audits / driver runs
    lock = common.BuildLock()
    lock.__enter__()
    held = [True]

    def release():
        if held[0]:
            held[0] = False
            lock.__exit__(None, None, None)
    import atexit
    atexit.register(release)
    try:
        try:
            common.run_gen(ctx, getattr(mod, 'GEN', []))
            build_ok, _log = common.lake_build(ctx, mod.MODULES)
            drv_ok = True
            if getattr(mod, 'DRIVER_MODULES', None):
                drv_ok, _ = common.lake_build(ctx, mod.DRIVER_MODULES)
        finally:
            if not getattr(mod, 'GEN', []):
                release()
        common.source_audit(ctx, mod.audit_files())
        if build_ok:
            common.axiom_audit(ctx, mod.MODULES[0], 'TamocV.Props.' + prop)
            # the theorem inventory is pinned: a property theorem that disappears (or is renamed away) is a broken obligation
            pin = os.path.join(common.VERIF, 'harness', 'theorems', prop + '.txt')
            if os.path.exists(pin):
                # one line per property theorem: <name relative to TamocV.Props.Cxx> <hash of its TYPE> <GEN|->.  A theorem that
                # disappears or moves to another namespace, whose statement changes (weakened to True, an added hypothesis, another
                # conclusion), or that stops mentioning the regenerated definitions (TamocV.Gen.*) it is about, is a broken obligation.
                pre = 'TamocV.Props.' + prop + '.'
                have = {n[len(pre):]: v for n, v in getattr(ctx, 'stmts', {}).items() if n.startswith(pre)}
                want = {}
                for ln in open(pin).read().splitlines():
                    f = ln.split()
                    if f:
                        want[f[0]] = tuple(f[1:3]) if len(f) >= 3 else None
                missing = sorted(n for n in want if n not in have)
                changed = sorted(n for n, v in want.items() if v is not None and n in have and have[n] != v)
                ctx.oblige('pinned theorem inventory of %s (%d statements: names, statement hashes, reference to regenerated code)'
                           % (prop, len(want)), not missing and not changed,
                           'missing: %r; statement or Gen-reference changed: %r' % (missing, [(n, want[n], have[n]) for n in changed]))
            if ctx.thorough and getattr(mod, 'LEANCHECKER', True):
                p = subprocess.run(['lake', 'env', 'leanchecker', mod.MODULES[0]], cwd=common.LEAN,
                                   stdout=subprocess.PIPE, stderr=subprocess.STDOUT, text=True, timeout=3000)
                ctx.oblige('leanchecker ' + mod.MODULES[0], p.returncode == 0, p.stdout[-800:])
        running_body = True
        mod.run(ctx, build_ok and drv_ok)
    except subprocess.TimeoutExpired as e:
        print('TIMEOUT %s' % e)
        return 2
    except Exception as e:
        # An exception that propagated OUT OF the package under test (innermost frames inside <repo>/tamoc) on an input the
        # harness considers valid is a finding about the code, not about the machinery: report it as a keyed violation
        # (replay = traceback + tier + seed, re-running the check with that seed reproduces it).  Anything else is an
        # infrastructure error (exit 2).
        tb = traceback.extract_tb(e.__traceback__)
        pkg = os.path.join(os.path.realpath(common.REPO), 'tamoc') + os.sep
        inner = [f for f in tb if os.path.realpath(f.filename).startswith(pkg)]
        hdir = os.path.join(common.VERIF, 'harness') + os.sep
        last_pkg = max([i for i, f in enumerate(tb) if os.path.realpath(f.filename).startswith(pkg)], default=-1)
        last_har = max([i for i, f in enumerate(tb) if os.path.realpath(f.filename).startswith(hdir)], default=-1)
        if last_har > last_pkg:
            inner = []          # raised in harness code that the package called back into (a recorder / wrapper): not the package's raise
        if not inner:
            # Not raised by the package.  If the harness itself tripped over a value / shape it read back from the code under
            # test (IndexError, KeyError, ValueError, TypeError, ... inside harness/cXX.py while the check body ran), the
            # correspondence between model and implementation can no longer be evaluated: that is a broken obligation
            # (reported as VIOLATION ... no-failing-input-found unless concrete violations were already recorded), not an
            # infrastructure error.  On the unchanged tree the check body runs to completion for every seed tried, so
            # this only fires when the code changed.  Everything else (OS, subprocess, memory, build) stays exit 2.
            data_errors = (IndexError, KeyError, ValueError, TypeError, AttributeError, ZeroDivisionError, FloatingPointError,
                           AssertionError, OverflowError)
            in_body = any(os.path.realpath(f.filename).startswith(os.path.join(common.VERIF, 'harness') + os.sep)
                          and os.path.basename(f.filename) not in ('check.py', 'common.py', 'fortran.py') for f in tb)
            if not (running_body and in_body and isinstance(e, data_errors)):
                traceback.print_exc()
                print('INFRASTRUCTURE-ERROR in check %s' % prop)
                return 2
            traceback.print_exc()
            ctx.oblige('check %s could interpret what the code under test returned (harness ran to completion)' % prop, False,
                       'seed=%s tier=%s\n%s' % (a.seed, a.tier, traceback.format_exc()[-3000:]))
            return common.finish(ctx, mod.RULE, mod.LEVEL_NOTE,
                                 'cd /verif && ./check %s --tier %s' % (prop, a.tier),
                                 extra=None, exhaustive=False)
        site = inner[-1]
        harness_site = [f for f in tb if os.path.realpath(f.filename).startswith(os.path.join(common.VERIF, 'harness'))]
        ctx.violation('uncaught-raise:%s@%s:%s' % (type(e).__name__, os.path.basename(site.filename), site.name),
                      'the package under test raised %s: %s (called from %s)' % (
                          type(e).__name__, str(e)[:300],
                          '%s:%d' % (os.path.basename(harness_site[-1].filename), harness_site[-1].lineno) if harness_site else '?'),
                      {'traceback': traceback.format_exc()[-4000:], 'tier': a.tier, 'seed': a.seed,
                       'replay_cmd': 'VERIF_SEED=%s ./check %s --tier %s' % (a.seed, prop, a.tier)})
        ctx.oblige('check %s ran to completion' % prop, False, 'aborted by an exception raised inside the package under test')
    return common.finish(ctx, mod.RULE, mod.LEVEL_NOTE,
                         'cd /verif && ./check %s --tier %s  (lake build %s; #audit_ns TamocV.Props.%s)' % (prop, a.tier, ' '.join(mod.MODULES), prop),
                         extra=getattr(mod, 'extra', lambda c: None)(ctx),
                         exhaustive=getattr(mod, 'EXHAUSTIVE', False))


if __name__ == '__main__':
    try:
        rc = main()
    except SystemExit:
        raise
    except BaseException:
        # anything that escapes the decision procedure itself (extra(), finish(), evidence writing) is an infrastructure failure
        traceback.print_exc()
        print('INFRASTRUCTURE-ERROR in the check driver')
        rc = 2
    sys.exit(rc)
