#!/venv/bin/python
"""
./check <Cxx> [--tier quick|thorough] [--seed N] [--replay file]

Decision procedure of every check (DESIGN §2.5):
  translator -> lake build -> source+axiom audit -> correspondence -> property predicates
  on the real code -> verdict (VIOLATION with failing input | VIOLATION no-failing-input-found |
  KNOWN-FINDING | ok) -> evidence/<id>.json
exit 0 ok, 1 violation, 2 infrastructure failure / timeout.
"""
import os
import sys
import argparse
import importlib
import subprocess
import traceback

HERE = os.path.dirname(os.path.abspath(__file__))
sys.path.insert(0, HERE)
sys.path.insert(0, os.environ.get('TAMOC_REPO', '/repo'))
os.environ.setdefault('OMP_NUM_THREADS', '1')
import common  # noqa: E402


def main():
    ap = argparse.ArgumentParser()
    ap.add_argument('prop')
    ap.add_argument('--tier', default=os.environ.get('VERIF_TIER', 'quick'))
    ap.add_argument('--seed', type=int, default=int(os.environ.get('VERIF_SEED', '0') or 0))
    ap.add_argument('--replay', default=None)
    a = ap.parse_args()
    prop = a.prop.upper()
    mod = importlib.import_module('c' + prop[1:].lower())
    ctx = common.Ctx(prop, a.tier, a.seed)
    if a.replay:
        if not hasattr(mod, 'replay'):
            print('replay: %s has no dedicated replayer; the replay file holds the failing case (key, inputs) in JSON:' % prop)
            print(open(a.replay).read()[:4000])
            return 0
        return mod.replay(ctx, a.replay)
    try:
        with common.BuildLock():
            common.run_gen(ctx, getattr(mod, 'GEN', []))
            build_ok, _log = common.lake_build(ctx, mod.MODULES)
            drv_ok = True
            if getattr(mod, 'DRIVER_MODULES', None):
                drv_ok, _ = common.lake_build(ctx, mod.DRIVER_MODULES)
        common.source_audit(ctx, mod.audit_files())
        if build_ok:
            common.axiom_audit(ctx, mod.MODULES[0], 'TamocV.Props.' + prop)
            # the theorem inventory is pinned: a property theorem that disappears (or is renamed away) is a broken obligation
            pin = os.path.join(common.VERIF, 'harness', 'theorems', prop + '.txt')
            if os.path.exists(pin):
                want = set(open(pin).read().split())
                have = set(t.split('.')[-1] for t in ctx.theorems)
                ctx.oblige('pinned theorem inventory of %s (%d names)' % (prop, len(want)), want <= have,
                           'missing: %r' % sorted(want - have))
            if ctx.thorough and getattr(mod, 'LEANCHECKER', True):
                p = subprocess.run(['lake', 'env', 'leanchecker', mod.MODULES[0]], cwd=common.LEAN,
                                   stdout=subprocess.PIPE, stderr=subprocess.STDOUT, text=True, timeout=3000)
                ctx.oblige('leanchecker ' + mod.MODULES[0], p.returncode == 0, p.stdout[-800:])
        mod.run(ctx, build_ok and drv_ok)
    except subprocess.TimeoutExpired as e:
        print('TIMEOUT %s' % e)
        return 2
    except Exception:
        traceback.print_exc()
        print('INFRASTRUCTURE-ERROR in check %s' % prop)
        return 2
    return common.finish(ctx, mod.RULE, mod.LEVEL_NOTE,
                         'cd /verif && ./check %s --tier %s  (lake build %s; #audit_ns TamocV.Props.%s)' % (prop, a.tier, ' '.join(mod.MODULES), prop),
                         extra=getattr(mod, 'extra', lambda c: None)(ctx),
                         exhaustive=getattr(mod, 'EXHAUSTIVE', False))


if __name__ == '__main__':
    sys.exit(main())
