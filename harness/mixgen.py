"""
Seeded generators of database mixtures and thermodynamic states (used by C01, C08, C10).
All randomness comes from the `random.Random` handed in.
"""
import math
import numpy as np

_DB = None


def compounds(include_water=True):
    global _DB
    if _DB is None:
        from tamoc import chemical_properties as cp
        _DB = sorted(cp.tamoc_data()[0].keys())
    return [c for c in _DB if include_water or c != 'water']


def composition(r, nmin=1, nmax=6, exclude=('water',)):
    pool = [c for c in compounds() if c not in exclude]
    n = r.randint(nmin, nmax)
    return r.sample(pool, n)


def masses(r, n, total=None):
    """positive component masses: Dirichlet-like or log-uniform (trace components)"""
    if r.random() < 0.5:
        m = np.array([r.gammavariate(1.0, 1.0) + 1e-12 for _ in range(n)])
    else:
        m = np.array([10 ** r.uniform(-6, 0) for _ in range(n)])
    m = m / m.sum()
    if total is None:
        total = 10 ** r.uniform(-3, 1)
    return m * total


def state(r, Tlo=260., Thi=450., Plo=1e4, Phi=1e8):
    T = r.uniform(Tlo, Thi)
    P = math.exp(r.uniform(math.log(Plo), math.log(Phi)))
    return T, P


def mixture(r, comp=None, delta_mode=None, peneloux=None, nmin=1, nmax=6):
    """-> (dbm.FluidMixture, description dict).  delta_mode: 'zero' | 'const' | 'groups'"""
    from tamoc import dbm
    comp = comp or composition(r, nmin, nmax)
    n = len(comp)
    delta_mode = delta_mode or r.choice(['zero', 'const', 'groups'])
    kw = {}
    groups_array = False
    pen_drawn = {}
    if delta_mode == 'const':
        d = np.zeros((n, n))
        for i in range(n):
            for j in range(i + 1, n):
                d[i, j] = d[j, i] = r.uniform(-0.05, 0.15)
        kw['delta'] = d
    elif delta_mode == 'groups':
        kw['delta_groups'] = {}
        # 40 %: the group vectors are handed over as a user ARRAY (the other constructor path); the array holds
        # the database values, so both paths describe the same mixture.  Only when every compound has groups
        # (a zero row is normalised to 0/0 by the constructor — a recorded C18 finding, not this property's matter)
        if r.random() < 0.4:
            g = np.array(dbm.FluidMixture(list(comp), delta_groups={}).delta_groups, dtype=float)
            if g.shape == (n, 15) and np.all(g.sum(axis=1) > 0):
                kw['delta_groups'] = g
                groups_array = True
    peneloux = r.random() < 0.3 if peneloux is None else peneloux
    if peneloux:
        from tamoc import chemical_properties as cp
        chem, _cu, bio, _bu, _pj, _pju = cp.tamoc_data()
        ud = {}
        # peneloux == 'partial': only some compounds carry a user volume shift, the others keep the database value
        # C_pen = 0 (at least one of each kind when n >= 2)
        keep = set(comp)
        if peneloux == 'partial' and n >= 2:
            k = r.randint(1, n - 1)
            keep = set(r.sample(list(comp), k))
        for c in comp:
            if c not in keep:
                continue
            props = dict(chem[c])
            props.update(bio[c])
            props['C_pen'] = r.uniform(-5e-6, 5e-6) or 1e-6
            props['C_pen_T'] = r.uniform(-2e-8, 2e-8)
            ud[c] = props
            pen_drawn[c] = (props['C_pen'], props['C_pen_T'])
        kw['user_data'] = ud
    fm = dbm.FluidMixture(list(comp), **kw)
    return fm, {'composition': list(comp), 'delta_mode': delta_mode, 'peneloux': bool(peneloux),
                'peneloux_partial': peneloux == 'partial', 'groups_array': groups_array,
                # what was DRAWN here (not what the object stored): user interaction table and user volume shifts
                'delta_drawn': (kw['delta'].copy() if 'delta' in kw else None), 'pen_drawn': pen_drawn}


def eos_args(fm):
    """positional tail of the dbm_p EOS routines after (T, P, mass)"""
    return dict(Mol_wt=fm.M, Pc=fm.Pc, Tc=fm.Tc, Vc=fm.Vc, omega=fm.omega, delta=fm.delta, Aij=fm.Aij,
                Bij=fm.Bij, delta_groups=fm.delta_groups, calc_delta=fm.calc_delta, C_pen=fm.C_pen,
                C_pen_T=fm.C_pen_T)
