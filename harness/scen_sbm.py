"""
Seeded builders of ambient profiles, dbm particles, particle wrappers and single-particle
simulations, shared by the checks of C17 and C05 (others may import it).

Everything random comes from the `random.Random` instance handed in (ctx.rng); nothing here
touches /repo; the real code is called in-process (PYTHONPATH=/repo or TAMOC_REPO).
"""
import io
import math
import contextlib
import warnings

import numpy as np

GAS = ['methane', 'ethane', 'propane', 'isobutane', 'n-butane', 'nitrogen', 'oxygen', 'carbon_dioxide', 'argon']
# light gases that stay gaseous / buoyant over the whole depth range when they dominate the mixture
GAS_MAIN = ['methane', 'ethane', 'nitrogen', 'oxygen', 'argon']
LIQ = ['n-pentane', 'isopentane', 'n-hexane', '2-methylpentane', 'n-heptane', 'benzene', 'toluene',
       'ethylbenzene', 'n-decane']
AIR = ['nitrogen', 'oxygen', 'argon', 'carbon_dioxide']

T_STP = 273.15 + (60.0 - 32.0) * 5.0 / 9.0      # InsolubleParticle.density, dbm.py l.2006
P_STP = 101325.0


@contextlib.contextmanager
def quiet():
    """silence the progress prints of tamoc and numpy/scipy warnings"""
    with warnings.catch_warnings():
        warnings.simplefilter('ignore')
        with np.errstate(all='ignore'):
            with contextlib.redirect_stdout(io.StringIO()):
                yield


# ---------------------------------------------------------------------------
# profiles
# ---------------------------------------------------------------------------

def synthetic_profile(rng, z_max=None, chems=None, n=None, z_top=0.0):
    """stably stratified synthetic CTD profile z_top..z_max m (z_top > 0: a cast that starts below the
    surface) with optional dissolved-compound columns
    (kg/m^3, positive, decaying or growing with depth); still water (no current)"""
    from tamoc import ambient
    if z_max is None:
        z_max = rng.choice([200., 600., 1500., 3600.])
    if n is None:
        n = rng.randint(12, 60)
    z = np.linspace(z_top, z_max, n)
    Ts = 273.15 + rng.uniform(8., 28.)
    Tb = 273.15 + rng.uniform(1.5, 5.)
    hT = rng.uniform(80., 600.)
    T = Tb + (Ts - Tb) * np.exp(-z / hT)
    Ss = rng.uniform(32., 35.)
    S = Ss + rng.uniform(0.2, 1.5) * (1. - np.exp(-z / rng.uniform(200., 900.)))
    data = np.vstack([z, T, S]).T
    chems = list(chems or [])
    with quiet():
        prf = ambient.Profile(data, ztsp=['z', 'temperature', 'salinity', 'pressure'],
                              ztsp_units=['m', 'K', 'psu', 'Pa'])
        if chems:
            cols = [z]
            for _c in chems:
                c0 = 10 ** rng.uniform(-6, -2)
                if rng.random() < 0.5:
                    cols.append(c0 * np.exp(-z / rng.uniform(100., 2000.)))
                else:
                    cols.append(c0 * (0.2 + z / z_max))
            prf.append(np.vstack(cols).T, ['z'] + chems, ['m'] + ['kg/m^3'] * len(chems))
    # the depth range of OUR table (never read back from the Profile object) travels with the profile
    prf._harness_range = (float(z[0]), float(z[-1]))
    return prf


def world_profile(with_gases=False):
    """the world-ocean average profile built by ambient.Profile(None), optionally with the
    computed atmospheric-gas concentrations"""
    from tamoc import ambient
    with quiet():
        prf = ambient.Profile(None)
        if with_gases:
            prf.add_computed_gas_concentrations()
    # depth range from our own reading of the distributed table (first / last depth of the .dat file)
    import os
    from tamoc import ambient as _a
    raw = np.loadtxt(os.path.join(os.path.dirname(_a.__file__), 'data', 'world_ocean_ave_ctd.dat'), comments='%')
    prf._harness_range = (float(raw[0, 0]), float(raw[-1, 0]))
    return prf


def table_range(prf):
    """(top, bottom) depth of the table the HARNESS built the profile from; the Profile object's own
    z_min / z_max are the code under test and are not used as a reference"""
    return prf._harness_range


# ---------------------------------------------------------------------------
# dbm particles
# ---------------------------------------------------------------------------

def random_yk(rng, n):
    w = [rng.uniform(0.05, 1.) for _ in range(n)]
    if n > 1 and rng.random() < 0.6:
        w[0] += rng.uniform(1., 6.)          # a dominant first compound
    s = sum(w)
    return np.array([x / s for x in w])


def make_dbm_particle(rng, kind, nmax=4, nmin=1):
    """kind in {'gas','liquid','inert'} -> (dbm object, yk, descr dict)"""
    from tamoc import dbm
    if kind == 'inert':
        p = dict(isfluid=rng.random() < 0.85, iscompressible=rng.random() < 0.8,
                 rho_p=rng.uniform(700., 960.), gamma=rng.uniform(22., 50.),
                 beta=rng.uniform(3e-4, 1e-3), co=rng.uniform(1e-9, 5e-9),
                 k_bio=0., t_bio=0., fp_type=1)
        with quiet():
            obj = dbm.InsolubleParticle(p['isfluid'], p['iscompressible'], rho_p=p['rho_p'], gamma=p['gamma'],
                                        beta=p['beta'], co=p['co'], k_bio=p['k_bio'], t_bio=p['t_bio'],
                                        fp_type=p['fp_type'])
        return obj, np.array([1.]), dict(kind=kind, **p)
    n = rng.randint(nmin, nmax)
    if kind == 'gas':
        first = rng.choice(GAS_MAIN)
        rest = [c for c in GAS if c != first]
        comp = [first] + rng.sample(rest, n - 1)
        fp = 0
    else:
        comp = rng.sample(LIQ, n)
        fp = 1
    yk = random_yk(rng, n) if kind == 'gas' else random_yk(rng, n)
    if kind == 'gas' and n > 1:
        # keep the light first compound dominant so that the bubble stays a buoyant gas
        yk = yk * 0.4
        yk[0] += 0.6
        yk = yk / yk.sum()
    with quiet():
        obj = dbm.FluidParticle(comp, fp_type=fp)
    return obj, yk, dict(kind=kind, composition=comp, fp_type=fp, yk=[float(v) for v in yk])


def particle_from_descr(descr):
    """rebuild the dbm object of a replay file from the `descr` dict written by make_dbm_particle"""
    from tamoc import dbm
    with quiet():
        if descr['kind'] == 'inert':
            return dbm.InsolubleParticle(descr['isfluid'], descr['iscompressible'], rho_p=descr['rho_p'],
                                         gamma=descr['gamma'], beta=descr['beta'], co=descr['co'],
                                         k_bio=descr.get('k_bio', 0.), t_bio=descr.get('t_bio', 0.),
                                         fp_type=descr.get('fp_type', 1))
        return dbm.FluidParticle(list(descr['composition']), fp_type=descr['fp_type'])


def raise_site(exc):
    """`module.function` of the innermost tamoc frame of an exception raised by the code under test"""
    import traceback
    site = 'unknown'
    for fr in traceback.extract_tb(exc.__traceback__):
        if '/tamoc/' in fr.filename:
            site = '%s.%s' % (fr.filename.rsplit('/', 1)[-1].replace('.py', ''), fr.name)
    return '%s:%s' % (type(exc).__name__, site)


def ambient_state(rng):
    """(P, Sa, Ta) of a plausible ocean point at 50-3500 m depth"""
    z = math.exp(rng.uniform(math.log(50.), math.log(3500.)))
    Ta = 273.15 + 2. + 24. * math.exp(-z / rng.uniform(100., 600.))
    Sa = rng.uniform(32., 36.)
    P = 101325. + 1027. * 9.81 * z
    return P, Sa, Ta


# ---------------------------------------------------------------------------
# recorder of the library calls made by the particle wrapper
# ---------------------------------------------------------------------------

class Recorder(object):
    """wraps `dbm_particle.return_all` (instance attribute; /repo untouched) and, while active,
    `tamoc.seawater.density` for the calls that do NOT come from inside return_all"""

    def __init__(self, dbm_particle):
        from tamoc import seawater
        self.obj = dbm_particle
        self.sw = seawater
        self.lib = []       # (args tuple, result tuple)
        self.swcalls = []   # ((T,S,P), rho) issued outside return_all
        self._in = 0
        self._orig = dbm_particle.return_all
        self._orig_sw = seawater.density

    def __enter__(self):
        rec = self

        def return_all(m, T, P, Sa, Ta, status=-1):
            margs = np.array(m, dtype=float, copy=True)
            rec._in += 1
            try:
                res = rec._orig(m, T, P, Sa, Ta, status)
            finally:
                rec._in -= 1
            # the wrapper edits the returned arrays in place (beta[...] = 0.): keep a private copy
            kept = tuple(np.array(v, dtype=float, copy=True) if isinstance(v, np.ndarray) else v for v in res)
            rec.lib.append(((margs, float(T), float(P), float(Sa), float(Ta), int(status)), kept))
            return res

        def density(T, S, P):
            r = rec._orig_sw(T, S, P)
            if rec._in == 0:
                rec.swcalls.append(((float(T), float(S), float(P)), float(r)))
            return r
        self.obj.return_all = return_all
        self.sw.density = density
        return self

    def __exit__(self, *a):
        try:
            del self.obj.return_all
        except AttributeError:
            pass
        self.sw.density = self._orig_sw

    def mark(self):
        return len(self.lib), len(self.swcalls)


def lib_answer(soluble, res):
    """normalise what return_all returned to (rho_p, us, A, Cs, beta, beta_T)"""
    if soluble:
        _shape, _de, rho_p, us, A, Cs, beta, beta_T = res
        return float(rho_p), float(us), float(A), np.array(Cs, dtype=float), np.array(beta, dtype=float), float(beta_T)
    _shape, _de, rho_p, us, A, beta_T = res
    return float(rho_p), float(us), float(A), np.array([]), np.array([]), float(beta_T)


def params_args(sp):
    """protocol arguments describing a SingleParticle/PlumeParticle (Particle17.Params without K_T):
    soluble K fdis tHyd m0 nc lag kbio tbio"""
    sol = bool(sp.particle.issoluble)
    kb = np.atleast_1d(np.array(sp.particle.k_bio, dtype=float))
    tb = np.atleast_1d(np.array(sp.particle.t_bio, dtype=float))
    return [int(sol), float(sp.K), float(sp.fdis), float(sp.t_hyd), np.array(sp.m0, dtype=float),
            int(len(sp.composition)), int(bool(sp.lag_time)), kb, tb]


# ---------------------------------------------------------------------------
# single bubble model scenarios
# ---------------------------------------------------------------------------

def us_estimate(kind, de):
    """crude LOWER estimate of the rise velocity (m/s), only used to size scenarios"""
    drho = 900. if kind == 'gas' else 120.
    stokes = drho * 9.81 * de ** 2 / (18. * 1.4e-3)
    return max(1e-4, min(stokes / 4., 0.1 if kind == 'gas' else 0.06))


def sbm_case(rng, profiles, rows_cap=500):
    """one seeded single-particle simulation over the quantifier of C05:
    gas bubble / liquid drop of 1-4 compounds / inert particle; depth 50-3500 m; de 0.2-20 mm;
    T0 ambient or up to +30 K; t_hyd 0 or > 0; delta_t 1-1000 s.
    `profiles` : list of (name, profile) to choose from.  Depth and maximum step are coupled
    through a crude rise-time estimate so that about `rows_cap` rows are stored at most.
    returns a dict with everything needed to replay the simulation"""
    name, prf = rng.choice(profiles)
    kind = rng.choice(['gas', 'gas', 'liquid', 'liquid', 'inert'])
    obj, yk, descr = make_dbm_particle(rng, kind)
    de = math.exp(rng.uniform(math.log(0.2e-3), math.log(20e-3)))
    delta_t = rng.choice([1., 10., 100., 1000., math.exp(rng.uniform(0., math.log(1000.)))])
    us = us_estimate(kind, de)
    ztop, zbot = table_range(prf)
    zlo = max(50., ztop + 1.)
    zhi = min(3500., zbot - 1.)
    if rng.random() < 0.5:
        # depth first: any depth of the range, the maximum step is enlarged until the run fits the budget
        z0 = math.exp(rng.uniform(math.log(zlo), math.log(zhi)))
        if min(z0 / us, 1209600.) / delta_t > rows_cap:
            delta_t = min(1000., z0 / us / rows_cap)
        if min(z0 / us, 1209600.) / delta_t > rows_cap:
            z0 = max(zlo, rows_cap * delta_t * us)
    else:
        # step first: any maximum step of the range, the depth is limited so that the run fits the budget
        if 1209600. / delta_t > rows_cap:
            zhi = min(zhi, max(zlo, rows_cap * delta_t * us))
            if zlo / us / delta_t > rows_cap:
                delta_t = min(1000., zlo / us / rows_cap)
        z0 = math.exp(rng.uniform(math.log(zlo), math.log(max(zhi, zlo))))
    dT = rng.choice([None, None, rng.uniform(0.3, 30.), rng.uniform(0., 1.)])
    K = rng.choice([1., 1., 0., rng.uniform(0., 10.)])
    K_T = rng.choice([1., 1., 0., rng.uniform(0., 10.)])
    fdis = 10 ** rng.uniform(-9, -1)
    t_hyd = rng.choice([0., 0., rng.uniform(1., 2000.)])
    lag_time = rng.random() < 0.5
    x0 = rng.choice([0., rng.uniform(-100., 100.)])
    y0 = rng.choice([0., rng.uniform(-100., 100.)])
    return dict(profile=name, descr=descr, z0=z0, x0=x0, y0=y0, de=de, dT=dT, K=K, K_T=K_T, fdis=fdis,
                t_hyd=t_hyd, lag_time=lag_time, delta_t=delta_t, obj=obj, yk=yk, prf=prf)


def sbm_cap_case(rng, profiles):
    """a slow, deep, tiny inert drop with the largest step: rises ~2 mm/s, so the 14-day cap
    (t > 1209600 s) ends the run after ~1210 stored rows (cheap: no equation of state)"""
    from tamoc import dbm
    deep = [p for p in profiles if table_range(p[1])[1] >= 3400.]
    name, prf = rng.choice(deep)
    p = dict(isfluid=True, iscompressible=True, rho_p=930., gamma=rng.uniform(24., 30.), beta=7e-4, co=2.9e-9,
             k_bio=0., t_bio=0., fp_type=1)
    obj = dbm.InsolubleParticle(True, True, rho_p=p['rho_p'], gamma=p['gamma'], beta=p['beta'], co=p['co'])
    return dict(profile=name, descr=dict(kind='inert', **p), z0=rng.uniform(3200., min(3500., table_range(prf)[1] - 1.)), x0=0., y0=0.,
                de=rng.uniform(0.2e-3, 0.22e-3), dT=None, K=1., K_T=rng.choice([1., 0.]), fdis=1e-6, t_hyd=0.,
                lag_time=True, delta_t=1000., obj=obj, yk=np.array([1.]), prf=prf)


def sbm_stall_case(rng, profiles):
    """a small bubble of a soluble gas with a tiny dissolution threshold: every component is cut off
    (m_i/m0_i < fdis) before the total mass fraction falls below fdis, the wrapper then reports zero
    slip and the run ends by the stall test (us <= 0)"""
    from tamoc import dbm
    name, prf = rng.choice(profiles)
    comp = rng.choice([['ethane'], ['oxygen'], ['ethane', 'methane'], ['nitrogen', 'oxygen'], ['methane']])
    yk = random_yk(rng, len(comp))
    with quiet():
        obj = dbm.FluidParticle(comp, fp_type=0)
    zhi = min(1500., table_range(prf)[1] - 1.)
    return dict(profile=name, descr=dict(kind='gas', composition=comp, fp_type=0, yk=[float(v) for v in yk]),
                z0=rng.uniform(min(300., zhi), zhi), x0=0., y0=0., de=rng.uniform(0.4e-3, 1.0e-3),
                dT=rng.choice([None, rng.uniform(0.5, 5.)]), K=rng.uniform(1., 6.), K_T=1., fdis=10 ** rng.uniform(-9, -7),
                t_hyd=0., lag_time=True, delta_t=rng.choice([10., 50., 100.]), obj=obj, yk=yk, prf=prf)


def sbm_corpus(profiles):
    """minimised past findings, replayed first (world-ocean average profile): small ethane(-methane)
    bubbles that dissolve completely; the last stored step of these runs moves the particle down"""
    from tamoc import dbm
    world = [p for p in profiles if p[0] == 'world-ocean'][:1]
    out = []
    for comp, yk, z0, de, dT, K, fdis in (
            (['ethane'], [1.], 1073.9595107110235, 0.0006157736539280521, None, 3.5836754326316314, 1.0262632525415425e-08),
            (['ethane', 'methane'], [0.6021468549711564, 0.3978531450288436], 349.78607903350627, 0.00082517855740072,
             3.067618821516381, 4.24643182722902, 1.3430060043788883e-08)):
        for name, prf in world:
            with quiet():
                obj = dbm.FluidParticle(comp, fp_type=0)
            out.append(dict(profile=name, descr=dict(kind='gas', composition=comp, fp_type=0, yk=yk), z0=z0, x0=0., y0=0.,
                            de=de, dT=dT, K=K, K_T=1., fdis=fdis, t_hyd=0., lag_time=True, delta_t=100., obj=obj,
                            yk=np.array(yk), prf=prf))
    return out


class BudgetExceeded(Exception):
    """raised from inside the wrapped profile look-up when a simulation needs more right-hand-side
    evaluations than the scenario budget (VODE occasionally takes 1e4+ tiny steps)"""


def run_sbm(case, budget=None, model=None):
    """run the REAL single_bubble_model on a case; returns the Model object with the extra attributes
    `_T0_used`;
    `_raw`     : one entry per pass through the loop of calculate_path, recorded by a recording subclass of
                 scipy.integrate.ode installed for the duration of the run (in this process only): (t, y, ok, K_T)
                 = r.t, a COPY of r.y as the integrator returned it (before the loop clips masses / resets the
                 heat), r.successful(), particle.K_T at that moment;
    `_k_steps` : number of passes (= len(_raw));
    `_n_reset` : number of heat resets of l.847-850, counted by an instance-level wrapper of profile.get_values
                 (that call is the only one that passes the name as a bare string);
    `_n_rhs`   : number of right-hand-side evaluations.
    `model` : an existing single_bubble_model.Model on the same profile to RE-USE for this simulate call
              (default: a fresh Model).
    Exceptions of the code under test propagate to the caller (BudgetExceeded is ours)."""
    from tamoc import single_bubble_model
    prf = case['prf']
    buf = io.StringIO()
    count = [0]
    orig = prf.get_values
    ncalls = [0]
    raw = []

    def get_values(z, names):
        if isinstance(names, str) and names == 'temperature':
            count[0] += 1
        ncalls[0] += 1
        if budget is not None and ncalls[0] > 3 * budget:
            raise BudgetExceeded()
        return orig(z, names)
    imod = single_bubble_model.integrate
    orig_ode = imod.ode

    class RecordingOde(orig_ode):
        def integrate(self, t, step=False, relax=False):
            res = orig_ode.integrate(self, t, step, relax)
            part = self.f_params[1] if len(self.f_params) > 1 else None
            raw.append((float(self.t), np.array(self.y, dtype=float, copy=True), bool(self.successful()),
                        float(part.K_T) if part is not None else float('nan')))
            return res
    prf.get_values = get_values
    imod.ode = RecordingOde
    try:
        with warnings.catch_warnings():
            warnings.simplefilter('ignore')
            with np.errstate(all='ignore'), contextlib.redirect_stdout(buf):
                if model is None:
                    model = single_bubble_model.Model(prf)
                T0 = None
                if case['dT'] is not None:
                    Ta = float(orig(case['z0'], ['temperature'])[0])
                    T0 = Ta + case['dT']
                model.simulate(case['obj'], np.array([case['x0'], case['y0'], case['z0']]), case['de'],
                               np.array(case['yk'], dtype=float), T0, case['K'], case['K_T'], case['fdis'],
                               case['t_hyd'], case['lag_time'], case['delta_t'])
    finally:
        del prf.get_values
        imod.ode = orig_ode
    model._T0_used = T0
    model._raw = raw
    model._k_steps = len(raw)
    model._n_reset = count[0]
    model._n_rhs = ncalls[0] // 3
    return model
