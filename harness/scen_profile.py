"""
Seeded builders of synthetic CTD casts and of `ambient.Profile` objects in every supported input
form (properties C07, C14; importable by other checks).

A *cast* is a dict
    z, T, S        1-D float arrays in STANDARD units (m, K, psu), z strictly increasing unless a
                   reversal / convention option was requested
    P              pressure (Pa) or None (then the profile integrates it itself)
    extra          list of (name, standard_unit, values)
    units          {'z','T','S','P', name: unit actually used when the cast is handed to tamoc};
                   `cast_table` converts the standard values INTO those units, tamoc converts back
    meta           generator parameters (everything needed to describe the case in a replay)

Everything random comes from the `random.Random` passed in (bulk noise from a NumPy generator
seeded from it), so a scenario is reproducible from the check's seed.
"""
import os
import math
import numpy as np

G = 9.81
P_ATM = 101325.0
ROUTES = ('array', 'xarray', 'ncfile', 'ncdataset')

# recognised units (ambient.convert_units): unit -> (factor, offset) to standard
UNITS_Z = {'m': (1.0, 0.0), 'meter': (1.0, 0.0)}
UNITS_T = {'K': (1.0, 0.0), 'deg C': (1.0, 273.15), 'Celsius': (1.0, 273.15)}
UNITS_S = {'psu': (1.0, 0.0), 'salinity': (1.0, 0.0)}
UNITS_P = {'Pa': (1.0, 0.0), 'db': (1.e4, 101325.0), 'MPa': (1.e6, 0.0)}
UNITS_C = {'kg/m^3': (1.0, 0.0), 'mg/l': (1.e-3, 0.0), 'mg/m^3': (1.e-6, 0.0), 'kilogram meter-3': (1.0, 0.0)}
UNITS_V = {'m/s': (1.0, 0.0), 'meter second-1': (1.0, 0.0), 'm.s-1': (1.0, 0.0)}
STANDARD = {'m': 'm', 'meter': 'm', 'K': 'K', 'deg C': 'K', 'Celsius': 'K', 'psu': 'psu', 'salinity': 'psu',
            'Pa': 'Pa', 'db': 'Pa', 'MPa': 'Pa', 'kg/m^3': 'kg/m^3', 'mg/l': 'kg/m^3', 'mg/m^3': 'kg/m^3',
            'kilogram meter-3': 'kg/m^3', 'm/s': 'm/s', 'meter second-1': 'm/s', 'm.s-1': 'm/s'}
CONC_NAMES = ['oxygen', 'nitrogen', 'methane', 'carbon_dioxide', 'argon', 'tracer_a', 'tracer_b', 'ethane']
VEL_NAMES = ['ua', 'va', 'wa']


def unit_factor(unit):
    for tab in (UNITS_Z, UNITS_T, UNITS_S, UNITS_P, UNITS_C, UNITS_V):
        if unit in tab:
            return tab[unit]
    raise KeyError(unit)


def hydrostatic(z, T, S):
    """independent pressure column for casts that SUPPLY pressure (own loop, real seawater.density)"""
    from tamoc import seawater
    P = np.zeros(len(z))
    P[0] = P_ATM + float(seawater.density(T[0], S[0], P_ATM)) * G * z[0]
    for i in range(1, len(z)):
        P[i] = P[i - 1] + float(seawater.density(T[i - 1], S[i - 1], P[i - 1])) * G * (z[i] - z[i - 1])
    return P


def make_cast(rng, nmin=3, nmax=500, n_extra=None, with_pressure=None, noise=None, inversions=None,
              invert_last=None, z_top=None, unit_variety=True, max_extra=6, nop_extras=False, shuffle_order=0.4,
              convert=False):
    """one synthetic cast in standard units, depths strictly increasing"""
    npr = np.random.default_rng(rng.getrandbits(63))
    u = rng.random()
    if u < 0.25:
        n = rng.randint(nmin, min(nmax, nmin + 5))
    elif u < 0.85:
        n = int(round(math.exp(rng.uniform(math.log(nmin), math.log(nmax)))))
    else:
        n = nmax if rng.random() < 0.3 else rng.randint(max(nmin, nmax // 2), nmax)
    n = max(nmin, min(nmax, n))
    if z_top is None:
        z_top = rng.choice([0.0, 0.0, rng.uniform(0.5, 30.0)])
    depth = math.exp(rng.uniform(math.log(30.0), math.log(6000.0)))
    style = rng.choice(['uniform', 'irregular', 'fine-top'])
    if style == 'uniform':
        dz = np.full(n - 1, 1.0)
    elif style == 'irregular':
        dz = npr.uniform(0.05, 1.0, n - 1)
    else:
        dz = np.linspace(0.1, 1.0, n - 1) ** 2 + 0.01
    z = z_top + np.concatenate(([0.0], np.cumsum(dz))) * (depth / float(np.sum(dz)))
    # thermocline temperature, halocline salinity
    T_s = rng.uniform(283.0, 303.0)
    T_b = rng.uniform(274.5, min(280.0, T_s - 1.0))
    zt = rng.uniform(0.05, 0.5) * depth
    T = T_b + (T_s - T_b) * np.exp(-(z - z[0]) / zt)
    S_s = rng.uniform(30.0, 36.5)
    S_b = rng.uniform(max(S_s, 34.0), 37.0)
    S = S_b + (S_s - S_b) * np.exp(-(z - z[0]) / zt)
    if noise is None:
        noise = rng.choice([0.0, 1e-4, 1e-3, 1e-2, 0.05])
    T = T + npr.normal(0.0, noise * 5.0, n)
    S = np.clip(S + npr.normal(0.0, noise * 1.0, n), 0.0, 42.0)
    # density inversions: warm / fresh parcels anywhere
    if inversions is None:
        inversions = rng.choice([0, 0, 1, 2, 5])
    inv_rows = []
    for _ in range(inversions):
        i = rng.randrange(1, n)
        T[i] += rng.uniform(0.5, 6.0)
        S[i] = max(0.0, S[i] - rng.uniform(0.0, 2.0))
        inv_rows.append(i)
    if invert_last is None:
        invert_last = rng.random() < 0.25
    if invert_last:
        T[-1] = T[-2] + rng.uniform(0.5, 8.0)
        S[-1] = max(0.0, S[-2] - rng.uniform(0.0, 3.0))
        inv_rows.append(n - 1)
    T = np.clip(T, 271.5, 310.0)
    if with_pressure is None:
        with_pressure = rng.random() < 0.6
    P = hydrostatic(z, T, S) if with_pressure else None
    if n_extra is None:
        n_extra = rng.choice([0, 0, 1, 2, 3, max_extra])
    n_extra = min(n_extra, max_extra)
    if not with_pressure and not nop_extras:
        n_extra = 0       # (the 3-column array form, the one that reaches the pressure integration, carries no extras)
    pool = CONC_NAMES + VEL_NAMES
    rng.shuffle(pool)
    extra = []
    for name in pool[:n_extra]:
        if name in VEL_NAMES:
            v = rng.uniform(-0.5, 0.5) + npr.normal(0.0, 0.02, n) + rng.choice([0.0, 1.0]) * 0.2 * np.sin(z / depth * 6.0)
            if rng.random() < 0.3:
                v[npr.integers(0, n, size=max(1, n // 5))] = 0.0      # exact zeros (coarsen's exempt entries)
            extra.append((name, 'm/s', v))
        else:
            c = rng.uniform(1e-4, 1e-2) * (1.0 + 0.5 * np.cos(z / depth * rng.uniform(1.0, 9.0))) + npr.normal(0.0, noise * 1e-4, n)
            if rng.random() < 0.2:
                c[npr.integers(0, n, size=max(1, n // 6))] = 0.0
            extra.append((name, 'kg/m^3', np.abs(c)))
    units = {'z': 'm', 'T': 'K', 'S': 'psu', 'P': 'Pa'}
    for name, su, _v in extra:
        units[name] = su
    if unit_variety and rng.random() < 0.6:
        units['z'] = rng.choice(list(UNITS_Z))
        units['T'] = rng.choice(list(UNITS_T))
        units['S'] = rng.choice(list(UNITS_S))
        units['P'] = rng.choice(list(UNITS_P))
        for name, su, _v in extra:
            units[name] = rng.choice(list(UNITS_V if su == 'm/s' else UNITS_C))
    if convert:
        # every convertible variable is supplied in a unit that is NOT the standard one
        units['T'] = rng.choice(['deg C', 'Celsius'])
        units['P'] = rng.choice(['db', 'MPa'])
        for name, su, _v in extra:
            units[name] = rng.choice(['mg/l', 'mg/m^3']) if su == 'kg/m^3' else units[name]
    # order of the data variables in dataset forms (xarray / netCDF); the array form is positional (canonical)
    order = ['temperature', 'salinity'] + (['pressure'] if with_pressure else []) + [e[0] for e in extra]
    if rng.random() < shuffle_order:
        rng.shuffle(order)
    return {'z': z, 'T': T, 'S': S, 'P': P, 'extra': extra, 'units': units, 'order': order,
            'meta': {'variable_order': list(order), 'levels': n, 'z_top': float(z[0]), 'depth': float(depth), 'spacing': style, 'noise': noise,
                     'inversion_rows': sorted(inv_rows), 'inverted_last': bool(invert_last),
                     'with_pressure': bool(with_pressure), 'extra': [e[0] for e in extra], 'units': dict(units)}}


def to_units(values, unit):
    f, o = unit_factor(unit)
    return (np.asarray(values, dtype=float) - o) / f


def from_units(values, unit):
    """what ambient.convert_units computes: value * factor + offset"""
    f, o = unit_factor(unit)
    return np.asarray(values, dtype=float) * f + o


def cast_table(cast, dataset_order=False):
    """(data, names, units) as handed to tamoc, in the cast's unit system.  Columns: z, T, S, [P], extras
    (canonical) or z followed by the variables in cast['order'] (dataset forms)"""
    u = cast['units']
    col = {'temperature': (cast['T'], u['T']), 'salinity': (cast['S'], u['S'])}
    if cast['P'] is not None:
        col['pressure'] = (cast['P'], u['P'])
    for name, _su, v in cast['extra']:
        col[name] = (v, u[name])
    canon = ['temperature', 'salinity'] + (['pressure'] if cast['P'] is not None else []) + [e[0] for e in cast['extra']]
    order = list(cast.get('order', canon)) if dataset_order else canon
    cols = [to_units(cast['z'], u['z'])] + [to_units(col[nm][0], col[nm][1]) for nm in order]
    return np.column_stack(cols), ['z'] + order, [u['z']] + [col[nm][1] for nm in order]


def standard_table(cast, dataset_order=False):
    """the values tamoc must hold after ITS unit conversion of cast_table (value*factor+offset, as
    convert_units does it) — bitwise what the code computes"""
    data, names, units = cast_table(cast, dataset_order)
    out = np.column_stack([from_units(data[:, j], units[j]) for j in range(data.shape[1])])
    return out, names, [STANDARD[x] for x in units]


def chem_lists(cast):
    u = cast['units']
    return [e[0] for e in cast['extra']], [u[e[0]] for e in cast['extra']]


def make_xarray(data, names, units, copy=True):
    """copy=False: the Dataset holds VIEWS of the caller's array, the way a user script builds it"""
    import xarray as xr
    ds = xr.Dataset()
    ds.coords[names[0]] = np.array(data[:, 0]) if copy else data[:, 0]
    ds.coords[names[0]].attrs['units'] = units[0]
    for j in range(1, len(names)):
        ds[names[j]] = ((names[0]), np.array(data[:, j]) if copy else data[:, j])
        ds[names[j]].attrs['units'] = units[j]
    return ds


def build_from_object(obj, names, units, route, workdir, err=0.01, stabilize=True):
    """construct a profile from the caller's OWN object without copying it first: `obj` is the numpy table (columns z, T, S, P,
    extras; route 'array', and the source the netCDF routes write their file from) or an xarray Dataset (route 'xarray')"""
    from tamoc import ambient
    ztsp = ['z', 'temperature', 'salinity', 'pressure']
    chem_names, chem_units = list(names[4:]), list(units[4:])
    if route == 'array':
        p = ambient.Profile(obj, ztsp=list(ztsp), chem_names=chem_names, err=err, ztsp_units=list(units[:4]),
                            chem_units=chem_units, stabilize_profile=stabilize)
        return Built(p, route, [])
    if route == 'xarray':
        p = ambient.Profile(obj, ztsp=list(ztsp), chem_names=chem_names, err=err, stabilize_profile=stabilize)
        return Built(p, route, [])
    path = _fresh(workdir, 'same')
    write_netcdf(path, obj, names, units)
    if route == 'ncfile':
        p = ambient.Profile(path, ztsp=list(ztsp), chem_names=chem_names, err=err, stabilize_profile=stabilize)
        return Built(p, route, [path])
    from netCDF4 import Dataset
    nc = Dataset(path, 'a')
    p = ambient.Profile(nc, ztsp=list(ztsp), chem_names=chem_names, err=err, stabilize_profile=stabilize)
    return Built(p, route, [path], nc)


def write_netcdf(path, data, names, units):
    """netCDF4-classic file laid out like ambient.create_nc_db (NODC orthogonal profile template):
    dims z (unlimited), profile; time/lat/lon; every variable carries `units`"""
    from netCDF4 import Dataset
    nc = Dataset(path, 'w', format='NETCDF4_CLASSIC')
    nc.summary = 'synthetic cast (verif)'
    nc.source = 'harness/scen_profile.py'
    nc.sea_name = 'No Sea Name'
    nc.createDimension('z', None)
    nc.createDimension('profile', 1)
    t = nc.createVariable('time', 'f8', ('profile',))
    t.units = 'seconds since 1970-01-01 00:00:00 0:00'
    t.calendar = 'julian'
    t[0] = 1275177600.0
    la = nc.createVariable('lat', 'f8', ('profile',))
    la.units = 'degrees_north'
    la[0] = 28.5
    lo = nc.createVariable('lon', 'f8', ('profile',))
    lo.units = 'degrees_east'
    lo[0] = 270.7
    zv = nc.createVariable(names[0], 'f8', ('z',))
    zv.units = units[0]
    zv.positive = 'down'
    zv[:] = data[:, 0]
    zv.valid_min = float(np.min(data[:, 0]))
    zv.valid_max = float(np.max(data[:, 0]))
    for j in range(1, len(names)):
        v = nc.createVariable(names[j], 'f8', ('z',))
        v.units = units[j]
        v.coordinates = 'time lat lon z'
        v[:] = data[:, j]
    nc.close()


class Built:
    """a constructed profile + what is needed to close / clean up after it"""
    def __init__(self, profile, route, files, nc=None):
        self.profile = profile
        self.route = route
        self.files = files
        self.nc = nc

    def close(self):
        try:
            self.profile.close_nc()
        except Exception:
            pass
        for f in self.files:
            try:
                os.remove(f)
            except OSError:
                pass


_counter = [0]


def _fresh(workdir, stem):
    _counter[0] += 1
    return os.path.join(workdir, '%s_%d_%d.nc' % (stem, os.getpid(), _counter[0]))


class NotApplicable(Exception):
    """the input form cannot express this cast at all (nothing of tamoc was called)"""


def build_profile(cast, route, workdir, err=0.01, stabilize=True):
    """construct ambient.Profile from the SAME cast through one input form.  Dataset forms (xarray, netCDF)
    store the variables in cast['order']; whatever tamoc raises is passed on to the caller."""
    from tamoc import ambient
    chem_names, chem_units = chem_lists(cast)
    ztsp = ['z', 'temperature', 'salinity', 'pressure']
    has_p = cast['P'] is not None
    if route == 'array':
        data, names, units = cast_table(cast)
        if not has_p and chem_names:
            raise NotApplicable('a positional array without a pressure column cannot carry extra variables')
        zu = units[:4] if has_p else units[:3] + ['Pa']
        p = ambient.Profile(np.array(data), ztsp=list(ztsp), chem_names=list(chem_names), err=err,
                            ztsp_units=list(zu), chem_units=list(chem_units), stabilize_profile=stabilize)
        return Built(p, route, [])
    data, names, units = cast_table(cast, dataset_order=True)
    if route == 'xarray':
        p = ambient.Profile(make_xarray(data, names, units), ztsp=list(ztsp), chem_names=list(chem_names), err=err,
                            stabilize_profile=stabilize)
        return Built(p, route, [])
    if route == 'baseprofile':
        p = ambient.BaseProfile(make_xarray(data, names, units), ztsp=list(ztsp), chem_names=list(chem_names),
                                chem_units=list(chem_units), err=err, stabilize_profile=stabilize)
        return Built(p, route, [])
    path = _fresh(workdir, 'cast')
    write_netcdf(path, data, names, units)
    try:
        if route == 'ncfile':
            p = ambient.Profile(path, ztsp=list(ztsp), chem_names=list(chem_names), err=err, stabilize_profile=stabilize)
            return Built(p, route, [path])
        if route == 'ncdataset':
            from netCDF4 import Dataset
            nc = Dataset(path, 'a')
            try:
                p = ambient.Profile(nc, ztsp=list(ztsp), chem_names=list(chem_names), err=err, stabilize_profile=stabilize)
            except Exception:
                nc.close()
                raise
            return Built(p, route, [path], nc)
    except Exception:
        try:
            os.remove(path)
        except OSError:
            pass
        raise
    raise ValueError(route)


def routes_for(cast):
    """input forms that construct a profile from this cast on the code as documented"""
    if cast['P'] is not None:
        return list(ROUTES)
    return ['array'] if not cast['extra'] else []


def all_routes(cast):
    """every input form that can EXPRESS this cast (whether or not tamoc then accepts it)"""
    r = ['xarray', 'ncfile', 'ncdataset', 'baseprofile']
    if cast['P'] is not None or not cast['extra']:
        r = ['array'] + r
    return r


def claimed_table(profile):
    """the data the profile CLAIMS to hold: interp_ds read variable by variable (not the cached
    interp_data), names in dataset order"""
    zname = profile.ztsp[0]
    ds = profile.interp_ds
    names = [str(k) for k in ds.keys()]
    cols = [np.array(ds.coords[zname].values, dtype=float)]
    for k in names:
        cols.append(np.array(ds[k].values, dtype=float))
    return np.column_stack(cols), names


# ---- raw CTD records with depth reversals (C14, extract_profile) -----------------------------------

def add_reversals(rng, cast, top=None, bottom=None):
    """turn a monotone cast into a raw CTD record: a soak / yo-yo near the surface (lowered, raised, lowered
    again) and an up-cast after the deepest sample.  Returns (raw table in standard units with columns
    z,T,S[,P],extras, names, description)."""
    data, names, _units = standard_table(cast)
    n = data.shape[0]
    if top is None:
        top = rng.random() < 0.5
    if bottom is None:
        bottom = rng.random() < 0.6
    idx = []
    shift = []
    desc = {'top_yoyo': None, 'upcast': None}
    if top and n >= 4:
        k = rng.randint(1, min(6, n - 2))          # lowered to sample k
        j = rng.randint(0, k - 1)                  # raised back to sample j
        idx += list(range(0, k + 1)) + list(range(k - 1, j - 1, -1))
        shift += [0.0] * (k + 1) + [rng.choice([0.0, rng.uniform(0.0, 0.3)]) * abs(data[1, 0] - data[0, 0]) for _ in range(k - j)]
        start_down = j + 1                         # (no exactly repeated depth: ties are not reversals for the code's `<`)
        desc['top_yoyo'] = {'down_to': k, 'back_to': j}
    else:
        start_down = 0
    idx += list(range(start_down, n))
    shift += [0.0] * (n - start_down)
    if bottom and n >= 3:
        m = rng.randint(1, min(n - 1, 8))
        up = list(range(n - 2, n - 2 - m, -1))
        idx += up
        # the up-cast samples sit a little above the depths of the down-cast samples
        shift += [rng.choice([0.0, -rng.uniform(0.0, 0.4)]) * abs(data[i, 0] - data[max(i - 1, 0), 0]) for i in up]
        desc['upcast'] = {'samples': len(up)}
    raw = np.array([data[i] for i in idx], dtype=float)
    raw[:, 0] = raw[:, 0] + np.array(shift)
    # measured values on the way up differ slightly from the way down
    if raw.shape[1] > 1:
        jitter = np.array([1.0 + (rng.uniform(-1e-4, 1e-4) if s != 0.0 else 0.0) for s in shift])
        raw[:, 1] = raw[:, 1] * jitter
    desc['samples'] = int(raw.shape[0])
    return raw, names, desc
