"""
Seeded scenario builders for C18 (saved simulations reload identically).

Everything random comes from the `random.Random` handed in; every scenario is described by a
JSON-able *spec* from which it can be rebuilt exactly (replay).  Nothing here touches /repo;
the real code is imported from PYTHONPATH / TAMOC_REPO.  All files go to a directory the
caller creates under /root/scratch/c18 and removes afterwards.
"""
import io
import os
import math
import contextlib
import warnings

import numpy as np

COMPS = [
    ['methane'],
    ['methane', 'ethane'],
    ['methane', 'ethane', 'propane'],
    ['nitrogen', 'oxygen'],
    ['carbon_dioxide', 'methane'],
    ['methane', 'oxygen'],            # oxygen has no Privat-Jaubert groups
]
LIQ_COMPS = [['n-hexane', 'benzene'], ['n-pentane', 'toluene', 'n-heptane']]
USER_KEYS = ['M', 'Pc', 'Tc', 'Vc', 'Tb', 'Vb', 'omega', 'kh_0', '-dH_solR', 'nu_bar', 'B', 'dE', 'K_salt']
EXTRA_KEYS = ['k_bio', 't_bio', 'C_pen', 'C_pen_T']


@contextlib.contextmanager
def quiet():
    with warnings.catch_warnings():
        warnings.simplefilter('ignore')
        with np.errstate(all='ignore'):
            with contextlib.redirect_stdout(io.StringIO()):
                yield


# ---------------------------------------------------------------------------
# ambient profile written with create_nc_db / fill_nc_db
# ---------------------------------------------------------------------------

def profile_spec(rng, H=None, n=None, current=None, chems=()):
    H = H or rng.choice([400., 800., 1500.])
    return {
        'H': H, 'n': n or rng.choice([25, 40, 60]), 'irregular': rng.random() < 0.5, 'zseed': rng.randrange(10 ** 6),
        'Ts': 273.15 + rng.uniform(10., 26.), 'Tb': 273.15 + rng.uniform(2., 5.), 'hT': rng.uniform(100., 400.),
        'Ss': rng.uniform(33., 35.), 'dS': rng.uniform(0.3, 1.2), 'hS': rng.uniform(200., 700.),
        'ua': rng.choice([0., 0.05, 0.1, 0.2]) if current is None else current,
        'chems': {c: [10 ** rng.uniform(-6, -3), rng.uniform(200., 1500.)] for c in chems},
        'lat': rng.uniform(-60, 60), 'lon': rng.uniform(0, 360), 'time': float(rng.randrange(10 ** 9)),
        'sea_name': rng.choice(['No Sea Name', 'Gulf of Mexico']),
    }


def profile_table(ps):
    """(data, names, units): the columns handed to fill_nc_db, depth first"""
    from tamoc import ambient
    r = np.random.default_rng(ps['zseed'])
    n = int(ps['n'])
    if ps['irregular']:
        z = np.sort(r.uniform(0., ps['H'], n))
        z[0], z[-1] = 0., ps['H']
    else:
        z = np.linspace(0., ps['H'], n)
    T = ps['Tb'] + (ps['Ts'] - ps['Tb']) * np.exp(-z / ps['hT'])
    S = ps['Ss'] + ps['dS'] * (1. - np.exp(-z / ps['hS']))
    P = ambient.compute_pressure(z, T, S, 0)
    cols, names, units = [z, T, S, P], ['z', 'temperature', 'salinity', 'pressure'], ['m', 'K', 'psu', 'Pa']
    for c, (c0, h) in ps['chems'].items():
        cols.append(c0 * np.exp(-z / h))
        names.append(c)
        units.append('kg/m^3')
    if ps['ua'] != 0.:
        cols.append(ps['ua'] * (1. + 0.2 * np.cos(z / ps['H'] * 3.)))
        names.append('ua')
        units.append('m/s')
    return np.vstack(cols).T, names, units


def write_profile(ps, path):
    """create_nc_db + fill_nc_db; returns (open netCDF dataset, data, names, units, comments)"""
    from tamoc import ambient
    data, names, units = profile_table(ps)
    comments = ['synthetic %s' % nm for nm in names]
    nc = ambient.create_nc_db(path, 'C18 synthetic profile', 'harness/scen_c18.py', ps['sea_name'],
                              ps['lat'], ps['lon'], ps['time'])
    nc = ambient.fill_nc_db(nc, data, names, units, comments, 0)
    return nc, data, names, units, comments


APPEND_MODES = ('top-missing', 'bottom-missing', 'both-missing', 'beyond', 'full')


def append_specs(rng, H, mode, nvars=None):
    """1-3 variables to APPEND to an existing cast from data that cover only part of the water column (bottle
    chemistry, ADCP currents, a tracer): each {'names', 'units', 'table'} with the depth column first.  `mode` says
    which end of the depth range the samples leave uncovered ('beyond': the samples reach outside the cast)"""
    out = []
    pool = [(['oxygen'], ['kg/m^3']), (['ua', 'va'], ['m/s', 'm/s']), (['tracer_dye'], ['kg/m^3']),
            (['methane'], ['kg/m^3']), (['ua'], ['m/s'])]
    rng.shuffle(pool)
    used = set()
    for nms, uns in pool:
        if len(out) >= (nvars or rng.randint(1, 3)) or used & set(nms):
            continue
        used |= set(nms)
        n = rng.randint(2, 20)
        lo, hi = {'top-missing': (rng.uniform(0.1, 0.5) * H, H), 'bottom-missing': (0., rng.uniform(0.4, 0.9) * H),
                  'both-missing': (rng.uniform(0.1, 0.4) * H, rng.uniform(0.5, 0.9) * H),
                  'beyond': (-rng.uniform(5., 60.), H + rng.uniform(5., 90.)), 'full': (0., H)}[mode]
        z = sorted([lo, hi] + [rng.uniform(lo, hi) for _ in range(n - 2)])
        cols = [z]
        for nme in nms:
            a, b, c = 10 ** rng.uniform(-4, -2), rng.uniform(0.2, 0.9), rng.uniform(40., 400.)
            if nme in ('ua', 'va'):
                a = rng.uniform(0.02, 0.3)
            # a clear slope at both ends of the sampled range
            cols.append([a * (1. + b * math.sin(v / c) + 0.5 * (v - lo) / max(hi - lo, 1.)) for v in z])
        out.append({'names': ['z'] + nms, 'units': ['m'] + uns, 'table': np.array(cols, dtype=float).T.tolist(),
                    'range': [lo, hi]})
    return out


def profile_from_file(path):
    from netCDF4 import Dataset
    from tamoc import ambient
    with quiet():
        prf = ambient.Profile(Dataset(path), chem_names='all')
        prf.close_nc()
    return prf


# ---------------------------------------------------------------------------
# dbm particle specs
# ---------------------------------------------------------------------------

def _db():
    from tamoc import chemical_properties
    chem_db, _u, bio_db, _bu, pj, _pu = chemical_properties.tamoc_data()
    return chem_db, bio_db, pj


def user_data_spec(rng, comp, mode):
    """mode: 'none' | 'some' (a subset of the composition) | 'all' | 'pseudo' (adds properties under
    names the built-in data base does not know is not possible without changing the composition, so
    'pseudo' renames nothing: it supplies every compound with perturbed values)"""
    chem_db, bio_db, _ = _db()
    if mode == 'none':
        return {}
    names = list(comp)
    if mode == 'some' and len(names) > 1:
        names = rng.sample(names, rng.randint(1, len(names) - 1))
    ud = {}
    for nme in names:
        row = {k: float(chem_db[nme][k]) for k in USER_KEYS}
        if mode == 'pseudo':
            row['kh_0'] *= rng.uniform(0.8, 1.2)
            row['K_salt'] = abs(row['K_salt']) * rng.uniform(0.8, 1.2) if row['K_salt'] > 0 else row['K_salt']
        if mode == 'override':
            # every value the constructor derives a property from differs from the built-in data base
            for k in ('kh_0', '-dH_solR'):
                row[k] *= rng.uniform(0.8, 1.2)
            row['Vb'] = abs(row['Vb']) * rng.uniform(0.9, 1.1) if row['Vb'] > 0 else 3e-5 * rng.uniform(0.9, 1.1)
            row['nu_bar'] = abs(row['nu_bar']) * rng.uniform(0.9, 1.1) if row['nu_bar'] > 0 else 4e-5 * rng.uniform(0.9, 1.1)
            row['B'] = 4.5e-6 * rng.uniform(0.9, 1.1)
            row['dE'] = 17000. * rng.uniform(0.9, 1.1)
            row['K_salt'] = 1.2e-4 * rng.uniform(0.9, 1.1)
        ud[nme] = row
    return ud


def rename_compound(rng, comp, ud):
    """replace one compound of `comp` by a user-defined one with a NEW name (values of the original); returns
    (composition, user_data)"""
    chem_db, _b, _pj = _db()
    comp = list(comp)
    j = rng.randrange(len(comp))
    new = 'user_' + comp[j].replace('-', '_')
    ud = {k: dict(v) for k, v in ud.items() if k != comp[j]}
    ud[new] = {k: float(chem_db[comp[j]][k]) for k in USER_KEYS}
    comp[j] = new
    return comp, ud


def add_extras(rng, ud, which):
    for nme in ud:
        for k in which:
            ud[nme][k] = {'k_bio': 10 ** rng.uniform(-7, -5), 't_bio': rng.uniform(10., 5000.),
                          'C_pen': 10 ** rng.uniform(-7, -5), 'C_pen_T': 10 ** rng.uniform(-9, -8)}[k]
    return ud


def fluid_spec(rng, comp, fp_type=0, rich=True):
    nc = len(comp)
    s = {'soluble': True, 'composition': list(comp), 'fp_type': fp_type, 'delta': None, 'delta_groups': None,
         'user_data': {}, 'isair': False, 'sigma_correction': 1.0}
    if not rich:
        return s
    u = rng.random()
    if nc > 1 and u < 0.45:
        d = np.zeros((nc, nc))
        for i in range(nc):
            for j in range(i):
                d[i, j] = d[j, i] = round(rng.uniform(-0.05, 0.12), 4)
        s['delta'] = d.tolist()
    u = rng.random()
    if u < 0.25:
        s['delta_groups'] = 'builtin'
    elif u < 0.4:
        # raw group counts as an array (the constructor normalises the rows)
        g = np.zeros((nc, 15))
        for i in range(nc):
            for _ in range(rng.randint(1, 3)):
                g[i, rng.randrange(15)] += rng.choice([1., 2., 3., 1.5])
        s['delta_groups'] = g.tolist()
    elif u < 0.5:
        _c, _b, pj = _db()
        nme = rng.choice(comp)
        row = {k: float(v) for k, v in pj[nme].items() if k.startswith('Privat_')}
        s['delta_groups'] = {nme: row}
    mode = rng.choice(['none', 'none', 'some', 'all', 'pseudo'])
    ud = user_data_spec(rng, comp, mode)
    if ud and rng.random() < 0.6:
        add_extras(rng, ud, rng.sample(EXTRA_KEYS, rng.randint(1, 4)))
    s['user_data'] = ud
    if comp == ['nitrogen', 'oxygen'] and rng.random() < 0.6:
        s['isair'] = True
    if rng.random() < 0.4:
        s['sigma_correction'] = round(rng.uniform(0.3, 1.0), 3)
    return s


def insol_spec(rng, buoyant=True, rich=True):
    s = {'soluble': False, 'isfluid': rng.random() < 0.7, 'iscompressible': rng.random() < 0.5,
         'rho_p': rng.uniform(800., 950.) if buoyant else rng.uniform(1500., 2600.),
         'gamma': rng.uniform(15., 45.), 'beta': rng.uniform(3e-4, 9e-4), 'co': rng.uniform(1e-9, 4e-9),
         'k_bio': 0., 't_bio': 0., 'fp_type': 1}
    if rich:
        if rng.random() < 0.4:
            s['k_bio'] = 10 ** rng.uniform(-7, -5)
            s['t_bio'] = rng.choice([0., rng.uniform(10., 5000.)])
        if rng.random() < 0.3:
            s['fp_type'] = 0
    return s


def build_dbm(s):
    from tamoc import dbm
    if s['soluble']:
        dg = s['delta_groups']
        if dg == 'builtin':
            dg = {}
        elif isinstance(dg, list):
            dg = np.array(dg, dtype=float)
        elif isinstance(dg, dict):
            dg = {k: dict(v) for k, v in dg.items()}
        delta = None if s['delta'] is None else np.array(s['delta'], dtype=float)
        ud = {k: dict(v) for k, v in s['user_data'].items()}
        with quiet():
            return dbm.FluidParticle(list(s['composition']), fp_type=s['fp_type'], delta=delta, user_data=ud,
                                     delta_groups=dg, isair=s['isair'], sigma_correction=s['sigma_correction'])
    with quiet():
        return dbm.InsolubleParticle(s['isfluid'], s['iscompressible'], rho_p=s['rho_p'], gamma=s['gamma'],
                                     beta=s['beta'], co=s['co'], k_bio=s['k_bio'], t_bio=s['t_bio'],
                                     fp_type=s['fp_type'])


def wrap_spec(rng, rich=True):
    """the parameters of SingleParticle / PlumeParticle / bpm.Particle"""
    w = {'K': 1., 'K_T': 1., 'fdis': 1e-6, 't_hyd': 0., 'lag_time': True, 'lambda_1': 0.85}
    if rich:
        w.update({'K': round(rng.uniform(0.5, 1.), 3), 'K_T': round(rng.uniform(0.5, 1.), 3),
                  'fdis': 10 ** rng.uniform(-8, -3), 't_hyd': rng.choice([0., 0., rng.uniform(5., 200.)]),
                  'lag_time': rng.random() < 0.5, 'lambda_1': round(rng.uniform(0.7, 1.), 3)})
    return w


def mole_fractions(rng, n):
    y = [rng.uniform(0.2, 1.) for _ in range(n)]
    t = sum(y)
    return [v / t for v in y]


# ---------------------------------------------------------------------------
# particle lists without a simulation (for the particle writer/reader alone)
# ---------------------------------------------------------------------------

def particle_list_spec(rng, ptype, kind=None):
    """kind: 'soluble' | 'inert' | 'mixed'.  fp_type, delta, delta_groups, sigma_correction, isair are drawn per
    particle; user data are shared by most particles of a list (one data base per simulation) but dropped or replaced
    for some; one compound may carry a new, user-defined name"""
    kind = kind or rng.choice(['soluble', 'inert', 'mixed', 'mixed'])
    n = rng.randint(1, 4) if ptype > 0 else 1
    comp = rng.choice(COMPS + LIQ_COMPS)
    liquid = comp in LIQ_COMPS
    newname = rng.random() < 0.25
    base_ud = None
    if newname:
        comp, base_ud = rename_compound(rng, comp, {})
    shared_ud = None
    out = []
    for i in range(n):
        sol = kind == 'soluble' or (kind == 'mixed' and (i % 2 == 0 if n > 1 else rng.random() < 0.5))
        if sol:
            fp = 1 if liquid else rng.choice([0, 0, 1])
            if newname:
                d = fluid_spec(rng, [c for c in comp if not c.startswith('user_')] or ['methane'], fp_type=fp)
                d['composition'] = list(comp)
                nc = len(comp)
                if d['delta'] is not None:
                    dd = np.zeros((nc, nc))
                    for a in range(nc):
                        for b in range(a):
                            dd[a, b] = dd[b, a] = round(rng.uniform(-0.05, 0.12), 4)
                    d['delta'] = dd.tolist()
                if isinstance(d['delta_groups'], list):
                    g = np.zeros((nc, 15))
                    for a in range(nc):
                        g[a, rng.randrange(15)] = rng.choice([1., 2., 3.])
                    d['delta_groups'] = g.tolist()
                elif d['delta_groups'] is not None:
                    d['delta_groups'] = None        # the Privat-Jaubert data base does not know the new name
                d['user_data'] = {k: dict(v) for k, v in base_ud.items()}
            else:
                d = fluid_spec(rng, comp, fp_type=fp)
                # particles of one simulation normally share one user data base
                if shared_ud is None:
                    shared_ud = d['user_data']
                elif rng.random() < 0.85:
                    d['user_data'] = {k: dict(v) for k, v in shared_ud.items()} if rng.random() < 0.7 else {}
            m0 = [10 ** rng.uniform(-7, -4) for _ in comp]
        else:
            d = insol_spec(rng)
            m0 = [10 ** rng.uniform(-7, -4)]
        w = wrap_spec(rng)
        p = {'dbm': d, 'm0': m0, 'T0': rng.uniform(275., 300.), 'nb0': 10 ** rng.uniform(1, 5)}
        p.update(w)
        if ptype == 2:
            p.update({'x': rng.uniform(-5, 5), 'y': rng.uniform(-5, 5), 'z': rng.uniform(100., 1000.),
                      'nbe': 10 ** rng.uniform(1, 4), 'integrate': rng.random() < 0.5, 'sim_stored': True,
                      'farfield': False, 't': rng.uniform(0., 500.),
                      'exit': None if rng.random() < 0.5 else [rng.uniform(1., 500.), rng.uniform(-50, 50),
                                                               rng.uniform(-50, 50), rng.uniform(10., 900.)]})
        out.append(p)
    return {'ptype': ptype, 'kind': kind, 'composition': comp, 'particles': out,
            'P': 10 ** rng.uniform(5.5, 7.5), 'Sa': rng.uniform(33., 35.), 'Ta': rng.uniform(275., 295.)}


def mixed_user_data_list_spec(rng, ptype, with_first, inert_between, tail=False):
    """plume particle list (class 1 or 2) that mixes soluble particles WITH and WITHOUT user chemical data
    (identical key set wherever present), in either order, optionally with an inert particle in between and
    optionally a third soluble particle with the data again"""
    comp = rng.choice(COMPS[:5])
    ud = user_data_spec(rng, comp, 'override')
    base = particle_list_spec(rng, ptype, 'soluble')
    count = [0]

    def sol(with_ud):
        # phase type, interaction coefficients, group-contribution array and sigma differ from particle to particle
        d = fluid_spec(rng, comp, count[0] % 2, rich=False)
        nc = len(comp)
        if nc > 1 and count[0] % 2 == 0:
            dd = np.zeros((nc, nc))
            for a in range(nc):
                for b in range(a):
                    dd[a, b] = dd[b, a] = round(rng.uniform(0.01, 0.12), 4)
            d['delta'] = dd.tolist()
        if count[0] == 1 and 'oxygen' not in comp:
            g = np.zeros((nc, 15))
            for a in range(nc):
                g[a, rng.randrange(15)] = rng.choice([1., 2.])
                g[a, rng.randrange(15)] += 1.
            d['delta_groups'] = g.tolist()
        d['sigma_correction'] = round(1. - 0.1 * count[0], 2)
        d['user_data'] = {k: dict(v) for k, v in ud.items()} if with_ud else {}
        count[0] += 1
        return d, [10 ** rng.uniform(-7, -4) for _ in comp]
    seq = [sol(with_first)]
    if inert_between:
        seq.append((insol_spec(rng, True, rich=False), [10 ** rng.uniform(-7, -4)]))
    seq.append(sol(not with_first))
    if tail:
        seq.append(sol(with_first))
    out = []
    for d, m0 in seq:
        p = {'dbm': d, 'm0': m0, 'T0': rng.uniform(275., 300.), 'nb0': 10 ** rng.uniform(1, 5)}
        p.update(wrap_spec(rng, rich=False))
        if ptype == 2:
            p.update({'x': 0., 'y': 0., 'z': rng.uniform(100., 1000.), 'nbe': 10 ** rng.uniform(1, 4), 'integrate': True,
                      'sim_stored': True, 'farfield': False, 't': rng.uniform(0., 500.), 'exit': None})
        out.append(p)
    base.update({'kind': 'mixed-user-data', 'composition': comp, 'particles': out})
    return base


def composition_variant_list_spec(rng, ptype, variant):
    """plume particle list in which the second soluble particle lists the compounds of the first in another order
    ('reordered') or has only the first compound ('subset'); bent-plume simulations of such lists run"""
    comp = rng.choice([c for c in COMPS[:5] if len(c) >= 2])
    base = particle_list_spec(rng, ptype, 'soluble')
    comp2 = list(reversed(comp)) if variant == 'reordered' else [comp[0]]
    out = []
    for c in (comp, comp2):
        p = {'dbm': fluid_spec(rng, c, 0, rich=False), 'm0': [10 ** rng.uniform(-7, -4) for _ in c],
             'T0': rng.uniform(275., 300.), 'nb0': 10 ** rng.uniform(1, 5)}
        p.update(wrap_spec(rng, rich=False))
        if ptype == 2:
            p.update({'x': 0., 'y': 0., 'z': rng.uniform(100., 1000.), 'nbe': 10 ** rng.uniform(1, 4), 'integrate': True,
                      'sim_stored': True, 'farfield': False, 't': rng.uniform(0., 500.), 'exit': None})
        out.append(p)
    base.update({'kind': 'composition-' + variant, 'composition': comp, 'particles': out})
    return base


def build_particle_list(spec):
    """real SingleParticle / PlumeParticle / bent_plume_model.Particle objects of a list spec"""
    from tamoc import dispersed_phases, bent_plume_model
    ps = []
    for p in spec['particles']:
        d = build_dbm(p['dbm'])
        m0 = np.array(p['m0'], dtype=float)
        with quiet():
            if spec['ptype'] == 0:
                o = dispersed_phases.SingleParticle(d, m0, p['T0'], p['K'], p['K_T'], p['fdis'], p['t_hyd'],
                                                    p['lag_time'])
            elif spec['ptype'] == 1:
                o = dispersed_phases.PlumeParticle(d, m0, p['T0'], p['nb0'], p['lambda_1'], spec['P'], spec['Sa'],
                                                   spec['Ta'], p['K'], p['K_T'], p['fdis'], p['t_hyd'], p['lag_time'])
            else:
                o = bent_plume_model.Particle(p['x'], p['y'], p['z'], d, m0, p['T0'], p['nb0'], p['lambda_1'],
                                              spec['P'], spec['Sa'], spec['Ta'], p['K'], p['K_T'], p['fdis'],
                                              p['t_hyd'], p['lag_time'])
                o.nbe = p['nbe']
                o.integrate = p['integrate']
                o.sim_stored = p['sim_stored']
                o.farfield = p['farfield']
                o.t = p['t']
                if p['exit'] is not None:
                    o.te, o.xe, o.ye, o.ze = p['exit']
        ps.append(o)
    chem = []
    for o in ps:
        if o.particle.issoluble:
            chem += [c for c in o.composition if c not in chem]
    if spec['ptype'] == 0:
        chem = list(ps[0].composition)
    # Model.simulate records K_T0 from the constructed particles and restores it at the end
    return ps, chem, [float(o.K_T) for o in ps]


# ---------------------------------------------------------------------------
# simulations
# ---------------------------------------------------------------------------

def sbm_spec(rng, rich=True, kind=None):
    kind = kind or rng.choice(['soluble', 'soluble', 'inert'])
    comp = rng.choice(COMPS[:5])
    d = fluid_spec(rng, comp, 0, rich) if kind == 'soluble' else insol_spec(rng, True, rich)
    if kind == 'soluble' and rich and rng.random() < 0.3:
        # one compound under a new, user-defined name
        d['delta_groups'] = d['delta_groups'] if isinstance(d['delta_groups'], list) else None
        d['composition'], d['user_data'] = rename_compound(rng, comp, d['user_data'])
    s = {'model': 'sbm', 'kind': kind, 'dbm': d, 'z0': rng.uniform(80., 350.), 'x0': rng.choice([0., rng.uniform(-10, 10)]),
         'de': rng.uniform(0.002, 0.008), 'yk': mole_fractions(rng, len(comp)) if kind == 'soluble' else [1.],
         'T0': rng.choice([None, rng.uniform(278., 300.)]), 'delta_t': rng.choice([5., 10., 20.])}
    s.update(wrap_spec(rng, rich))
    s['profile'] = profile_spec(rng, H=rng.choice([400., 800.]), current=0.)
    return s


def run_sbm(spec, prf):
    from tamoc import single_bubble_model
    m = single_bubble_model.Model(prf)
    d = build_dbm(spec['dbm'])
    with quiet():
        m.simulate(d, np.array([spec['x0'], 0., spec['z0']]), spec['de'], np.array(spec['yk']), T0=spec['T0'],
                   K=spec['K'], K_T=spec['K_T'], fdis=spec['fdis'], t_hyd=spec['t_hyd'], lag_time=spec['lag_time'],
                   delta_t=spec['delta_t'])
    return m


def _plume_particle_specs(rng, kind, comp, rich, nmax=3):
    n = {'soluble': rng.randint(1, 2), 'inert': rng.randint(1, 2), 'mixed': rng.randint(2, nmax)}[kind]
    out = []
    shared = None
    newname = rich and kind != 'inert' and rng.random() < 0.25
    new_comp = new_ud = None
    for i in range(n):
        sol = kind == 'soluble' or (kind == 'mixed' and i % 2 == 0)
        if sol:
            d = fluid_spec(rng, comp, 0, rich)
            if shared is None:
                shared = d
            else:
                # one user data base per simulation; a later particle may fall back to the built-in one.  delta and
                # delta_groups are drawn per particle (kept from the first one half of the time)
                d['user_data'] = shared['user_data']
                if shared['user_data'] and rng.random() < 0.4:
                    d['user_data'] = {}
                if rng.random() < 0.5:
                    d['delta'], d['delta_groups'] = shared['delta'], shared['delta_groups']
            if newname:
                # every soluble particle of the simulation uses the same composition with the user-defined compound
                if new_comp is None:
                    new_comp, new_ud = rename_compound(rng, comp, {})
                d['composition'] = list(new_comp)
                d['user_data'] = {k: dict(v) for k, v in new_ud.items()}
                d['delta_groups'] = d['delta_groups'] if isinstance(d['delta_groups'], list) else None
            elif rich and shared is not d and rng.random() < 0.25 and len(comp) > 1:
                d['fp_type'] = 1          # a liquid-phase particle next to a gas-phase one
            p = {'dbm': d, 'yk': mole_fractions(rng, len(comp)), 'mb0': rng.uniform(0.02, 0.5), 'de': rng.uniform(0.002, 0.008)}
        else:
            p = {'dbm': insol_spec(rng, True, rich), 'yk': [1.], 'mb0': rng.uniform(0.02, 0.5), 'de': rng.uniform(0.001, 0.005)}
        p.update(wrap_spec(rng, rich))
        # released warmer / colder than the ambient water (heat transfer stays on: K_T0 > 0), or at ambient temperature
        # (the constructor then switches heat transfer off: K_T0 = 0); the first particle is always off-ambient
        p['dT'] = rng.choice([-1., 1.]) * rng.uniform(3., 20.) if (i == 0 or rng.random() < 0.5) else 0.
        out.append(p)
    return out


UNSORTED_COMPS = [['methane', 'ethane'], ['methane', 'ethane', 'propane'], ['propane', 'methane'],
                  ['oxygen', 'nitrogen', 'carbon_dioxide'], ['methane', 'carbon_dioxide']]


def bpm_spec(rng, rich=True, kind=None, ntracers=None, track=None, current=None, unsorted=False, jet_match=False):
    kind = kind or rng.choice(['soluble', 'inert', 'mixed'])
    comp = rng.choice(UNSORTED_COMPS if unsorted else COMPS[:5] + UNSORTED_COMPS[2:])
    ntr = rng.randint(0, 3) if ntracers is None else ntracers
    s = {'model': 'bpm', 'kind': kind, 'composition': comp, 'particles': _plume_particle_specs(rng, kind, comp, rich),
         'z0': rng.uniform(200., 380.), 'D': rng.uniform(0.1, 0.4), 'Vj': rng.choice([0., rng.uniform(0.2, 2.)]),
         'phi_0': rng.choice([-math.pi / 2, -math.pi / 3]), 'theta_0': rng.choice([0., rng.uniform(0., 1.)]),
         'Sj': rng.choice([0., 10.]), 'dTj': rng.choice([0., 5.]),
         'cj': [round(rng.uniform(0.5, 3.), 3) for _ in range(ntr)], 'tracers': ['tracer%d' % i for i in range(ntr)],
         'track': (rng.random() < 0.3) if track is None else track, 'dt_max': 60., 'sd_max': rng.choice([60., 150., 300.])}
    if jet_match:
        # the first particle is released within 0.5 K of the (warm) jet water but more than 0.5 K off the ambient:
        # the constructor keeps its heat transfer on, the first Lagrangian element finds it in equilibrium
        s['dTj'] = 5.
        s['Vj'] = rng.uniform(0.5, 2.)
        s['particles'][0]['dT'] = 5. + rng.uniform(-0.35, 0.35)
        s['particles'][0]['K_T'] = round(rng.uniform(0.5, 1.), 3)
    s['profile'] = profile_spec(rng, H=400., current=current)
    return s


def run_bpm(spec, prf):
    from tamoc import bent_plume_model, dispersed_phases
    m = bent_plume_model.Model(prf)
    z0 = spec['z0']
    Ta = float(prf.get_values(z0, ['temperature'])[0])
    parts = []
    for p in spec['particles']:
        d = build_dbm(p['dbm'])
        with quiet():
            m0, T0, nb0, P, Sa, Tamb = dispersed_phases.initial_conditions(prf, z0, d, np.array(p['yk']), p['mb0'], 2,
                                                                          p['de'], Ta + p.get('dT', 0.))
            parts.append(bent_plume_model.Particle(0., 0., z0, d, m0, T0, nb0, p['lambda_1'], P, Sa, Tamb, K=p['K'],
                                                   K_T=p['K_T'], fdis=p['fdis'], t_hyd=p['t_hyd'],
                                                   lag_time=p['lag_time']))
    with quiet():
        m.simulate(np.array([0., 0., z0]), spec['D'], spec['Vj'], spec['phi_0'], spec['theta_0'], spec['Sj'],
                   Ta + spec['dTj'], np.array(spec['cj'], dtype=float), list(spec['tracers']), parts,
                   track=spec['track'], dt_max=spec['dt_max'], sd_max=spec['sd_max'])
    return m


def spm_spec(rng, rich=True, kind=None, unsorted=False):
    kind = kind or rng.choice(['soluble', 'inert', 'mixed'])
    comp = rng.choice(UNSORTED_COMPS[:3] if unsorted else COMPS[:3] + UNSORTED_COMPS[2:3])
    s = {'model': 'spm', 'kind': kind, 'composition': comp, 'particles': _plume_particle_specs(rng, kind, comp, rich, 2),
         'z0': rng.uniform(60., 110.), 'R': rng.uniform(0.05, 0.2), 'maxit': rng.choice([1, 2]), 'toler': 0.2,
         'delta_z': rng.choice([2., 4.])}
    for p in s['particles']:
        p['mb0'] = rng.uniform(0.01, 0.06)
    s['profile'] = profile_spec(rng, H=400., n=60, current=0.)
    return s


def run_spm(spec, prf):
    from tamoc import stratified_plume_model, dispersed_phases
    m = stratified_plume_model.Model(prf)
    z0 = spec['z0']
    Ta = float(prf.get_values(z0, ['temperature'])[0])
    parts = []
    for p in spec['particles']:
        d = build_dbm(p['dbm'])
        with quiet():
            m0, T0, nb0, P, Sa, Tamb = dispersed_phases.initial_conditions(prf, z0, d, np.array(p['yk']), p['mb0'], 2,
                                                                          p['de'], Ta + p.get('dT', 0.))
            parts.append(dispersed_phases.PlumeParticle(d, m0, T0, nb0, p['lambda_1'], P, Sa, Tamb, K=p['K'],
                                                        K_T=p['K_T'], fdis=p['fdis'], t_hyd=p['t_hyd'],
                                                        lag_time=p['lag_time']))
    with quiet():
        m.simulate(parts, z0, spec['R'], maxit=spec['maxit'], toler=spec['toler'], delta_z=spec['delta_z'], plots=False)
    return m


RUN = {'sbm': run_sbm, 'bpm': run_bpm, 'spm': run_spm}


def jsonable(o):
    if isinstance(o, dict):
        return {str(k): jsonable(v) for k, v in o.items()}
    if isinstance(o, (list, tuple)):
        return [jsonable(v) for v in o]
    if isinstance(o, np.ndarray):
        return o.tolist()
    if isinstance(o, (np.floating, np.integer, np.bool_)):
        return o.item()
    return o
