"""
C19 — Queries are pure and configuration history does not leak.

proof     : TamocV/Props/C19.lean — (a) explicit-store models of the three aliasing sites
            (dbm_p.coefs `delta = delta_in`, ambient.get_values depth clamp, FluidParticle.K) in
            Model/Blowout.lean (namespace Purity19) and Model/Particle09.lean: frame theorems, their
            refutations for the code as written, repeat-call equality over any history;
            (b) Model/Blowout.lean: refresh (foldl apply (construct p) ops) = construct (final p ops)
            under "q_type unchanged", refuted without
tie       : random HISTORIES on real objects: mixture / particle / profile queries with deep snapshots of
            every argument array and of the object's attribute dict before and after each call, repeated
            queries later in the history; particle calls replayed through the Lean model with the recorded
            library table and cache (oracle-table correspondence, as C09); coefs / get_values store
            models against the real routines; Blowout flag machine vs the real flags / get_oil calls
real code : the property predicates themselves: arguments and physical parameters unchanged, repeated
            query bit-equal (mixed-phase: flash tolerance), updated Blowout == fresh Blowout
variant   : the models carry the CODE VARIANT of the former defect sites (`aliased` for dbm_p.coefs, `revisit`
            for Blowout.update_num_oil_elements, `Code` for the particle methods); detect_variants() replays the
            Lean witnesses on the real code on every run, the driver is run with the detected variants, the
            evidence records them and two obligations require the repaired variants (full statements proved)
"""
import math
import time
import copy
import numpy as np
from common import req, close, relerr, TOL, run_driver
import scen_sbm as S
import mixgen
import c09

META = {
    'text': 'Theorems (Lean 4; the models carry the code variant of each former defect site, the harness determines on every run which variant the tree under test is — evidence field code_variant; since commits 04684b2 / 9eabe46 both sites are REPAIRED and the claimed theorems are the FULL statements query_frame and blowout_refines_fresh): (a) over explicit-store models of the three aliasing sites the property names — the interaction matrix handed to dbm_p.coefs by reference, the depth array of ambient.get_values, the FluidParticle.K warm-start cache — frame theorems (caller-visible arrays unchanged) where true (calc_delta <= 0; get_values as repaired) — NOTE: for the REPAIRED variants the frame theorems query_frame, get_values_frame and get_values_repeat are DEFINITIONAL (the repaired model copies by construction, the proofs are rfl): for the tree as it stands, purity of the arguments / parameters and the mixture / profile repeat clauses are decided on the REAL code by the snapshot histories (H), not by these theorems; the theorems with content are the refutations for the former text, the closed form of what coefs overwrote, the history induction for the aliased variant, answer_indep_of_cache/history and the Blowout invariant —, REFUTATION where false for the code as written (calc_delta > 0 overwrites FluidMixture.delta; exact description of what is overwritten), and repeat-call equality of every query after ANY history of queries (by induction over the history; for mixed-phase particles under the stated flash-stability hypothesis, refuted without it); (b) over a model of blowout.Blowout as parameters + flags (update, new_oil, constructor-only q_type), for every sequence of update calls over all 13 update methods: the refreshed object equals the object constructed with the final parameters provided the sequence does not change whether num_oil_elements is positive; the unrestricted statement is REFUTED (witness update_num_oil_elements(0)). Real code: seeded random histories of 1-12 queries on one mixture / particle / profile object with deep snapshots of every argument array and of the attribute dict around every call and repeated queries; random sequences of 1-8 Blowout update calls compared attribute by attribute with a fresh Blowout; the models are tied to the code by replaying the recorded library calls / flags.',
    'note': 'Trusted: Lean kernel + 3 standard axioms; hand transcriptions Model/Blowout.lean, Model/Particle09.lean (validated every run by correspondence); the snapshot / comparison code of the harness. NOT modelled: the equations of state and everything Blowout._update derives (library parameters). Purity of the queries that are not among the three named aliasing sites is SAMPLED by the snapshot histories only. Upstream the warm-start cache is DEAD code (the guard of dbm.equil_MM, isinstance(np.sum(K_0), type(np.nan)) is always true, so the cached FluidParticle.K is stored but never used as an initial guess): on the tree as it stands the hypothesis FlashStable of answer_indep_of_cache / answer_indep_of_history holds exactly and the theorem is exercised only through its hypothesis; that the hypothesis holds (answers independent of the query history, in particular across compositions with different zero-mass patterns) is what the cache histories SAMPLE by comparing every answer with a freshly constructed particle. Scope: generated masses are non-negative (the deliberate in-place clipping m[m<0]=0 of SingleParticle.properties is outside the quantifier); FluidParticle.K is a cache, not a physical parameter.',
    'technique': 'Lean 4 proof over hand-written explicit-store / flag-machine models (induction over call histories) + snapshot histories and fresh-object comparison on the real code + oracle-table correspondence',
}
GEN = []
MODULES = ['TamocV.Props.C19', 'TamocV.Model.Blowout', 'TamocV.Model.Particle09']
RULE = ('histories of 1-12 queries on ONE object: FluidMixture of 1-5 database compounds (binary interaction zero / constant / '
        'group-contribution dict or array; every third mixture and fluid particle built with user_data overriding C_pen / C_pen_T for all or '
        'some components incl. the first, 30 % with user k_bio / t_bio, 30 % of the mixtures with a sigma_correction array) queried with density, fugacity, viscosity, interface_tension, equilibrium, solubility, diffusivity, '
        'masses, moles, mol_frac, mass_frac, partial_pressures, biodegradation_rate over 1-4 interleaved (composition, T, P, S) '
        'states; cache histories: 7-12 queries (density, fugacity, solubility, viscosity, interface_tension, return_all) on ONE fp_type=2 particle of 4-6 '
        'gas+liquid compounds at pre-screened fast two-phase states, interleaving the full composition with 2-3 different zero-mass patterns, every '
        'answer compared with a freshly constructed particle; FluidParticle fp_type 0/1/2 (incl. zero-mass components) and InsolubleParticle queried with every C09 method and '
        'return_all over 1-3 interleaved states; ambient.Profile (synthetic CTD, optional dissolved-gas columns) queried with '
        'get_values (scalar / list / ndarray depths inside, above and below the profile; list or str names incl. unknown names), '
        'get_units, buoyancy_frequency; every (method, state) pair is re-asked later in the history with probability 1/2; '
        'Blowout: initial parameters from 3 substances x 3-5 water data x 3 current data, 1-8 update calls drawn from all 13 update '
        'methods incl. update_water_data with ambient.Profile objects, None and cold / warm surface-water dicts (first every method once as a single-call sequence, the oil bins switched off / on / off-and-back for a live oil, six sequences water dict -> ... -> None); the fresh Blowout is built before AND after each history; a canonical reference set of fresh objects is re-evaluated >= 6 times per run, 40 % of the random sequences switch num_oil_elements or '
        'num_gas_elements to zero (half of them back). A history is '
        'non-trivial when its (object kind, method sequence, state pattern) is new')
LEVEL_NOTE = ('theorems about hand-written store / flag models (all histories, by induction); for the repaired variants of coefs and get_values the '
              'frame / repeat theorems are definitional (rfl) and those clauses are decided by the snapshot histories on the real code (H); 8 of the 17 '
              'pinned theorems concern former (defective) variants that no longer exist in /repo; tied to /repo by snapshot histories and '
              'recorded-call correspondence (sampled); purity of queries outside the three modelled aliasing sites is sampled only')


def extra(ctx):
    v = getattr(ctx, 'code_variant', None)
    if v is None:
        return None
    return {'code_variant': {'coefs_aliases_callers_matrix': bool(v['aliased']), 'update_num_oil_elements_revisits_q_type': bool(v['revisit']),
                             'individual_methods_zero_entry_test': bool(v['zeroEntryTest']),
                             'gas_viscosity_liquid_row': bool(v['gasViscLiquidRow'])},
            'claimed_theorem': ', '.join([
                'TamocV.Props.C19.query_frame (FULL frame statement for coefs)' if not v['aliased'] else
                'TamocV.Props.C19.query_frame_partial + not_query_frame (frame refuted for this tree)',
                'TamocV.Props.C19.blowout_refines_fresh (FULL statement, every update sequence)' if v['revisit'] else
                'TamocV.Props.C19.blowout_refines_fresh_partial + not_blowout_refines_fresh (refuted for this tree)',
                'get_values_frame, query_answer_indep_of_history, answer_indep_of_history (the last under FlashStable for mixed-phase particles)']),
            'definitional_for_the_repaired_variant': 'query_frame, get_values_frame, get_values_repeat are rfl on the repaired model: argument / parameter purity and the mixture / profile repeat clauses are decided by the snapshot histories on the real code (H)',
            'pinned_theorems_about_former_variants': '8 of 17 (query_frame_partial, query_store_after, not_query_frame, store_after_history [content only for the aliased variant], get_values_in_place_not_frame, blowout_refines_fresh_partial, not_blowout_refines_fresh, qType_constructor_only)',
            'flash_warm_start': 'live' if c09.WARM['live'] else 'dead', 'mixed_phase_tolerance': c09.mixed_tol()}


def audit_files():
    return ['TamocV/Num.lean', 'TamocV/Real.lean', 'TamocV/Proto.lean', 'TamocV/Lemmas/Basic.lean', 'TamocV/Lemmas/C09.lean',
            'TamocV/Lemmas/C19.lean', 'TamocV/Model/Particle09.lean', 'TamocV/Model/Blowout.lean', 'TamocV/Props/C19.lean']


# ---------------------------------------------------------------------------
# deep snapshots
# ---------------------------------------------------------------------------

def snap(v, depth=0):
    """deep, comparable copy of an argument / attribute value"""
    if isinstance(v, np.ndarray):
        return ('nd', v.shape, v.dtype.str, v.copy())
    if isinstance(v, (bool, int, float, str, type(None), np.generic)):
        return ('v', v)
    if isinstance(v, dict):
        return ('d', {k: snap(x, depth + 1) for k, x in v.items()})
    if isinstance(v, (list, tuple)):
        return ('l', [snap(x, depth + 1) for x in v])
    tn = type(v).__name__
    if tn == 'Dataset' and hasattr(v, 'data_vars'):          # xarray
        return ('xr', {str(k): np.array(v[k].values, copy=True) for k in list(v.data_vars) + list(v.coords)})
    if tn == 'interp1d':
        return ('ip', np.array(v.x, copy=True), np.array(v.y, copy=True))
    if depth < 2 and hasattr(v, '__dict__') and not callable(v) and not isinstance(v, type):
        # a nested object (e.g. a dbm object held by a wrapper): compared by VALUE of its attributes
        return ('ob', tn, {k: snap(x, depth + 2) for k, x in vars(v).items()})
    return ('o', tn, id(v))


def same(a, b):
    if a[0] != b[0]:
        return False
    t = a[0]
    if t == 'nd':
        return a[1] == b[1] and a[2] == b[2] and _arr_eq(a[3], b[3])
    if t == 'v':
        x, y = a[1], b[1]
        if isinstance(x, float) and isinstance(y, float) and math.isnan(x) and math.isnan(y):
            return True
        return type(x) == type(y) and x == y
    if t == 'd':
        return a[1].keys() == b[1].keys() and all(same(a[1][k], b[1][k]) for k in a[1])
    if t == 'l':
        return len(a[1]) == len(b[1]) and all(same(x, y) for x, y in zip(a[1], b[1]))
    if t == 'xr':
        return a[1].keys() == b[1].keys() and all(_arr_eq(a[1][k], b[1][k]) for k in a[1])
    if t == 'ip':
        return _arr_eq(a[1], b[1]) and _arr_eq(a[2], b[2])
    if t == 'ob':
        return a[1] == b[1] and a[2].keys() == b[2].keys() and all(same(a[2][k], b[2][k]) for k in a[2])
    return a[1:] == b[1:]


def _arr_eq(x, y):
    if x.shape != y.shape:
        return False
    if x.dtype.kind in 'fc':
        return bool(np.array_equal(x, y, equal_nan=True))
    return bool(np.array_equal(x, y))


def raise_site(e):
    """<ExcType>@<innermost tamoc file>:<function> of an exception raised by the code under test"""
    import traceback
    fr = [f for f in traceback.extract_tb(e.__traceback__) if '/tamoc/' in f.filename]
    if fr:
        return '%s@%s:%s' % (type(e).__name__, fr[-1].filename.split('/')[-1], fr[-1].name)
    return '%s@reading-the-object' % type(e).__name__


def note_raise(ctx, kind, method, rk, first, descr, args, e, hist):
    """a query raised inside a history.  If the SAME (method, state) pair answered earlier in this history the raise is a
    history leak -> keyed violation; otherwise it is counted and bounded by the ceiling obligation of run()."""
    ctx.raised_calls += 1
    ctx.count('raised:%s.%s' % (kind, method))
    ctx.notes_raise.setdefault('%s.%s' % (kind, method), (descr, args, '%s: %s' % (type(e).__name__, str(e)[:120])))
    if rk in first:
        ctx.violation('repeat-raised:%s.%s:%s' % (kind, method, raise_site(e)),
                      'a query that answered earlier in the history raises when asked again on the same object',
                      dict(object=descr, history=[h[:2] for h in hist], method=method, first_asked_at=first[rk][0],
                           exception='%s: %s' % (type(e).__name__, str(e)[:200])))


def attrs(obj, skip=()):
    return {k: snap(v) for k, v in obj.__dict__.items() if k not in skip}


def changed(before, after):
    return sorted([k for k in before if k not in after or not same(before[k], after[k])] +
                  [k for k in after if k not in before])


def describe(s):
    """short printable form of a snapshot"""
    if s[0] == 'nd':
        return np.round(s[3], 6).tolist() if s[3].size <= 25 else 'ndarray%r' % (s[1],)
    if s[0] == 'v':
        return s[1]
    return s[0]


# ---------------------------------------------------------------------------
# constructor options that hand arrays to the library BY REFERENCE (non-default values)
# ---------------------------------------------------------------------------

def user_options(r, comp, idx, for_particle=False):
    """constructor keyword arguments with NON-DEFAULT by-reference parameters.  Every third object (idx % 3 == 0, i.e. a
    fixed share >= 30 %) gets user_data overriding the Peneloux volume shift C_pen / C_pen_T with non-zero values — for all
    components or for some components only, always incl. the FIRST (whose C_pen selects the user branch of
    dbm_p.volume_trans); independently user k_bio / t_bio, a user delta matrix, a delta_groups dict / ARRAY and (mixture
    only) a sigma_correction array.  returns (kw, description)"""
    from tamoc import dbm
    from tamoc import chemical_properties as cp
    n = len(comp)
    kw, d = {}, dict(user_C_pen=None, user_bio=False)
    ud = {}
    chem, _cu, bio, _bu, _pj, _pju = cp.tamoc_data()

    def props_of(c):
        if c not in ud:
            p = dict(chem[c])
            p.update(bio[c])
            ud[c] = p
        return ud[c]
    if idx % 3 == 0:
        some = n >= 2 and r.random() < 0.5
        who = [comp[0]] + (r.sample(list(comp[1:]), r.randint(0, n - 2)) if some else list(comp[1:]))
        for c in who:
            p = props_of(c)
            p['C_pen'] = r.choice([-1, 1]) * r.uniform(5e-7, 5e-6)
            p['C_pen_T'] = r.choice([-1, 1]) * r.uniform(2e-9, 2e-8)
        d['user_C_pen'] = {c: (ud[c]['C_pen'], ud[c]['C_pen_T']) for c in who}
    if r.random() < 0.3:
        for c in r.sample(list(comp), r.randint(1, n)):
            p = props_of(c)
            p['k_bio'] = r.uniform(1e-7, 1e-5)
            p['t_bio'] = r.uniform(0., 5e5)
        d['user_bio'] = True
    if ud:
        kw['user_data'] = ud
    dm = r.choice(['zero', 'zero', 'const', 'groups', 'groups-array'])
    if dm == 'const':
        m = np.zeros((n, n))
        for i in range(n):
            for j in range(i + 1, n):
                m[i, j] = m[j, i] = r.uniform(-0.05, 0.15)
        kw['delta'] = m
    elif dm == 'groups':
        kw['delta_groups'] = {}
    elif dm == 'groups-array':
        with S.quiet():
            g = np.array(dbm.FluidMixture(list(comp), delta_groups={}).delta_groups, dtype=float)
        if g.shape == (n, 15) and np.all(g.sum(axis=1) > 0):
            kw['delta_groups'] = g
        else:
            dm = 'groups'
            kw['delta_groups'] = {}
    d['delta_mode'] = dm
    if not for_particle and r.random() < 0.3:
        kw['sigma_correction'] = np.array([[r.uniform(0.5, 1.5)], [r.uniform(0.5, 1.5)]])
        d['sigma_correction'] = kw['sigma_correction'].ravel().tolist()
    d['delta'] = kw['delta'].tolist() if 'delta' in kw else None
    return kw, d


# ---------------------------------------------------------------------------
# (a1) mixture histories
# ---------------------------------------------------------------------------

MIX_METHODS = ['density', 'fugacity', 'viscosity', 'interface_tension', 'equilibrium', 'solubility', 'diffusivity', 'masses',
               'moles', 'mol_frac', 'mass_frac', 'partial_pressures', 'biodegradation_rate']


def mix_args(method, stt):
    m = np.array(stt['m'], dtype=float)
    if method in ('density', 'fugacity', 'viscosity', 'equilibrium'):
        return [m, stt['T'], stt['P']]
    if method == 'interface_tension':
        return [m, stt['T'], stt['S'], stt['P']]
    if method == 'solubility':
        return [m, stt['T'], stt['P'], stt['S']]
    if method == 'diffusivity':
        return [stt['T'], stt['S'], stt['P']]
    if method in ('masses', 'mass_frac'):
        return [np.array(stt['n'], dtype=float)]
    if method in ('moles', 'mol_frac'):
        return [m]
    if method == 'partial_pressures':
        return [m, stt['P']]
    if method == 'biodegradation_rate':
        return [stt['t'], stt['lag']]
    raise KeyError(method)


def run_history(ctx, obj, kind, descr, steps, call, cache_attrs=(), tol_of=None, model=None):
    """steps: list of (method, state-id, args-factory); runs them on obj with snapshots; returns violations found.
    `call(obj, method, args)` -> result; `tol_of(method, sid)` tolerance for repeat equality"""
    first = {}
    hist = []
    for j, (method, sid, mk) in enumerate(steps):
        args = mk()
        a0 = [snap(a) for a in args]
        o0 = attrs(obj, skip=cache_attrs)
        try:
            with S.quiet():
                res = call(obj, method, args)
            out = c09.flat(res if not isinstance(res, dict) else sorted(res.items()))
        except Exception as e:
            hist.append((method, sid, 'raised %s' % type(e).__name__))
            note_raise(ctx, kind, method, (method, sid), first, descr, [describe(a) for a in a0], e, hist)
            continue
        ctx.total_calls += 1
        a1 = [snap(a) for a in args]
        o1 = attrs(obj, skip=cache_attrs)
        ctx.evaluations += 1
        hist.append((method, sid))
        case = dict(object=descr, history=[h[:2] for h in hist], failing_call=j, method=method,
                    arguments_before=[describe(a) for a in a0])
        for k, (x, y) in enumerate(zip(a0, a1)):
            if not same(x, y):
                ctx.violation('argument-mutated:%s.%s' % (kind, method), 'a query altered the caller\'s argument array',
                              dict(case, argument_index=k, argument_after=describe(y)))
        ch = changed(o0, o1)
        if ch:
            for k in ch:
                key = 'coefs-delta-alias' if (k == 'delta' and kind in ('mixture', 'particle')) else \
                    'attribute-mutated:%s.%s:%s' % (kind, method, k)
                what = ('FluidMixture.delta is handed to dbm_p.coefs by reference (delta = delta_in) and overwritten with the '
                        'group-contribution values when delta_groups are in use' if key == 'coefs-delta-alias'
                        else 'a query altered the object\'s attribute %s' % k)
                ctx.violation(key, what, dict(case, attribute=k, before=describe(o0[k]) if k in o0 else None,
                                              after=describe(o1[k]) if k in o1 else None))
        rk = (method, sid)
        if rk in first:
            ctx.count('repeated query compared')
            tol = tol_of(method, sid) if tol_of else 0.
            if not close(out, first[rk][1], tol):
                ctx.violation('repeat-differs:%s.%s' % (kind, method), 'the same query asked again later in the history gives a different answer',
                              dict(case, first_asked_at=first[rk][0], first_answer=first[rk][1], answer_now=out, tolerance=tol))
        else:
            first[rk] = (j, out)
    return hist


def mixture_histories(ctx, r, n):
    from tamoc import dbm

    def call(obj, method, args):
        return getattr(obj, method)(*args)
    ctx.planned['mixture-equilibrium'] = n
    for hidx in range(n):
        comp = mixgen.composition(r, 1, 5)
        kw, d = user_options(r, comp, hidx)
        with S.quiet():
            fm = dbm.FluidMixture(list(comp), **kw)
        d['composition'] = list(comp)
        ctx.objects['mixture'] = ctx.objects.get('mixture', 0) + 1
        if d['user_C_pen'] and fm.C_pen[0] != 0. and np.any(fm.C_pen_T != 0.):
            ctx.objects['mixture-user-C_pen'] = ctx.objects.get('mixture-user-C_pen', 0) + 1
            ctx.count('mixture object with user C_pen / C_pen_T (%s components)' % ('all' if len(d['user_C_pen']) == len(comp) else 'some'))
        nc = len(d['composition'])
        states = []
        for _k in range(r.randint(1, 4)):
            m = mixgen.masses(r, nc)
            if nc > 1 and r.random() < 0.25:
                m[r.randrange(nc)] = 0.
            states.append(dict(m=[float(v) for v in m], n=[float(v) for v in mixgen.masses(r, nc)], T=r.uniform(273.15, 320.),
                               P=math.exp(r.uniform(math.log(1e5), math.log(4e7))), S=r.choice([0., 35., r.uniform(0., 36.)]),
                               t=r.choice([0., r.uniform(0., 1e6)]), lag=r.random() < 0.5))
        steps = []
        pairs = []
        for _j in range(r.randint(1, 12)):
            if pairs and r.random() < 0.5:
                method, sid = r.choice(pairs)
            else:
                method, sid = r.choice(MIX_METHODS), r.randrange(len(states))
                pairs.append((method, sid))
            if method == 'equilibrium' and 'slow' not in states[sid]:
                t0 = time.time()
                try:
                    with S.quiet(), c09.time_limit(1.0):
                        fm.equilibrium(np.array(states[sid]['m']), states[sid]['T'], states[sid]['P'])
                except Exception:       # incl. c09.FlashTimeout
                    pass
                states[sid]['slow'] = (time.time() - t0) > 0.06
            if method == 'equilibrium' and states[sid]['slow']:
                ctx.count('mixture equilibrium query skipped (flash slower than 60 ms)')
                ctx.skips['mixture-equilibrium'] = ctx.skips.get('mixture-equilibrium', 0) + 1
                pairs = [pq for pq in pairs if pq != (method, sid)]
                continue
            steps.append((method, sid, (lambda method=method, sid=sid: mix_args(method, states[sid]))))
        if not steps:
            continue
        descr = dict(kind='mixture', states=states, **d)
        hist = run_history(ctx, fm, 'mixture', descr, steps, call)
        ctx.count('mixture history delta=%s' % d['delta_mode'])
        ctx.nontrivial.add(('mixture', d['delta_mode'], nc, tuple(h[:2] for h in hist)))
        if len(ctx.samples) < 2:
            ctx.sample({'object': d, 'history': [h[:2] for h in hist]})


# ---------------------------------------------------------------------------
# (a2) particle histories (with the Lean model of the cache)
# ---------------------------------------------------------------------------

def particle_histories(ctx, r, n, lines, owners):
    ctx.planned['particle'] = n
    from tamoc import dbm
    nfluid = 0
    with c09.LibRecorder() as rec:
        for hidx in range(n):
            kind = r.choice(['fluid', 'fluid', 'fluid', 'inert'])
            if kind == 'fluid':
                obj, descr, yk = c09.gen_fluid(r, r.choice([0, 1, 2, 2]))
                # the same particle with non-default by-reference constructor data (user Peneloux shift, k_bio / t_bio,
                # delta matrix / group arrays): every third fluid object carries a user C_pen / C_pen_T
                kw, du = user_options(r, descr['composition'], nfluid, for_particle=True)
                nfluid += 1
                with S.quiet():
                    obj = dbm.FluidParticle(list(descr['composition']), fp_type=descr['fp_type'], isair=descr['isair'],
                                            sigma_correction=descr['sigma_correction'], **kw)
                descr.update(delta_mode=du['delta_mode'], delta=du['delta'], user_C_pen=du['user_C_pen'], user_bio=du['user_bio'])
                ctx.objects['particle'] = ctx.objects.get('particle', 0) + 1
                if du['user_C_pen'] and obj.C_pen[0] != 0. and np.any(obj.C_pen_T != 0.):
                    ctx.objects['particle-user-C_pen'] = ctx.objects.get('particle-user-C_pen', 0) + 1
                    ctx.count('particle object with user C_pen / C_pen_T')
                methods = c09.FLUID_METHODS
            else:
                obj, descr = c09.gen_inert(r)
                methods = c09.INERT_METHODS
            states = []
            skip_obj = False
            for _k in range(r.randint(1, 3)):
                st = c09.gen_state(r)
                if kind == 'fluid':
                    yk2 = yk if r.random() < 0.5 else S.random_yk(r, len(yk)) * (yk > 0)
                    yk2 = yk2 / yk2.sum()
                    m = c09.fluid_masses(obj, yk2, st, descr['fp_type'])
                    if descr['fp_type'] == 2 and st['t_flash'] > 0.06:
                        skip_obj = True
                        break
                    x = dict(m=[float(v) for v in m], T=st['T'], P=st['P'], Sa=st['Sa'], Ta=st['Ta'], status=st['status'])
                else:
                    with S.quiet():
                        m = float(obj.mass_by_diameter(st['de'], st['T'], st['P'], st['Sa'], st['Ta']))
                    x = dict(m=m, T=st['T'], P=st['P'], Sa=st['Sa'], Ta=st['Ta'], status=st['status'])
                states.append(x)
            if skip_obj:
                ctx.count('mixed-phase object skipped (flash slower than 60 ms)')
                ctx.skips['particle'] = ctx.skips.get('particle', 0) + 1
                continue
            if kind == 'fluid':
                obj.K = None
            mixed = kind == 'fluid' and descr['fp_type'] == 2
            pairs = []
            steps = []
            for _j in range(r.randint(1, 12)):
                if pairs and r.random() < 0.5:
                    method, sid = r.choice(pairs)
                else:
                    method, sid = r.choice(methods), r.randrange(len(states))
                    pairs.append((method, sid))
                steps.append((method, sid, None))
            # run with snapshots + recorder (arguments: the mass array is the only array argument)
            first = {}
            hist = []
            for j, (method, sid, _n) in enumerate(steps):
                x = states[sid]
                xa = dict(x)
                marr = np.array(x['m'], dtype=float) if kind == 'fluid' else x['m']
                xa['m'] = marr
                a0 = snap(marr)
                o0 = attrs(obj, skip=('K',))
                K0 = None if kind != 'fluid' or obj.K is None else np.array(obj.K, dtype=float, copy=True)
                rec.start(obj)
                try:
                    with S.quiet():
                        o = (c09.call_fluid if kind == 'fluid' else c09.call_inert)(obj, method, xa)
                    out = c09.norm_out(kind, method, o)
                except Exception as e:
                    rec.stop()
                    note_raise(ctx, 'particle', method, (method, sid), first, descr, x, e, hist)
                    continue
                ctx.total_calls += 1
                table = rec.stop()
                K1 = None if kind != 'fluid' or obj.K is None else np.array(obj.K, dtype=float, copy=True)
                a1 = snap(marr)
                o1 = attrs(obj, skip=('K',))
                ctx.evaluations += 1
                hist.append((method, sid))
                case = dict(object=descr, states=states, history=list(hist), failing_call=j, method=method)
                if not same(a0, a1):
                    ctx.violation('argument-mutated:particle.%s' % method, 'a query altered the caller\'s mass array',
                                  dict(case, after=describe(a1)))
                for k in changed(o0, o1):
                    key = 'coefs-delta-alias' if k == 'delta' else 'attribute-mutated:particle.%s:%s' % (method, k)
                    what = ('FluidMixture.delta is handed to dbm_p.coefs by reference (delta = delta_in) and overwritten with the '
                            'group-contribution values when delta_groups are in use' if k == 'delta'
                            else 'a query altered the object\'s attribute %s' % k)
                    ctx.violation(key, what, dict(case, attribute=k, before=describe(o0.get(k, ('v', None))),
                                                  after=describe(o1.get(k, ('v', None)))))
                flatout = c09.flat(tuple(out))
                rk = (method, sid)
                if rk in first:
                    ctx.count('repeated query compared' + (' (mixed-phase)' if mixed else ''))
                    tol = c09.mixed_tol() if mixed else 0.
                    if not close(flatout, first[rk][1], tol):
                        ctx.violation('repeat-differs:particle.%s' % method,
                                      'the same particle query asked again later in the history gives a different answer',
                                      dict(case, first_asked_at=first[rk][0], first_answer=first[rk][1], answer_now=flatout,
                                           cache_before=None if K0 is None else K0.tolist(), tolerance=tol))
                else:
                    first[rk] = (j, flatout)
                rr = dict(K0=K0, K1=K1, out=out, table=table)
                if kind == 'fluid':
                    lines.append(c09.fluid_line(descr, obj, x, method, K0, table))
                else:
                    lines.append(c09.inert_line(descr, x, method, table))
                owners.append(('particle', kind, method, rr, descr, x))
            ctx.count('particle history %s fp_type=%s' % (kind, descr.get('fp_type')))
            ctx.nontrivial.add(('particle', kind, descr.get('fp_type'), tuple(hist)))
            if len(ctx.samples) < 4:
                ctx.sample({'object': descr, 'history': hist})


# ---------------------------------------------------------------------------
# (a2') cache histories: ONE mixed-phase particle, interleaved zero patterns, every answer vs a FRESH particle
# ---------------------------------------------------------------------------

CACHE_GAS = ['methane', 'ethane', 'propane', 'carbon_dioxide', 'nitrogen', 'n-butane']
CACHE_LIQ = ['n-hexane', 'toluene', 'benzene', 'n-heptane', 'n-decane', 'ethylbenzene', 'n-pentane']
CACHE_METHODS = ['density', 'fugacity', 'solubility', 'viscosity', 'interface_tension', 'return_all']


def cache_histories(ctx, r, n):
    """histories on ONE fp_type=2 particle of >= 4 compounds that interleave full compositions with compositions
    having zero-mass components (different zero patterns) at two-phase states; EVERY answer is compared with the answer
    of a freshly constructed particle (flash tolerance).  A warm start from the cached partition coefficients that
    carries information from one composition to the next (e.g. K = 0 of a missing component pinning it out of the gas
    phase later) shows up here."""
    from tamoc import dbm
    stats = dict(after_other_pattern=0, two_phase=0)

    def fresh(comp):
        with S.quiet():
            return dbm.FluidParticle(list(comp), fp_type=2)

    def flash_kind(p, m, T, P):
        """'mix' | 'gas' | 'liq' | None (slow / raised) of a cold flash, time-limited"""
        t0 = time.time()
        try:
            with S.quiet(), c09.time_limit(1.0):
                mi, _xi, _K = p.equilibrium(np.array(m, dtype=float), T, P)
        except Exception:
            return None
        if time.time() - t0 > 0.06:
            return None
        g, l = float(np.sum(mi[0, :])), float(np.sum(mi[1, :]))
        return 'liq' if g == 0. else ('gas' if l == 0. else 'mix')

    ctx.planned['cache-history'] = 10 * n          # about 10 queries per history
    done = 0
    attempts = 0
    while done < n and attempts < 6 * n:
        attempts += 1
        nc = r.randint(4, 6)
        ng = r.randint(2, nc - 2)
        comp = r.sample(CACHE_GAS, ng) + r.sample(CACHE_LIQ, nc - ng)
        r.shuffle(comp)
        obj = fresh(comp)
        full = np.array([r.uniform(0.1, 1.) for _ in range(nc)]) * 1e-6
        # two-phase states for the full composition, fast flashes only
        states = []
        for _k in range(12):
            T, P = r.uniform(275., 305.), math.exp(r.uniform(math.log(3e5), math.log(8e6)))
            if flash_kind(obj, full, T, P) == 'mix':
                states.append((T, P, r.choice([0., 35., r.uniform(0., 36.)]), r.uniform(273.15, 300.)))
            if len(states) == 2:
                break
        if not states:
            ctx.count('cache history: composition without a fast two-phase state (redrawn)')
            continue
        # compositions: the full one + 2-3 different zero patterns (fast flashes at every state)
        comps = [('full', full)]
        seen = set()
        for _k in range(8):
            zero = tuple(sorted(r.sample(range(nc), r.randint(1, nc - 2))))
            if zero in seen:
                continue
            mz = np.array([r.uniform(0.1, 1.) for _ in range(nc)]) * 1e-6 if r.random() < 0.5 else full.copy()
            mz[list(zero)] = 0.
            if all(flash_kind(obj, mz, T, P) is not None for T, P, _s, _ta in states):
                seen.add(zero)
                comps.append((zero, mz))
            if len(comps) == 4:
                break
        if len(comps) < 3:
            ctx.count('cache history: zero patterns with slow flashes (redrawn)')
            continue
        obj.K = None
        descr = dict(kind='cache-history', composition=comp, fp_type=2,
                     compositions=[(list(z) if z != 'full' else 'full', [float(v) for v in m]) for z, m in comps],
                     states=[list(s) for s in states])
        hist = []
        prev = None
        for j in range(r.randint(7, 12)):
            # mostly switch to a composition with a different zero pattern than the previous call
            cands = [k for k in range(len(comps)) if k != prev] if (prev is not None and r.random() < 0.85) else list(range(len(comps)))
            ci = r.choice(cands)
            if j == 1 and prev != 0:
                ci = 0                  # a full composition right after a composition with missing components
            zpat, m = comps[ci]
            T, P, Sa, Ta = r.choice(states)
            method = r.choice(CACHE_METHODS)
            x = dict(m=np.array(m, dtype=float), T=T, P=P, Sa=Sa, Ta=Ta, status=-1)
            xf = dict(x, m=np.array(m, dtype=float))
            fr = fresh(comp)
            fk = flash_kind(fr, m, T, P)
            # the fresh particle first: if IT cannot answer, the query is no valid reference (bounded skip)
            try:
                with S.quiet(), c09.time_limit(5.0):
                    fr.K = None
                    ref = c09.flat(tuple(c09.norm_out('fluid', method, c09.call_fluid(fr, method, xf))))
            except Exception as e:
                ctx.count('cache history query skipped: the fresh particle raised or timed out (%s)' % method)
                ctx.skips['cache-history'] = ctx.skips.get('cache-history', 0) + 1
                continue
            try:
                with S.quiet(), c09.time_limit(5.0):
                    got = c09.flat(tuple(c09.norm_out('fluid', method, c09.call_fluid(obj, method, x))))
            except Exception as e:
                ctx.violation('cache-leak-raised:particle.%s:%s' % (method, raise_site(e)),
                              'a mixed-phase FluidParticle query that a freshly constructed particle answers (within 5 s) raises or does not '
                              'return on an object that has answered other queries before',
                              dict(object=descr, history=list(hist), method=method, masses=[float(v) for v in m], T=T, P=P, Sa=Sa, Ta=Ta,
                                   exception='%s: %s' % (type(e).__name__, str(e)[:200]), answer_on_fresh_object=ref))
                obj.K = None
                prev = None
                continue
            ctx.evaluations += 1
            hist.append((method, 'full' if zpat == 'full' else list(zpat), round(T, 3), round(P, 1)))
            if prev is not None and prev != ci:
                stats['after_other_pattern'] += 1
                ctx.count('mixed-phase query after a query with a different zero pattern on the same object')
                if fk == 'mix':
                    stats['two_phase'] += 1
                    ctx.count('... of which two-phase at the call state')
            if not close(got, ref, c09.mixed_tol()):
                worst = max([relerr(a, b) for a, b in zip(got, ref) if math.isfinite(a) and math.isfinite(b)] + [0.])
                ctx.violation('cache-leak:particle.%s' % method,
                              'the answer of a mixed-phase FluidParticle query depends on the queries made before on the same object '
                              '(warm start from the cached partition coefficients FluidParticle.K): it differs from the answer of a freshly '
                              'constructed particle beyond the flash tolerance',
                              dict(object=descr, history=list(hist), failing_call=len(hist) - 1, method=method,
                                   masses=[float(v) for v in m], T=T, P=P, Sa=Sa, Ta=Ta, flash_at_call_state=fk,
                                   answer_on_history_object=got, answer_on_fresh_object=ref, worst_relative_difference=worst,
                                   tolerance=c09.mixed_tol()))
            prev = ci
        done += 1
        ctx.count('cache history (one fp_type=2 particle, interleaved zero patterns)')
        ctx.nontrivial.add(('cache-history', tuple(comp), tuple((h[0], tuple(h[1]) if h[1] != 'full' else 'full') for h in hist)))
        if len([s for s in ctx.samples if s.get('object', {}).get('kind') == 'cache-history']) < 1:
            ctx.sample({'object': descr, 'history': hist})
    ctx.oblige('cache histories: at least 20 mixed-phase queries follow a query with a different zero pattern on the same '
               'object (%d), at least 10 of them two-phase at the call state (%d); every answer compared with a fresh particle'
               % (stats['after_other_pattern'], stats['two_phase']),
               stats['after_other_pattern'] >= 20 and stats['two_phase'] >= 10,
               'generator floor not reached: %r' % (stats,))


# ---------------------------------------------------------------------------
# (a3) profile histories
# ---------------------------------------------------------------------------

def profile_histories(ctx, r, n, lines, owners):
    for _ in range(n):
        chems = r.choice([[], [], ['methane'], ['oxygen', 'nitrogen']])
        prf = S.synthetic_profile(r, chems=chems, z_top=r.choice([0., 0., 5.]))
        zmin, zmax = float(prf.z_min), float(prf.z_max)
        known = ['temperature', 'salinity', 'pressure'] + chems
        used = []
        orig_f = prf.f

        def f(z, _o=orig_f):
            used.append(np.array(z, dtype=float, copy=True))
            return _o(z)
        prf.f = f
        zs = []
        for _k in range(r.randint(1, 4)):
            kind = r.choice(['scalar', 'list', 'array', 'array', 'array'])
            nz = 1 if kind == 'scalar' else r.randint(1, 6)
            vals = [r.choice([r.uniform(zmin, zmax), r.uniform(zmin, zmax), zmin, zmax, zmin - r.uniform(0.1, 50.),
                              zmax + r.uniform(0.1, 2000.)]) for _q in range(nz)]
            names = r.choice([known[:3], [r.choice(known)], r.choice(known), known + ['no_such_variable'], ['ua', 'va'], list(reversed(known))])
            zs.append((kind, vals, names))
        steps = []
        pairs = []
        for _j in range(r.randint(1, 12)):
            if pairs and r.random() < 0.5:
                method, sid = r.choice(pairs)
            else:
                method, sid = r.choice(['get_values', 'get_values', 'get_values', 'get_units', 'buoyancy_frequency']), r.randrange(len(zs))
                pairs.append((method, sid))

            def mk(method=method, sid=sid):
                kind, vals, names = zs[sid]
                z = vals[0] if kind == 'scalar' else (list(vals) if kind == 'list' else np.array(vals, dtype=float))
                nm = list(names) if isinstance(names, list) else names
                if method == 'get_values':
                    return [z, nm]
                if method == 'get_units':
                    return [nm]
                # buoyancy_frequency documents a ValueError outside the CTD range: ask inside only
                zi = [min(max(v, zmin + 1.), zmax - 1.) for v in vals]
                return [zi[0] if kind == 'scalar' else np.array(zi, dtype=float)]
            steps.append((method, sid, mk))

        def call(obj, method, args):
            del used[:]
            res = getattr(obj, method)(*args)
            if method == 'get_values' and isinstance(args[0], np.ndarray):
                # correspondence of the clamp model: depths handed to the interpolator, caller's array afterwards
                lines.append(req('Pur19.get_values', zmin, zmax, np.array(call.z_before, dtype=float)))
                owners.append(('get_values', used[0].tolist() if used else None, np.array(args[0], dtype=float).tolist()))
            if method == 'get_units':
                return [0.]          # strings: only purity is checked
            return res
        # remember the ndarray argument as it was before the call (the factory makes a fresh one per call)
        wrapped = []
        for method, sid, mk in steps:
            def mk2(mk=mk):
                a = mk()
                call.z_before = np.array(a[0], dtype=float, copy=True) if isinstance(a[0], np.ndarray) else None
                return a
            wrapped.append((method, sid, mk2))
        descr = dict(kind='profile', z_min=zmin, z_max=zmax, chems=chems, queries=[(k, v, nm) for k, v, nm in zs])
        hist = run_history(ctx, prf, 'profile', descr, wrapped, call, cache_attrs=('f',))
        prf.f = orig_f
        ctx.count('profile history')
        ctx.nontrivial.add(('profile', tuple(hist), tuple(k for k, _v, _n in zs)))
        if len([s for s in ctx.samples if s.get('object', {}).get('kind') == 'profile']) < 1:
            ctx.sample({'object': descr, 'history': hist})


# ---------------------------------------------------------------------------
# coefs store model vs the real routine
# ---------------------------------------------------------------------------

VARIANT = {'aliased': 1, 'revisit': 0}


def detect_variants(ctx):
    """which text of the defect sites the tree under test has (Lean witnesses replayed on the real code)"""
    from tamoc import dbm, blowout
    c09.detect_code_variant(ctx)
    c09.detect_warm_start(ctx)
    with S.quiet():
        fm = dbm.FluidMixture(['methane', 'n-decane'], delta_groups={})
        store = np.zeros((2, 2))
        dbm.dbm_f.coefs(300., 1e7, np.array([0.5, 0.5]), fm.M, fm.Pc, fm.Tc, fm.omega, store, fm.Aij, fm.Bij, fm.delta_groups,
                        fm.calc_delta)
    VARIANT['aliased'] = int(bool(np.any(store != 0.)))
    z = np.linspace(0., 1500., 30)
    data = np.vstack((z, 277.15 + 16. * np.exp(-z / 300.), 34.5 + 0.5 * (1. - np.exp(-z / 500.)))).T
    with S.quiet():
        from tamoc import ambient
        prf = ambient.Profile(data, ztsp=['z', 'temperature', 'salinity', 'pressure'], ztsp_units=['m', 'K', 'psu', 'Pa'])
        b = blowout.Blowout(z0=800., d0=0.2, substance=SUBSTANCES[1], q_oil=20000., gor=500., num_gas_elements=2,
                            num_oil_elements=2, water=prf, current=np.array([0.05, 0., 0.]))
        b.update_num_oil_elements(0)
    VARIANT['revisit'] = int(b.q_type == 0)
    ctx.notes.append('code variant of the tree under test: dbm_p.coefs %s; Blowout.update_num_oil_elements %s' %
                     ('writes into the caller\'s matrix (delta = delta_in, as first read)' if VARIANT['aliased'] else 'works on a copy (repaired)',
                      're-evaluates q_type (repaired)' if VARIANT['revisit'] else 'leaves q_type as chosen in __init__ (as first read)'))


def pr_pure(T, fm):
    """independent re-statement (harness) of the pure-component Peng-Robinson coefficients of dbm_p.coefs"""
    from tamoc import dbm_p
    RU = dbm_p.RU
    om = np.asarray(fm.omega, dtype=float)
    mu = np.where(om > 0.49, 0.379642 + 1.48503 * om - 0.164423 * om ** 2 + 0.016666 * om ** 3,
                  0.37464 + 1.54226 * om - 0.26992 * om ** 2)
    alpha = (1. + mu * (1. - np.sqrt(T / fm.Tc))) ** 2
    aTk = 0.45724 * RU ** 2 * fm.Tc ** 2 / fm.Pc * alpha
    bk = 0.0778 * RU * fm.Tc / fm.Pc
    return aTk, bk, RU


def gc_independent(T, fm):
    """the Privat-Jaubert group-contribution coefficients, computed by the harness (vectorised, NaN terms skipped as in the
    routine) — NOT read back from what the routine wrote"""
    nc = len(fm.M)
    aTk, bk, _RU = pr_pure(T, fm)
    g, A, B = np.asarray(fm.delta_groups, dtype=float), np.asarray(fm.Aij, dtype=float), np.asarray(fm.Bij, dtype=float)
    with np.errstate(all='ignore'):
        E = (298.15 / T) ** (B / A - 1.)
    gc = np.zeros((nc, nc))
    for j in range(1, nc):
        for i in range(j):
            d = g[i, :] - g[j, :]
            with np.errstate(all='ignore'):
                s1 = np.nansum(np.outer(d, d) * A * E)
            gc[i, j] = -(0.5 * s1 + (np.sqrt(aTk[i]) / bk[i] - np.sqrt(aTk[j]) / bk[j]) ** 2) / \
                (2. * np.sqrt(aTk[i] * aTk[j]) / (bk[i] * bk[j]))
    return gc


def A_from_delta(T, P, m, fm, delta):
    """the non-dimensional mixture coefficient A that the mixing rule gives for an interaction matrix `delta`"""
    aTk, _bk, RU = pr_pure(T, fm)
    n = np.asarray(m, dtype=float) / fm.M
    yk = n / n.sum()
    s = np.sqrt(np.outer(aTk, aTk)) * (1. - delta)
    aT = float(yk @ s @ yk)
    return aT * P / (RU ** 2 * T ** 2)


def coefs_cases(ctx, r, n, lines, owners):
    from tamoc import dbm
    lib = dbm.dbm_f
    for _ in range(n):
        nc = r.randint(1, 5)
        fm, d = mixgen.mixture(r, nmin=nc, nmax=nc, delta_mode=r.choice(['groups', 'groups', 'zero', 'const']), peneloux=False)
        store = np.array([[r.uniform(-0.1, 0.2) for _j in range(nc)] for _i in range(nc)])      # incl. a non-zero diagonal
        store = 0.5 * (store + store.T)                     # a user-supplied interaction matrix is symmetric
        before = store.copy()
        T, P = r.uniform(273.15, 320.), math.exp(r.uniform(math.log(1e5), math.log(4e7)))
        m = mixgen.masses(r, nc)
        with S.quiet():
            A_real = float(lib.coefs(T, P, m, fm.M, fm.Pc, fm.Tc, fm.omega, store, fm.Aij, fm.Bij, fm.delta_groups,
                                     fm.calc_delta)[0])
        gc = gc_independent(T, fm) if fm.calc_delta > 0 else np.zeros((nc, nc))
        lines.append(req('Pur19.coefs', int(VARIANT['aliased']), int(fm.calc_delta > 0), nc, before.ravel(), gc.ravel()))
        owners.append(('coefs', store.ravel().tolist(), int(fm.calc_delta > 0), d,
                       dict(T=T, P=P, m=m, fm=fm, A_real=A_real, nc=nc, before=before.ravel().tolist())))
        ctx.count('coefs calc_delta=%+d' % fm.calc_delta)
        ctx.evaluations += 1


# ---------------------------------------------------------------------------
# (b) Blowout
# ---------------------------------------------------------------------------

SUBSTANCES = [
    {'composition': ['n-hexane', '2-methylpentane', '3-methylpentane', 'neohexane', 'n-heptane', 'benzene', 'toluene',
                     'ethylbenzene', 'n-decane'],
     'masses': np.array([0.04, 0.07, 0.08, 0.09, 0.11, 0.12, 0.15, 0.18, 0.16])},
    {'composition': ['n-hexane', 'toluene', 'n-decane'], 'masses': np.array([0.3, 0.3, 0.4])},
    {'composition': ['methane', 'ethane', 'propane', 'toluene', 'benzene'], 'masses': np.array([0.2, 0.03, 0.02, 0.25, 0.5])},
]
OPS = ['release_depth', 'orifice_diameter', 'substance', 'q_oil', 'gor', 'produced_water', 'vertical_orientation',
       'horizontal_orientation', 'num_gas_elements', 'num_oil_elements', 'water_data', 'current_data', 'track_particles']
PARAM_ATTR = ['z0', 'd0', 'substance', 'q_oil', 'gor', 'x0', 'y0', 'u0', 'phi_0', 'theta_0', 'num_gas_elements',
              'num_oil_elements', 'water', 'current', 'track']
OP_ATTR = dict(release_depth='z0', orifice_diameter='d0', substance='substance', q_oil='q_oil', gor='gor', produced_water='u0',
               vertical_orientation='phi_0', horizontal_orientation='theta_0', num_gas_elements='num_gas_elements',
               num_oil_elements='num_oil_elements', water_data='water', current_data='current', track_particles='track')


def op_value(r, op, waters, currents):
    if op == 'release_depth':
        return r.uniform(150., 1400.)
    if op == 'orifice_diameter':
        return r.uniform(0.05, 0.5)
    if op == 'substance':
        return r.randrange(len(SUBSTANCES))
    if op == 'q_oil':
        return r.uniform(2000., 60000.)
    if op == 'gor':
        return r.choice([0., r.uniform(100., 3000.), r.uniform(100., 3000.)])
    if op == 'produced_water':
        return r.choice([None, 0., r.uniform(0.1, 3.)])
    if op == 'vertical_orientation':
        return r.uniform(-math.pi / 2., 0.)
    if op == 'horizontal_orientation':
        return r.uniform(-math.pi, math.pi)
    if op in ('num_gas_elements', 'num_oil_elements'):
        return r.randint(1, 6)
    if op == 'water_data':
        return r.randrange(len(waters))
    if op == 'current_data':
        return r.randrange(len(currents))
    return r.random() < 0.5


def _numdict(d):
    """a (nested) dict of numbers / strings flattened to a sorted list of (path, value)"""
    out = []
    for k in sorted(d, key=str):
        v = d[k]
        if isinstance(v, dict):
            out += [('%s.%s' % (k, p), x) for p, x in _numdict(v)]
        elif isinstance(v, (int, float, np.generic)) and not isinstance(v, bool):
            out.append((str(k), float(v)))
        elif isinstance(v, (list, tuple, np.ndarray)):
            try:
                out.append((str(k), [float(x) for x in np.asarray(v, dtype=float).ravel()]))
            except (TypeError, ValueError):
                out.append((str(k), str([str(x) for x in np.asarray(v, dtype=object).ravel()])))
        else:
            out.append((str(k), str(v)))
    return out


DBM_ARRAYS = ('M', 'Pc', 'Tc', 'Vc', 'Tb', 'Vb', 'omega', 'kh_0', 'neg_dH_solR', 'nu_bar', 'B', 'dE', 'K_salt', 'k_bio', 't_bio',
              'C_pen', 'C_pen_T', 'delta', 'delta_groups')


def _dbm_fp(fp, name, o):
    fp[name + '.composition'] = list(o.composition)
    fp[name + '.scalars'] = [float(getattr(o, k)) for k in ('calc_delta', 'fp_type', 'isair') if hasattr(o, k)]
    for k in DBM_ARRAYS:
        if hasattr(o, k):
            fp['%s.%s' % (name, k)] = [float(v) for v in np.asarray(getattr(o, k), dtype=float).ravel()]
    ud = getattr(o, 'user_data', None) or {}
    nd = _numdict(ud)
    fp[name + '.user_data'] = [p for p, _v in nd]
    fp[name + '.user_data.values'] = [x for _p, v in nd for x in (v if isinstance(v, list) else [v]) if isinstance(x, float)]


def blowout_fingerprint(b):
    """everything a simulation started from this object would read: the parameters and flags, the oil (composition, every
    chemical array, user_data), the gas / liquid particle objects, every particle of disp_phases with all its attributes, the
    atmospheric-gas list, the size distributions and the WHOLE profile (names, units, range, every stored column)"""
    fp = {}
    for k in ('z0', 'd0', 'q_oil', 'gor', 'x0', 'y0', 'u0', 'phi_0', 'theta_0', 'num_gas_elements', 'num_oil_elements', 'track',
              'q_type', 'new_oil', 'update', 'T0', 'S0', 'P0', 'Sj', 'Tj', 'cj', 'dt_max', 'sd_max'):
        v = getattr(b, k)
        fp[k] = None if v is None else (float(v) if not isinstance(v, bool) else v)
    fp['ca'] = list(b.ca)
    fp['tracers'] = list(b.tracers)
    fp['mass_flux'] = [float(v) for v in np.atleast_1d(b.mass_flux)]
    _dbm_fp(fp, 'oil', b.oil)
    _dbm_fp(fp, 'gas', b.gas)
    _dbm_fp(fp, 'liq', b.liq)
    for k in ('d_gas', 'vf_gas', 'd_liq', 'vf_liq'):
        fp[k] = [float(v) for v in np.atleast_1d(getattr(b, k))]
    fp['n_particles'] = len(b.disp_phases)
    for i, p in enumerate(b.disp_phases):
        fp['particle%d.m0' % i] = [float(v) for v in np.atleast_1d(p.m0)]
        fp['particle%d' % i] = [float(p.nb0), float(p.de), float(p.T0), float(p.lambda_1), float(p.particle.fp_type)]
        fp['particle%d.state' % i] = [float(getattr(p, k)) for k in ('x', 'y', 'z', 'K', 'K_T', 'fdis', 't_hyd', 'lag_time', 'cp', 'T',
                                                                    'us', 'rho_p', 'A', 'beta_T', 't', 'integrate', 'sim_stored', 'farfield')]
        fp['particle%d.arrays' % i] = [float(v) for k in ('m', 'Cs', 'beta', 'k_bio', 'diss_indices')
                                       for v in np.atleast_1d(np.asarray(getattr(p, k), dtype=float))]
        fp['particle%d.composition' % i] = list(p.composition)
    prf = b.profile
    fp['profile.range'] = [float(prf.z_min), float(prf.z_max)]
    fp['profile.names'] = list(prf.f_names) + list(prf.f_units) + list(prf.ztsp) + list(prf.ztsp_units) + list(prf.chem_names) + \
        list(prf.chem_units)
    fp['profile.columns'] = [float(v) for v in np.asarray(prf.interp_data, dtype=float).ravel()]
    zq = [b.z0, 0.5 * b.z0, float(prf.z_min), float(prf.z_max)]
    with S.quiet():
        fp['profile'] = [float(v) for z in zq for v in prf.get_values(z, ['temperature', 'salinity', 'pressure', 'ua', 'va'])]
    return fp


def fp_diff(a, b, tol=1e-12):
    out = []
    for k in sorted(set(a) | set(b)):
        if k not in a or k not in b:
            out.append(k)
            continue
        x, y = a[k], b[k]
        if isinstance(x, list) and isinstance(y, list) and all(isinstance(v, float) for v in x + y):
            if not close(x, y, tol):
                out.append(k)
        elif isinstance(x, float) and isinstance(y, float):
            if not close(x, y, tol):
                out.append(k)
        elif x != y:
            out.append(k)
    return out


def blowout_sequences(ctx, r, n, lines, owners):
    from tamoc import blowout
    # MASTER inputs: never handed to tamoc.  Every Blowout (history object, fresh-before, fresh-after) and every update call
    # gets its OWN deep copy (its own ambient.Profile built from a copy of the raw data), so that an in-place edit of an
    # input by one object cannot show on the other side of the comparison; the copies handed to the history object are
    # compared afterwards with what they were when handed over.
    from tamoc import ambient

    def raw_profile():
        z = np.linspace(0., 1500., r.randint(15, 45))
        Ts, Tb = 273.15 + r.uniform(8., 28.), 273.15 + r.uniform(1.5, 5.)
        T = Tb + (Ts - Tb) * np.exp(-z / r.uniform(80., 600.))
        Sal = r.uniform(32., 35.) + r.uniform(0.2, 1.5) * (1. - np.exp(-z / r.uniform(200., 900.)))
        return np.vstack([z, T, Sal]).T
    prfs = [('profile', raw_profile()) for _ in range(2)]
    # surface-water dicts: temperature in deg C (ambient.get_world_ocean adds 273.15), a cold one (clips the upper
    # world-ocean temperatures) with a scaled salinity, and a warm one
    waters = prfs + [None, {'temperature': r.uniform(3., 10.), 'salinity': r.uniform(33., 34.5)},
                     {'temperature': r.uniform(18., 26.), 'salinity': r.uniform(35., 36.5)}]
    I_NONE, I_COLD = len(prfs), len(prfs) + 1
    ctx.blow_dict_then_none = 0
    idmap = {}          # id(copy handed to tamoc) -> (kind, index)
    alive = []          # keeps the copies alive, so that ids are not reused

    def in_snap(kind, o):
        return snap(o.__dict__ if kind == 'water' and hasattr(o, '__dict__') else o)

    def give(kind, i, log=None):
        """a fresh deep copy of master input i of this kind, registered under its identity"""
        if kind == 'substance':
            o = copy.deepcopy(SUBSTANCES[i])
        elif kind == 'current':
            o = copy.deepcopy(currents[i])
        else:
            w = waters[i]
            if isinstance(w, tuple):
                with S.quiet():
                    o = ambient.Profile(w[1].copy(), ztsp=['z', 'temperature', 'salinity', 'pressure'],
                                        ztsp_units=['m', 'K', 'psu', 'Pa'])
            else:
                o = copy.deepcopy(w)
        if o is not None and not isinstance(o, float):
            idmap[id(o)] = (kind, i)
            alive.append(o)
        if log is not None and o is not None:
            log.append((kind, i, o, in_snap(kind, o)))
        return o

    def index_of(kind, o):
        if o is None:
            return I_NONE if kind == 'water' else -1
        if isinstance(o, float):
            return [i for i, c in enumerate(currents) if isinstance(c, float) and c == o][0]
        return idmap.get(id(o), (None, -1))[1]
    currents = [np.array([0.05, 0., 0.]), 0.12, np.array([0.08, -0.03]), np.array([0.45, -0.07, 0.]), np.array([-0.02, 0.21])]
    ctx.blow_reuse = 0
    calls = []
    orig_get_oil = blowout.dbm_utilities.get_oil

    def get_oil(substance, q_oil, gor, ca=[], fp_type=1):
        calls.append((index_of('substance', substance), float(q_oil), float(gor), fp_type))
        return orig_get_oil(substance, q_oil, gor, ca, fp_type)
    blowout.dbm_utilities.get_oil = get_oil
    ctx.planned['blowout'] = n
    ctx.blow_last, ctx.blow_flips = set(), 0
    try:
        for seq in range(n):
            if seq and seq % 8 == 0:
                check_reference(ctx, 'after %d Blowout sequences' % seq)
            init = dict(z0=r.uniform(200., 1400.), d0=r.uniform(0.05, 0.4), substance=r.randrange(len(SUBSTANCES)),
                        q_oil=r.uniform(2000., 50000.), gor=r.choice([0., r.uniform(200., 2500.), r.uniform(200., 2500.)]),
                        x0=0., y0=0., u0=None, phi_0=-math.pi / 2., theta_0=0., num_gas_elements=r.randint(1, 5),
                        num_oil_elements=r.randint(1, 5), water=r.randrange(len(waters)), current=r.randrange(len(currents)),
                        track=True)
            if r.random() < 0.1:
                init['num_oil_elements'] = 0
            nops = r.randint(1, 8)
            ops = []
            force_reuse = False
            for _k in range(nops):
                op = r.choice(OPS)
                ops.append((op, op_value(r, op, waters, currents)))
            if seq < len(OPS):
                # sweep: every update method once as the ONLY call after construction (a method that forgets its
                # dirty flag is invisible whenever another call in the sequence sets it)
                ops = [(OPS[seq], op_value(r, OPS[seq], waters, currents))]
                init['water'] = r.randrange(len(prfs))
                init['num_oil_elements'] = max(init['num_oil_elements'], 1)
            elif seq < len(OPS) + 4:
                # sweep: the oil bins switched off / on / off-and-back / off after a flow-rate change, as the only calls, for a
                # live oil (gas present at standard conditions, so that both flow-rate conventions are defined)
                init['water'] = r.randrange(len(prfs))
                init['gor'] = r.uniform(500., 2500.)
                k = seq - len(OPS)
                init['num_oil_elements'] = 0 if k == 1 else r.randint(1, 4)
                if k == 3:
                    init['substance'] = 2
                ops = [[('num_oil_elements', 0)], [('num_oil_elements', r.randint(1, 4))],
                       [('num_oil_elements', 0), ('num_oil_elements', r.randint(1, 4))],
                       [('q_oil', r.uniform(5000., 40000.)), ('num_oil_elements', 0)]][k]
            elif seq < len(OPS) + 10:
                # sweep: the water data replaced by a cold surface-water dict and later by None (world-ocean average), other
                # calls in between / after
                init['water'] = r.choice([I_NONE, r.randrange(len(prfs))])
                init['num_oil_elements'] = max(init['num_oil_elements'], 1)
                mid = [(o, op_value(r, o, waters, currents)) for o in r.sample([o for o in OPS if o not in ('water_data', 'num_oil_elements')], r.randint(0, 2))]
                ops = [('water_data', I_COLD)] + mid + [('water_data', I_NONE)]
                if r.random() < 0.5:
                    o = r.choice(['release_depth', 'orifice_diameter', 'current_data'])
                    ops.append((o, op_value(r, o, waters, currents)))
            elif seq < len(OPS) + 13:
                # sweep: the caller keeps ONE current array, edits it in place and delivers it again (constructor + update, or two
                # updates), with no water update afterwards — an object that compares the new current with the one it stored
                # (the same array) sees "no change".  The water data are None / a surface-water dict: with a ready-made
                # ambient.Profile get_ambient_profile uses the profile as it is and ignores the current altogether
                init['water'] = r.choice([I_NONE, I_COLD, I_COLD + 1])
                init['num_oil_elements'] = max(init['num_oil_elements'], 1)
                init['current'] = r.choice([0, 2, 3, 4])
                partner = {0: 3, 3: 0, 2: 4, 4: 2}
                k = seq - (len(OPS) + 10)
                pre = [(o, op_value(r, o, waters, currents)) for o in r.sample([o for o in OPS if o not in ('water_data', 'current_data', 'num_oil_elements')], k)]
                ops = pre + [('current_data', partner[init['current']])]
                if k == 2:
                    ops.append(('current_data', init['current']))
                force_reuse = True
            elif r.random() < 0.4:
                which = r.choice(['num_oil_elements', 'num_gas_elements'])
                pos = r.randrange(len(ops) + 1)
                ops.insert(pos, (which, 0))
                if r.random() < 0.5:
                    ops.insert(r.randint(pos + 1, len(ops)), (which, r.randint(1, 5)))
                ops = ops[:8]

            def build(par, log=None):
                kw = dict(par)
                kw['substance'] = give('substance', par['substance'], log)
                kw['water'] = give('water', par['water'], log)
                kw['current'] = give('current', par['current'], log)
                kw.pop('track')
                with S.quiet():
                    return blowout.Blowout(**kw)

            def ident(b):
                """the parameter attributes as protocol values (ids for the opaque data)"""
                return [float(b.z0), float(b.d0), index_of('substance', b.substance), float(b.q_oil), float(b.gor), float(b.x0),
                        float(b.y0), float('nan') if b.u0 is None else float(b.u0), float(b.phi_0), float(b.theta_0),
                        int(b.num_gas_elements), int(b.num_oil_elements), index_of('water', b.water), index_of('current', b.current),
                        int(bool(b.track))]
            descr = dict(initial=dict(init), ops=[(o, (v if not isinstance(v, np.ndarray) else v.tolist())) for o, v in ops])
            final = dict(init)
            for op, v in ops:
                final[OP_ATTR[op]] = v
            # ---- the FRESH object first: if the final (or the initial) parameters are no valid scenario the sequence is
            #      skipped (counted, bounded by the ceiling obligation of run())
            def build_fresh():
                track = final['track']
                f = build(dict(final, track=True))
                if track is not True:
                    f.update_track_particles(track)     # `track` is not a constructor argument
                    with S.quiet():
                        f._update()
                return f
            try:
                del calls[:]
                fresh0 = build_fresh()                      # the fresh object BEFORE the history is played
                fp0 = blowout_fingerprint(fresh0)
                del calls[:]
                hist_inputs = []
                b = build(init, hist_inputs)
            except Exception as e:
                zero_bins = init['num_oil_elements'] == 0 or final['num_oil_elements'] == 0
                why = ('gas flow-rate convention without gas at standard conditions' if zero_bins and isinstance(e, ZeroDivisionError)
                       else raise_site(e))
                ctx.count('blowout sequence skipped: initial or final parameters are no valid scenario (%s)' % why)
                ctx.skips['blowout'] = ctx.skips.get('blowout', 0) + 1
                if not (zero_bins and isinstance(e, ZeroDivisionError)):
                    ctx.notes_raise.setdefault('Blowout', (descr, None, '%s: %s' % (type(e).__name__, str(e)[:160])))
                continue
            # ---- the history object: the fresh object exists, so a raise here means the history is NOT "identical to one
            #      constructed directly with the final parameters"
            try:
                reused = []
                descr['caller_reuses_its_current_array_at_op'] = reused
                trace = [[int(b.update), int(b.new_oil), int(b.q_type)] + ident(b)]
                for op, v in ops:
                    val = v
                    if op == 'substance':
                        val = give('substance', v, hist_inputs)
                    elif op == 'water_data':
                        val = give('water', v, hist_inputs)
                    elif op == 'current_data':
                        held = b.current
                        if (isinstance(held, np.ndarray) and isinstance(currents[v], np.ndarray) and held.shape == currents[v].shape
                                and (force_reuse or r.random() < 0.5)):
                            # the CALLER edits the array it handed over earlier and delivers the same object again
                            held[...] = currents[v]
                            idmap[id(held)] = ('current', v)
                            hist_inputs[:] = [(k_i, (v if o_i is held else i_i), o_i, (in_snap(k_i, o_i) if o_i is held else s_i))
                                              for k_i, i_i, o_i, s_i in hist_inputs]
                            val = held
                            reused.append(len(trace) - 1)
                        else:
                            val = give('current', v, hist_inputs)
                    getattr(b, 'update_' + op)(val)
                    trace.append([int(b.update), int(b.new_oil), int(b.q_type)] + ident(b))
                ncalls0 = len(calls)
                new_oil_before = bool(b.new_oil)
                with S.quiet():
                    if not b.update:        # what simulate() does first (blowout.py l.415-416)
                        b._update()
                trace.append([int(b.update), int(b.new_oil), int(b.q_type)] + ident(b))
                refreshed_calls = calls[ncalls0:]
                last_call = calls[-1]
                fpr = blowout_fingerprint(b)
                ncalls1 = len(calls)
                fresh = build_fresh()                       # ... and AFTER it
                fpf = blowout_fingerprint(fresh)
                fresh_call = calls[-1]
                assert len(calls) > ncalls1
            except Exception as e:
                ctx.evaluations += 1
                ctx.violation('blowout-history-raised:' + raise_site(e),
                              'a Blowout reached by update calls raises when it is refreshed (or updated) although a Blowout constructed '
                              'directly with the final parameters builds: the history is not identical to the fresh object',
                              dict(descr, exception='%s: %s' % (type(e).__name__, str(e)[:200]),
                                   flags_before_refresh=dict(update=bool(getattr(b, 'update', None)), new_oil=bool(getattr(b, 'new_oil', None)),
                                                             q_type=getattr(b, 'q_type', None)),
                                   fresh_q_type=int(fresh0.q_type)))
                continue
            ctx.evaluations += 1
            zero0 = init['num_oil_elements'] > 0
            zero1 = final['num_oil_elements'] > 0
            flips = zero0 != zero1
            ctx.blow_last.add(ops[-1][0])
            ctx.blow_flips += int(flips)
            if reused:
                ctx.blow_reuse += 1
                ctx.count('blowout sequence in which the caller edits its own current array in place and delivers it again')
            ctx.count('blowout sequence' + (' (oil bins switched on/off: q_type convention changes)' if flips else ''))
            if any(v == 0 for o, v in ops if o in ('num_oil_elements', 'num_gas_elements')):
                ctx.count('blowout sequence switching bins to zero')
            ctx.nontrivial.add(('blowout', tuple(o for o, _v in ops), flips))
            if len([s for s in ctx.samples if 'ops' in s]) < 2:
                ctx.sample({'initial': descr['initial'], 'ops': descr['ops'], 'mass_flux_updated': fpr['mass_flux'][:3],
                            'mass_flux_fresh': fpf['mass_flux'][:3]})
            for kind_i, idx_i, o_i, s_i in hist_inputs:
                now = in_snap(kind_i, o_i)
                if not same(s_i, now):
                    what_changed = changed(s_i[1], now[1]) if s_i[0] == 'd' and now[0] == 'd' else []
                    ctx.violation('input-mutated:Blowout:%s' % kind_i,
                                  'the Blowout (constructor, an update method or the refresh) altered an input object of the caller in place',
                                  dict(descr, input_kind=kind_i, input_index=idx_i, changed=what_changed[:6]))
            wseq = [v for o, v in ops if o == 'water_data']
            if any(isinstance(waters[a], dict) and any(waters[b] is None for b in wseq[i + 1:]) for i, a in enumerate(wseq)):
                ctx.blow_dict_then_none += 1
                ctx.count('blowout sequence with a surface-water dict followed later by water=None')
            d0 = fp_diff(fp0, fpf, 0.)
            if d0:
                ctx.violation('process-state-leak:Blowout-fresh-before-vs-after:' + d0[0],
                              'two Blowouts constructed directly with the SAME (final) parameters, one before and one after an update history '
                              'was played on another object, differ: the history leaked state into the process',
                              dict(descr, differing={k: (fp0.get(k), fpf.get(k)) for k in d0[:6]}))
            diffs = fp_diff(fpr, fpf)
            if diffs:
                if flips and 'q_type' in diffs:
                    key = 'blowout-q_type-constructor-only'
                    what = ('Blowout.q_type is chosen once in __init__ from num_oil_elements and not revisited by update_num_oil_elements: '
                            'after switching the oil bins %s the updated object keeps the %s-flow-rate convention and differs from a fresh Blowout'
                            % ('off' if zero0 else 'on', 'oil' if zero0 else 'gas'))
                else:
                    key = 'blowout-updated-ne-fresh:' + diffs[0]
                    what = 'a Blowout reached by update calls differs from one constructed with the final parameters'
                ctx.violation(key, what, dict(descr, differing={k: (fpr.get(k), fpf.get(k)) for k in diffs[:6]}))
            # --- the flag machine of the Lean model against the real flags / get_oil calls
            p0 = trace[0][3:]
            args = [int(VARIANT['revisit'])] + p0[:2] + [int(p0[2])] + p0[3:10] + [int(p0[10]), int(p0[11]), int(p0[12]), int(p0[13]), int(p0[14]), 0, 0]
            for op, v in ops:
                if op == 'produced_water':
                    v = float('nan') if v is None else float(v)
                elif op == 'track_particles':
                    v = int(bool(v))
                elif op in ('substance', 'water_data', 'current_data', 'num_gas_elements', 'num_oil_elements'):
                    v = int(v)
                else:
                    v = float(v)
                args += [op, v]
            lines.append(req('B19.run', *args))
            owners.append(('blowout', trace, new_oil_before, len(refreshed_calls),
                           [float(last_call[0]), last_call[1], last_call[2], 0., float(last_call[3])],
                           [float(fresh_call[0]), fresh_call[1], fresh_call[2], 0., float(fresh_call[3])], descr))
            del alive[:-80]
    finally:
        blowout.dbm_utilities.get_oil = orig_get_oil


# ---------------------------------------------------------------------------
# PROCESS-LEVEL purity: a canonical reference set, re-evaluated on FRESH objects during and after the run
# ---------------------------------------------------------------------------

REF_DICTS = [{'temperature': 8., 'salinity': 34.5}, {'temperature': 20., 'salinity': 36.}]     # surface T in deg C


def reference_set():
    """answers of freshly built objects that must not depend on anything done before in the process: the world-ocean
    profile, Blowouts on water=None and on two fixed surface-water dicts, mixture / particle properties from the database.
    Order: the queries that only READ shared data first."""
    from tamoc import ambient, blowout, dbm
    ref = {}
    with S.quiet():
        prf = ambient.Profile(None)
        zs = np.linspace(float(prf.z_min), float(prf.z_max), 10)
        ref['Profile(None)'] = [float(v) for z in zs for v in prf.get_values(float(z), ['temperature', 'salinity', 'pressure'])]
        fm = dbm.FluidMixture(['methane', 'ethane', 'n-hexane', 'toluene'])
        m = np.array([0.4, 0.1, 0.3, 0.2])
        ref['FluidMixture'] = c09.flat((fm.density(m, 288.15, 2e6), fm.viscosity(m, 288.15, 2e6), fm.fugacity(m, 288.15, 2e6),
                                                   fm.solubility(m, 288.15, 2e6, 35.), fm.interface_tension(m, 288.15, 35., 2e6),
                                                   fm.equilibrium(m, 288.15, 2e6)[0]))
        for fpt in (0, 1, 2):
            fp = dbm.FluidParticle(['methane', 'ethane', 'n-hexane', 'toluene'], fp_type=fpt)
            ref['FluidParticle(fp_type=%d)' % fpt] = c09.flat(tuple(c09.norm_out('fluid', 'return_all', fp.return_all(
                m * 1e-6, 288.15, 2e6, 35., 285., -1))))
        kw = dict(z0=600., d0=0.2, substance=SUBSTANCES[1], q_oil=20000., gor=800., num_gas_elements=2, num_oil_elements=2,
                  current=np.array([0.05, 0., 0.]))
        for name, w in [('Blowout(water=None)', None)] + [('Blowout(water=dict-T%g-S%g)' % (d['temperature'], d['salinity']), dict(d)) for d in REF_DICTS]:
            b = blowout.Blowout(water=w, **kw)
            f = blowout_fingerprint(b)
            ref[name] = c09.flat(tuple(f[k] for k in sorted(f) if isinstance(f[k], float) or
                                       (isinstance(f[k], list) and all(isinstance(x, float) for x in f[k]))))
    return ref


def check_reference(ctx, where):
    """re-evaluate the reference set on fresh objects; the first evaluation is the baseline"""
    cur = reference_set()
    ctx.ref_evals = getattr(ctx, 'ref_evals', 0) + 1
    if getattr(ctx, 'ref0', None) is None:
        ctx.ref0 = cur
        ctx.ref_leaked = set()
        return
    for name, v0 in ctx.ref0.items():
        v1 = cur.get(name)
        if name in ctx.ref_leaked:
            continue
        if v1 is None or not close(list(v1), list(v0), 0.):
            ctx.ref_leaked.add(name)
            worst = max([relerr(a, b) for a, b in zip(v0, v1 or []) if math.isfinite(a) and math.isfinite(b)] + [0.])
            k = [i for i, (a, b) in enumerate(zip(v0, v1 or [])) if not close(a, b, 0.)][:5]
            ctx.violation('process-state-leak:' + name,
                          'a freshly built object answers differently from the identical freshly built object at the start of the process: '
                          'state leaked between unrelated objects (module-level / shared data edited in place)',
                          dict(reference=name, re_evaluated=where, evaluation_number=ctx.ref_evals, worst_relative_difference=worst,
                               first_differing_entries=[(i, v0[i], v1[i]) for i in k] if v1 else None))


def compare_blowout(own, resp):
    _tag, trace, new_oil_before, ncalls, last_call, fresh_call, descr = own
    bad = []
    if not isinstance(resp, list):
        return ['driver answered %r' % (resp,)]
    nst = len(trace)
    want = 18 * nst + 2 + 18 + 2
    if len(resp) != want:
        return ['driver answered %d values, expected %d' % (len(resp), want)]
    for j, tr in enumerate(trace):
        off = 18 * j if j < nst - 1 else 18 * (nst - 1)
        got = resp[off:off + 18]
        for k, (a, b) in enumerate(zip(got, tr)):
            if isinstance(b, float):
                ok = close(a, b, 0.)
            else:
                ok = (a == b)
            if not ok:
                bad.append('state %d field %d: model=%r code=%r' % (j, k, a, b))
    oil = resp[18 * nst]
    if not close(list(oil), last_call, 0.):
        bad.append('cached oil comes from get_oil%r in the model, from get_oil%r in the code' % (tuple(oil), tuple(last_call)))
    # model: does refresh call get_oil?  (new_oil flag before the refresh; state nst-2 is the last state before refresh)
    m_newoil = resp[18 * (nst - 2) + 1]
    if bool(m_newoil) != new_oil_before or (ncalls != (1 if new_oil_before else 0)):
        bad.append('get_oil calls during refresh: model new_oil=%r, code new_oil=%r, %d call(s)' % (m_newoil, new_oil_before, ncalls))
    foil = resp[18 * nst + 2 + 18]
    if not close(list(foil), fresh_call, 0.):
        bad.append('fresh object: get_oil%r in the model, get_oil%r in the code' % (tuple(foil), tuple(fresh_call)))
    return bad


# ---------------------------------------------------------------------------

def run(ctx, lean_ok):
    r = ctx.rng
    ctx.notes_raise = {}
    ctx.skips, ctx.planned, ctx.objects = {}, {}, {}
    ctx.raised_calls, ctx.total_calls = 0, 0
    detect_variants(ctx)
    ctx.code_variant = dict(VARIANT, **c09.CODE)
    ctx.oblige('the tree under test has the REPAIRED dbm_p.coefs (works on a copy): the full-strength frame theorem '
               'TamocV.Props.C19.query_frame is the one that applies to it', not VARIANT['aliased'],
               'dbm_p.coefs writes into the caller\'s matrix: the witness of TamocV.Props.C19.not_query_frame reproduces on the real code')
    ctx.oblige('the tree under test has the REPAIRED Blowout.update_num_oil_elements (q_type revisited): the full-strength theorem '
               'TamocV.Props.C19.blowout_refines_fresh is the one that applies to it', bool(VARIANT['revisit']),
               'q_type is not revisited: the witness of TamocV.Props.C19.not_blowout_refines_fresh reproduces on the real code')
    lines, owners = [], []
    check_reference(ctx, 'start')                      # baseline, before anything else is built
    mixture_histories(ctx, r, ctx.n(60, 1500))
    check_reference(ctx, 'after the mixture histories')
    particle_histories(ctx, r, ctx.n(45, 800), lines, owners)
    cache_histories(ctx, r, ctx.n(10, 150))
    check_reference(ctx, 'after the particle histories')
    profile_histories(ctx, r, ctx.n(40, 800), lines, owners)
    coefs_cases(ctx, r, ctx.n(40, 600), lines, owners)
    check_reference(ctx, 'after the profile histories')
    blowout_sequences(ctx, r, ctx.n(26 + 12, 26 + 300), lines, owners)
    check_reference(ctx, 'end of the run')
    ctx.oblige('process-level purity: the canonical reference set (Profile(None) at 10 depths, Blowouts on water=None and on two '
               'surface-water dicts, database mixture / particle properties; fresh objects every time) re-evaluated %d times during the '
               'run and at its end, compared bit-wise with the evaluation at the start' % (ctx.ref_evals - 1), ctx.ref_evals >= 6,
               'too few re-evaluations')
    ctx.oblige('Blowout floor: %d compared sequences contain update_water_data with a surface-water dict followed later by water=None '
               '(floor 5)' % ctx.blow_dict_then_none, ctx.blow_dict_then_none >= 5, 'generator floor not reached')
    ctx.oblige('Blowout floor: %d compared sequences in which the caller re-delivers its own current array after editing it in place '
               '(floor 3)' % ctx.blow_reuse, ctx.blow_reuse >= 3, 'generator floor not reached')
    ob = ctx.objects
    ctx.oblige('objects built with user_data overriding C_pen / C_pen_T (non-zero, first component included): %d of %d mixtures, '
               '%d of %d fluid particles (floor 30 %% each)' % (ob.get('mixture-user-C_pen', 0), ob.get('mixture', 0),
                                                                 ob.get('particle-user-C_pen', 0), ob.get('particle', 0)),
               ob.get('mixture-user-C_pen', 0) >= 0.3 * max(ob.get('mixture', 0), 1) and
               ob.get('particle-user-C_pen', 0) >= 0.3 * max(ob.get('particle', 0), 1), 'generator floor not reached')
    missing = [o for o in OPS if o not in ctx.blow_last]
    ctx.oblige('Blowout floors: every one of the 13 update methods is the LAST call of a compared sequence (missing: %r); '
               '%d compared sequences change the flow-rate convention (oil bins switched on/off; floor 3)' % (missing, ctx.blow_flips),
               not missing and ctx.blow_flips >= 3, 'generator floor not reached')
    # ---- ceilings: what the generators skip or what raises is bounded, never an open-ended counter
    for k, frac in (('blowout', 0.2), ('particle', 0.35), ('mixture-equilibrium', 0.35), ('cache-history', 0.1)):
        nsk, npl = ctx.skips.get(k, 0), max(ctx.planned.get(k, 0), 1)
        ctx.oblige('skipped %s cases: %d of %d planned (ceiling %d %%)' % (k, nsk, npl, int(frac * 100)), nsk <= frac * npl,
                   'too many generated cases were skipped: the sample no longer covers the quantifier')
    ctx.oblige('queries that raised inside a history: %d of %d calls (ceiling 2 %%; a raise of a query that answered earlier in the '
               'same history is a violation in any case)' % (ctx.raised_calls, ctx.total_calls + ctx.raised_calls),
               ctx.raised_calls <= 0.02 * max(ctx.total_calls + ctx.raised_calls, 1), str(list(ctx.notes_raise.items())[:2])[:600])
    for k, (d, x, text) in sorted(ctx.notes_raise.items()):
        ctx.notes.append('C20 finding candidate key=raises:%s first: %s on %r inputs %r' % (k, text, d, x))

    out = run_driver(ctx, 'C19', lines) if lean_ok else None
    if out is None:
        return
    worst = [0.]
    nbad = {'particle': 0, 'get_values': 0, 'coefs': 0, 'blowout': 0}
    ntot = {'particle': 0, 'get_values': 0, 'coefs': 0, 'blowout': 0}
    for own, resp in zip(owners, out):
        tag = own[0]
        ntot[tag] += 1
        bad = []
        if tag == 'particle':
            _t, kind, method, rr, descr, x = own
            bad = c09.compare_call(kind, method, rr, resp, worst)
        elif tag == 'get_values':
            _t, used, after = own
            if not isinstance(resp, list) or len(resp) != 2:
                bad = ['driver answered %r' % (resp,)]
            else:
                if used is not None and not close(list(resp[0]), list(np.ravel(used)), 0.):
                    bad.append('depths handed to the interpolator: model=%r code=%r' % (resp[0], used))
                if not close(list(resp[1]), after, 0.):
                    bad.append('caller\'s array after get_values: model=%r code=%r' % (resp[1], after))
        elif tag == 'coefs':
            _t, after, cd, d, q = own
            if not isinstance(resp, list) or len(resp) != 2:
                bad = ['driver answered %r' % (resp,)]
            else:
                # the caller's matrix after the call: exact when nothing may be written, 1e-10 against the INDEPENDENT
                # group-contribution values when the routine writes them
                written = bool(cd and VARIANT['aliased'])
                if not close(list(resp[1]), after, 1e-10 if written else 0.):
                    bad.append('caller\'s matrix after coefs (calc_delta=%d, %r): model=%r code=%r' % (cd, d, resp[1], after))
                # the matrix the model says the mixing rule USES, checked through the routine's own output A
                used = np.array(resp[0], dtype=float).reshape(q['nc'], q['nc'])
                A_model = A_from_delta(q['T'], q['P'], q['m'], q['fm'], used)
                if not close(A_model, q['A_real'], 1e-9):
                    bad.append('interaction matrix used by the mixing rule (calc_delta=%d, %r): A from the model matrix=%r, A returned by coefs=%r'
                               % (cd, d, A_model, q['A_real']))
        elif tag == 'blowout':
            bad = compare_blowout(own, resp)
        if bad:
            nbad[tag] += 1
            if nbad[tag] <= 3:
                ctx.broken.append(('correspondence', 'C19 model vs code (%s)' % tag, '; '.join(bad[:4])))
    ctx.oblige('oracle-table correspondence Model.Particle09 == FluidParticle/InsolubleParticle over %d calls of query histories '
               '(same questions, outputs, cache K)' % ntot['particle'], nbad['particle'] == 0, '%d disagree' % nbad['particle'])
    ctx.oblige('correspondence Model.Purity19.getValues == BaseProfile.get_values (interpolation depths, caller\'s array) on %d ndarray calls'
               % ntot['get_values'], nbad['get_values'] == 0, '%d disagree' % nbad['get_values'])
    ctx.oblige('correspondence Model.Purity19.coefsDelta == dbm_p.coefs (caller\'s matrix after the call) on %d calls' % ntot['coefs'],
               nbad['coefs'] == 0, '%d disagree' % nbad['coefs'])
    ctx.oblige('correspondence Model.Blowout == blowout.Blowout (flags, q_type, parameters after every call, get_oil calls) on %d update sequences'
               % ntot['blowout'], nbad['blowout'] == 0, '%d disagree' % nbad['blowout'])
