"""
C10 — Intensive properties depend only on composition.

proof     : TamocV/Props/C10.lean (scaling, relabelling, zero-component invariance of mole fractions and of
            all of `coefs` incl. group-contribution interaction coefficients; cube-root law of the diameter)
tie       : hand model TamocV/Model/Eos.lean — correspondence of moleFraction/coefs here and in C01
real code : FluidMixture.density / fugacity / viscosity / interface_tension / solubility / equilibrium and
            FluidParticle.diameter / density evaluated on (m), (lambda*m), (permuted m), (m with appended 0),
            Python fallback and compiled Fortran (ctypes) back ends
"""
import math
import signal
import numpy as np
from common import req, close, relerr, TOL, run_driver
import mixgen

META = {
    'text': 'Theorems (Lean 4, reals, every component count and relabelling): mole fractions and all PR coefficients (A, B, Ap, Bp, incl. the group-contribution delta_ij computed inside coefs) are invariant under scaling of all masses, equivariant under relabelling of the components and unchanged by an appended zero-mass component; the equivalent diameter scales with the cube root of the factor. Scale invariance is ALSO proved directly about the code regenerated from dbm_p.py on every run (gen_*_smul: mole_fraction, coefs with both delta branches, z_pr, fugacity, density, for every root finder and all list lengths), and the relabelling and zero-component theorems are proved about the regenerated coefs on BOTH interaction-coefficient branches, incl. the group-contribution double loop (gen_coefs_perm, gen_coefs_append_zero in Props/C10GenGC.lean, via the refinement theorems of C01). The routines not re-proved (viscosity, interfacial tension, solubility, flash) consume masses only through these; all of them are evaluated on the real code on (m, lambda*m, permuted m, m+[0]) for both back ends.',
    'note': 'Trusted: Lean kernel + 3 standard axioms; hand model of mole_fraction/coefs (tied by correspondence in C01 and here); real arithmetic for doubles. Partial: invariance of viscosity, interface_tension, solubility and the flash is decided on the real code by sampling (structural argument only in Lean); flash results are compared at solver tolerance.',
    'technique': 'Lean 4 invariance/equivariance proofs over a hand-written executable model + metamorphic execution of the real code on both back ends',
}
GEN = ['eosfull']
MODULES = ['TamocV.Props.C10GenGC', 'TamocV.Props.C10Gen', 'TamocV.Props.C10', 'TamocV.Model.Eos', 'TamocV.Gen.EosFullPy']
RULE = ('mixtures of 2-6 database compounds (water excluded from flashes), random permutation (every permutation class reachable), '
        'scale factor log-uniform 1e-6..1e3, compound of zero mass inserted at a random position (also first), user volume shifts for all, none or SOME compounds, 270-400 K, 1e5-5e7 Pa, zero/constant/group-contribution '
        'delta, Lin-Duan / user Peneloux; non-trivial = distinct (composition, permutation, delta mode, rounded state)')
LEVEL_NOTE = META['note']
FLASH_TOL = 5e-5


def audit_files():
    return ['TamocV/Num.lean', 'TamocV/Real.lean', 'TamocV/Model/Eos.lean', 'TamocV/Lemmas/Basic.lean',
            'TamocV/Lemmas/Eos.lean', 'TamocV/Lemmas/C10.lean', 'TamocV/Lemmas/EosRefine.lean', 'TamocV/Props/C10.lean', 'TamocV/Props/C10Gen.lean', 'TamocV/Props/C10GenGC.lean', 'TamocV/Lemmas/C10Gen.lean', 'TamocV/Lemmas/EosRefineGC.lean', 'TamocV/Props/C01GC.lean', 'TamocV/Props/C01.lean', 'TamocV/Lemmas/C01.lean']


class Timeout(Exception):
    pass


def _alarm(signum, frame):
    raise Timeout()


def timed(f, secs=8):
    signal.signal(signal.SIGALRM, _alarm)
    signal.alarm(secs)
    try:
        return f()
    finally:
        signal.alarm(0)


def rebuild(fm, desc, order=None, extra=None, delta=None, pos=None, extra_shift=True):
    """new FluidMixture with the components re-ordered (order) or with an appended compound"""
    from tamoc import dbm
    comp = list(desc['composition'])
    n = len(comp)
    kw = {}
    if order is not None:
        comp2 = [comp[k] for k in order]
        if desc['delta_mode'] == 'const':
            kw['delta'] = fm.delta[np.ix_(order, order)].copy()
    else:
        pos = n if pos is None else pos
        comp2 = comp[:pos] + [extra] + comp[pos:]
        if desc['delta_mode'] == 'const':
            keep = [k for k in range(n + 1) if k != pos]
            d = np.zeros((n + 1, n + 1))
            d[np.ix_(keep, keep)] = fm.delta
            kw['delta'] = d
    if desc['delta_mode'] == 'groups':
        kw['delta_groups'] = {}
        if desc.get('groups_array') and order is not None:
            kw['delta_groups'] = np.array(fm.delta_groups, dtype=float)[order].copy()     # user array, relabelled
    if desc['peneloux']:
        ud = dict(fm.user_data)
        if extra is not None and extra not in ud and extra_shift:
            from tamoc import chemical_properties as cp
            chem, _cu, bio, _bu, _pj, _pju = cp.tamoc_data()
            props = dict(chem[extra])
            props.update(bio[extra])
            props['C_pen'] = 1e-6
            props['C_pen_T'] = 0.
            ud[extra] = props
        kw['user_data'] = ud
    return dbm.FluidMixture(comp2, **kw)


def run(ctx, lean_ok):
    from tamoc import dbm, dbm_p
    import fortran
    r = ctx.rng
    try:
        F = fortran.FortranLib()
        ctx.oblige('gfortran build of tamoc/src/*.f95', True)
    except Exception as e:
        ctx.oblige('gfortran build of tamoc/src/*.f95', False, str(e)[-1500:])
        F = None
    ncase = ctx.n(100, 2500)
    lines, exp = [], []
    nslow = 0
    worst = {}

    def cmp(name, a, b, tol, case, kind):
        a = np.asarray(a, dtype=float).ravel()
        b = np.asarray(b, dtype=float).ravel()
        ctx.evaluations += 1
        if a.shape != b.shape:
            ok, e = False, float('inf')
        else:
            both_nan = np.isnan(a) & np.isnan(b)
            e = float(np.max(np.where(both_nan, 0., np.abs(a - b) / np.maximum(np.maximum(np.abs(a), np.abs(b)), 1e-300)), initial=0.))
            ok = e <= tol
        worst[name + ':' + kind] = max(worst.get(name + ':' + kind, 0.), e if math.isfinite(e) else 1e300)
        if not ok:
            ctx.violation('%s-not-invariant:%s' % (name, kind), '%s changes under %s' % (name, kind),
                          dict(case, quantity=name, base=a.tolist(), variant=b.tolist(), relerr=e))

    for _ in range(ncase):
        n = r.randint(2, 6)
        comp = mixgen.composition(r, n, n, exclude=('water',))
        # a quarter of the mixtures carry user volume shifts for SOME compounds only (the others keep C_pen = 0)
        fm, d = mixgen.mixture(r, comp=comp, peneloux=('partial' if r.random() < 0.25 else None))
        m = mixgen.masses(r, n)
        T = r.uniform(270., 400.)
        P = math.exp(r.uniform(math.log(1e5), math.log(5e7)))
        S = r.uniform(0., 36.)
        lam = 10 ** r.uniform(-6, 3)
        # a third of the cases live at the absolute scale of real particles (total 1e-12..1e-6 kg, often with a trace
        # component) and are scaled DOWN further: an absolute "numerically zero" threshold on a mass (e.g. machine epsilon
        # used as a tolerance in kg) inside an intensive routine breaks scale invariance only there
        if r.random() < 0.33:
            m = m / m.sum() * 10 ** r.uniform(-12, -6)
            if r.random() < 0.6:
                m[r.randrange(n)] *= 10 ** r.uniform(-8, -3)
            lam = 10 ** r.uniform(-9, -1)
            ctx.count('scale:particle-sized-masses')
        ctx.count('scale:smallest-scaled-mass:1e%d' % int(math.floor(math.log10(max(float(np.min(lam * m)), 1e-300)))))
        order = list(range(n))
        r.shuffle(order)
        extra = r.choice([c for c in mixgen.compounds(False) if c not in comp])
        case = {'composition': comp, 'mass': m.tolist(), 'T': T, 'P': P, 'S': S, 'lambda': lam, 'order': order, 'extra': extra,
                'delta_mode': d['delta_mode'], 'peneloux': d['peneloux']}
        ctx.sample(case)
        ctx.nontrivial.add((tuple(comp), tuple(order), d['delta_mode'], round(T, 2), round(math.log(P), 2)))
        ctx.count('%s:n%d%s' % (d['delta_mode'], n, ':pen' if d['peneloux'] else ''))
        if d.get('groups_array'):
            ctx.count('groups:user-array')
        pos = r.randint(0, n)        # the zero-mass compound is inserted anywhere, also FIRST
        extra_shift = (not d.get('peneloux_partial')) or r.random() < 0.5
        case.update(zero_position=pos, peneloux_partial=bool(d.get('peneloux_partial')), extra_shift=extra_shift)
        if d.get('peneloux_partial'):
            ctx.count('peneloux:partial')
        ctx.count('zero-component:' + ('first' if pos == 0 else 'last' if pos == n else 'middle'))
        fmp = rebuild(fm, d, order=order)
        fmz = rebuild(fm, d, extra=extra, pos=pos, extra_shift=extra_shift)
        mp_ = m[order]
        mz = np.insert(m, pos, 0.)
        inv = np.argsort(order)      # position of original component k in the permuted list

        def drop(a):
            return np.delete(np.asarray(a), pos, axis=1)

        def switch_differs(fv):
            """signature of the recorded defect: the volume-translation switch `C_pen[0] == 0.` (dbm_p.volume_trans
            l.985 / dbm_eos.f95 l.233) looks at the FIRST component only, so with user shifts for some compounds only
            the branch depends on which compound is listed first"""
            return bool((fm.C_pen[0] == 0.) != (fv.C_pen[0] == 0.))

        class forced_branch:
            """evaluate the variant mixture with the volume-translation branch of the BASE mixture forced"""
            def __init__(self, fv):
                self.fv = fv
            def __enter__(self):
                self.old = self.fv.C_pen
                if fm.C_pen[0] == 0.:
                    self.fv.C_pen = np.zeros_like(self.old)          # Lin-Duan branch for all, as in the base
                else:
                    c = self.old.copy()
                    c[0] = 1e-300                                     # user branch, first shift still (numerically) zero
                    self.fv.C_pen = c
                return self.fv
            def __exit__(self, *a):
                self.fv.C_pen = self.old

        def cmp_vt(name, fget, fv, mv, kind):
            """comparison of a quantity that depends on the volume translation"""
            bv = fget(fm, m)
            vv = fget(fv, mv)
            if not switch_differs(fv):
                cmp(name, bv, vv, tol, case, kind)
                return
            ctx.count('peneloux:first-component-switch-differs')
            with forced_branch(fv) as fvf:
                fo = fget(fvf, mv)
            cmp(name, bv, fo, tol, case, kind + '(volume-translation branch of the base forced)')
            a_, b_ = np.asarray(bv, dtype=float).ravel(), np.asarray(vv, dtype=float).ravel()
            if a_.shape != b_.shape or not np.all(np.abs(a_ - b_) <= tol * np.maximum(np.abs(a_), np.abs(b_))):
                ctx.count('found:peneloux-switch-first-component')
                ctx.violation('peneloux-switch-first-component', '%s changes under %s: the Peneloux / Lin-Duan switch tests the first '
                              'component only' % (name, kind), dict(case, quantity=name, base=a_.tolist(), variant=b_.tolist(),
                                                                     C_pen_base=fm.C_pen.tolist(), C_pen_variant=fv.C_pen.tolist()))

        def q(f, mm):
            with np.errstate(all='ignore'):
                return {
                    'density': f.density(mm.copy(), T, P),
                    'fugacity': f.fugacity(mm.copy(), T, P),
                    'viscosity': f.viscosity(mm.copy(), T, P),
                    'interface_tension': f.interface_tension(mm.copy(), T, S, P),
                    'solubility': f.solubility(mm.copy(), T, P, S),
                }
        base = q(fm, m)
        sc = q(fm, lam * m)
        pe = q(fmp, mp_)
        ze = q(fmz, mz)
        tol = 1e-9
        for k in ('density', 'viscosity', 'interface_tension'):
            cmp(k, base[k], sc[k], tol, case, 'scaling')
        cmp('viscosity', base['viscosity'], pe['viscosity'], tol, case, 'permutation')
        cmp('viscosity', base['viscosity'], ze['viscosity'], tol, case, 'zero-component')
        with np.errstate(all='ignore'):
            for fv, mv, kind in ((fmp, mp_, 'permutation'), (fmz, mz, 'zero-component')):
                cmp_vt('density', lambda f, mm: f.density(mm.copy(), T, P), fv, mv, kind)
                cmp_vt('interface_tension', lambda f, mm: f.interface_tension(mm.copy(), T, S, P), fv, mv, kind)
        for k in ('fugacity', 'solubility'):
            cmp(k, base[k], sc[k], tol, case, 'scaling')
            cmp(k, base[k], np.asarray(pe[k])[:, inv], tol, case, 'permutation')
            cmp(k, base[k], drop(ze[k]), tol, case, 'zero-component')
        # ---- flash (solver tolerance); time-boxed: rare very slow flashes are a C02 matter
        try:
            with np.errstate(all='ignore'):
                e0 = timed(lambda: fm.equilibrium(m.copy(), T, P))
                e1 = timed(lambda: fm.equilibrium(lam * m, T, P))
                e2 = timed(lambda: fmp.equilibrium(mp_.copy(), T, P))
                e3 = timed(lambda: fmz.equilibrium(mz.copy(), T, P))
            x0 = np.asarray(e0[1])
            # skip near a phase boundary where the phase outcome itself is ill-conditioned
            b0 = np.sum(e0[0][0]) / max(np.sum(e0[0]), 1e-300)
            b1 = np.sum(e1[0][0]) / max(np.sum(e1[0]), 1e-300)
            b2 = np.sum(e2[0][0]) / max(np.sum(e2[0]), 1e-300)
            b3 = np.sum(e3[0][0]) / max(np.sum(e3[0]), 1e-300)
            ctx.count('flash:' + ('two-phase' if 0 < b0 < 1 else ('gas' if b0 >= 1 else 'liquid')))
            # a single-root state (the cubic has one physical root at the feed: the EOS reports the SAME state for
            # "gas" and "liquid") carries no physical distinction between the two rows; there only "one phase, same
            # composition" is required.  Where two distinct roots exist the label must be reproduced.
            e_ = mixgen.eos_args(fm)
            with np.errstate(all='ignore'):
                zz = dbm_p.z_pr(T, P, m, e_['Mol_wt'], e_['Pc'], e_['Tc'], e_['omega'], e_['delta'].copy(), e_['Aij'], e_['Bij'],
                                e_['delta_groups'], e_['calc_delta'])[0]
            single_root = abs(zz[0, 0] - zz[1, 0]) <= 1e-12 * abs(zz[0, 0])
            for bb, kind in ((b1, 'scaling'), (b2, 'permutation'), (b3, 'zero-component')):
                if 0 < b0 < 1:
                    cmp('equilibrium.gas_mass_fraction', [b0], [bb], 1e-4, case, kind)
                elif single_root:
                    ctx.count('flash:single-root-label-' + ('same' if bb == b0 else 'flipped'))
                    cmp('equilibrium.single_phase', [1.0], [1.0 if bb in (0., 1.) else bb], 1e-12, case, kind)
                else:
                    cmp('equilibrium.gas_mass_fraction', [b0], [bb], 1e-12, case, kind)
            if 0 < b0 < 1:
                cmp('equilibrium.xi', x0, e1[1], FLASH_TOL * 20, case, 'scaling')
                cmp('equilibrium.xi', x0, np.asarray(e2[1])[:, inv], FLASH_TOL * 20, case, 'permutation')
                cmp('equilibrium.xi', x0, drop(e3[1]), FLASH_TOL * 20, case, 'zero-component')
        except Timeout:
            nslow += 1
            ctx.count('flash:timed-out(skipped)')
        # ---- particle diameter: cube-root law
        for fp_type in (0, 1):
            try:
                part = dbm.FluidParticle(list(comp), fp_type=fp_type, **({'delta': fm.delta.copy()} if d['delta_mode'] == 'const' else {}),
                                         **({'delta_groups': {}} if d['delta_mode'] == 'groups' else {}),
                                         **({'user_data': fm.user_data} if d['peneloux'] else {}))
                with np.errstate(all='ignore'):
                    de0 = part.diameter(m.copy(), T, P)
                    de1 = part.diameter(lam * m, T, P)
                    rh0 = part.density(m.copy(), T, P)
                    rh1 = part.density(lam * m, T, P)
                if np.isfinite(de0) and np.isfinite(rh0):
                    ctx.count('particle:compared')
                    cmp('particle.diameter', [de0 * lam ** (1. / 3.)], [de1], 1e-9, case, 'scaling(cube-root)')
                    cmp('particle.density', [rh0], [rh1], 1e-9, case, 'scaling')
                else:
                    ctx.count('particle:non-finite(skipped)')
            except Exception as ex:   # the particle call raised on a valid state: no invariance can hold
                ctx.count('particle-raised:' + type(ex).__name__)
                ctx.violation('particle-raised:' + type(ex).__name__, 'FluidParticle.diameter/density raised %r' % (ex,),
                              dict(case, fp_type=fp_type))
        # ---- Fortran back end (ctypes): same metamorphic relations on density / fugacity / viscosity
        if F is not None:
            def fq(f, mm):
                e = mixgen.eos_args(f)
                a = dict(T=T, P=P, mass=mm, Mol_wt=e['Mol_wt'], Pc=e['Pc'], Tc=e['Tc'], omega=e['omega'], delta=e['delta'], Aij=e['Aij'],
                         Bij=e['Bij'], delta_groups=e['delta_groups'], calc_delta=e['calc_delta'])
                return {'density': F.call('density', Vc=e['Vc'], C_pen=e['C_pen'], C_pen_T=e['C_pen_T'], **a)['rho'],
                        'fugacity': F.call('fugacity', **a)['fug'],
                        'viscosity': F.call('viscosity', Vc=e['Vc'], C_pen=e['C_pen'], C_pen_T=e['C_pen_T'], **a)['mu']}
            fb, fs, fpm, fz = fq(fm, m), fq(fm, lam * m), fq(fmp, mp_), fq(fmz, mz)
            for k in ('density', 'viscosity'):
                cmp('fortran.' + k, fb[k], fs[k], tol, case, 'scaling')
            cmp('fortran.viscosity', fb['viscosity'], fpm['viscosity'], tol, case, 'permutation')
            cmp('fortran.viscosity', fb['viscosity'], fz['viscosity'], tol, case, 'zero-component')
            for fv, mv, kind in ((fmp, mp_, 'permutation'), (fmz, mz, 'zero-component')):
                cmp_vt('fortran.density', lambda f, mm: fq(f, mm)['density'], fv, mv, kind)
            cmp('fortran.fugacity', fb['fugacity'], fs['fugacity'], tol, case, 'scaling')
            cmp('fortran.fugacity', fb['fugacity'], np.asarray(fpm['fugacity'])[:, inv], tol, case, 'permutation')
            cmp('fortran.fugacity', fb['fugacity'], drop(fz['fugacity']), tol, case, 'zero-component')
        # ---- model correspondence: mole fractions
        lines.append(req('Eos.moleFraction', m, fm.M))
        exp.append(list(dbm_p.mole_fraction(m, fm.M)))
    if F is not None:
        F.close()
    ctx.notes.append('flashes skipped because they exceeded the time box (C02 matter): %d' % nslow)
    ctx.oblige('coverage floor: at most 10 %% of the flashes time-boxed (%d of %d)' % (nslow, ncase), nslow <= 0.1 * ncase)
    npc = ctx.hist.get('particle:compared', 0)
    ctx.oblige('coverage floor: at least %d particle diameter/density comparisons (got %d)' % (ncase, npc), npc >= ncase)
    nsm = sum(v for k, v in ctx.hist.items() if k.startswith('scale:smallest-scaled-mass:1e-') and int(k.split('1e-')[1]) >= 17)
    ctx.oblige('coverage floor: at least 10 mixtures whose smallest scaled component mass is below 1e-16 kg (got %d)' % nsm, nsm >= 10)
    npp = ctx.hist.get('peneloux:partial', 0)
    ctx.oblige('coverage floor: at least 10 mixtures with user volume shifts for some compounds only (got %d)' % npp, npp >= 10)
    nzf = ctx.hist.get('zero-component:first', 0)
    ctx.oblige('coverage floor: at least 10 zero-mass compounds inserted first (got %d)' % nzf, nzf >= 10)
    ntwo = ctx.hist.get('flash:two-phase', 0)
    ctx.oblige('coverage floor: at least 10 two-phase flashes compared (got %d)' % ntwo, ntwo >= 10)
    for mode in ('zero', 'const', 'groups'):
        k = sum(v for kk, v in ctx.hist.items() if kk.startswith(mode + ':'))
        ctx.oblige('coverage floor: at least 15 mixtures with %s interaction coefficients (got %d)' % (mode, k), k >= 15)
    ctx.notes.append('worst relative change per quantity and transformation: %r' % {k: float('%.3g' % v) for k, v in sorted(worst.items())})
    out = run_driver(ctx, 'C01', lines) if lean_ok else None
    if out is not None:
        bad = sum(1 for o, e in zip(out, exp) if not (isinstance(o, list) and close(o[0], e, TOL['gen_vs_source'])))
        ctx.oblige('correspondence Model.Eos.moleFraction == dbm_p.mole_fraction on %d cases' % len(exp), bad == 0, '%d disagreements' % bad)
