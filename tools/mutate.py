#!/usr/bin/env python3
"""
mutate.py [--n N] [--seed S] [--files f1,f2,...] [--out DIR] [--jobs J]

Mutation campaign against the checks (a measurement of detection power, not a proof and not evidence).
For every sampled first-order mutant of the anchored source files of socolofs/tamoc:
  1. materialise it in a scratch copy of the repository under /tmp (never /repo);
  2. run the 37 pinned stable tests on the copy — a mutant the suite already kills is discarded ("suite");
  3. otherwise run the quick tier of the checks mapped to that file against the copy (TAMOC_REPO=<copy>) and
     record which of them report a VIOLATION ("caught"), which stay silent ("missed": equivalent mutant, or a
     gap to look at), and which stop with an infrastructure error ("broken": exit code other than 0/1).
Results: <out>/results.jsonl (one line per mutant) and <out>/summary.txt.  Scratch copies are removed at once.
Run it from a snapshot of /verif (vp run) — the checks regenerate lean/TamocV/Gen from the mutated copy, so it
must not share a working tree with checks that run against /repo.
"""
import argparse, ast, json, os, random, re, shutil, subprocess, sys, time
from concurrent.futures import ThreadPoolExecutor

VERIF = os.path.dirname(os.path.dirname(os.path.abspath(__file__)))
REPO = '/repo'

# file -> [(regex on the qualified function name, checks)]
TARGETS = {
    'tamoc/dbm_p.py': [(r'^(mole_fraction|coefs|z_pr|fugacity|density|volume_trans)$', ['C01', 'C08', 'C10']),
                       (r'.*', ['C08', 'C10'])],
    'tamoc/seawater.py': [(r'.*', ['C13'])],
    'tamoc/dbm.py': [(r'^(equil_MM|gas_liq_eq|stability_analysis|successive_substitution)$', ['C02']),
                     (r'^FluidMixture\.equilibrium$', ['C02']),
                     (r'^(FluidParticle|InsolubleParticle)\.', ['C09', 'C17']),
                     (r'^FluidMixture\.', ['C10', 'C19'])],
    'tamoc/lmp.py': [(r'.*', ['C03', 'C04'])],
    'tamoc/bent_plume_model.py': [(r'^(LagElement|Particle)\.', ['C03', 'C04'])],
    'tamoc/single_bubble_model.py': [(r'^(calculate_path|derivs|sbm_ic|Model\.simulate)', ['C05'])],
    'tamoc/smp.py': [(r'.*', ['C06'])],
    'tamoc/stratified_plume_model.py': [(r'^(InnerPlume|OuterPlume)\.', ['C06'])],
    'tamoc/ambient.py': [(r'^BaseProfile\.(get_values|append|extend_profile_deeper|insert_|add_computed|_build_interpolator|buoyancy_frequency)', ['C07']),
                         (r'^(stabilize|coarsen|compute_pressure|extract_profile|xr_stabilize_dataset|xr_coarsen_dataset|xr_array_to_dataset)$', ['C14']),
                         (r'^(convert_units|xr_convert_units|xr_check_units)$', ['C15'])],
    'tamoc/psf.py': [(r'.*', ['C16'])],
    'tamoc/particle_size_models.py': [(r'.*', ['C16'])],
    'tamoc/dispersed_phases.py': [(r'^(initial_conditions|zfe_volume_flux|bf_average|get_chem_names|particles_state_space)', ['C11']),
                                  (r'^(SingleParticle|PlumeParticle)\.', ['C17', 'C05']),
                                  (r'^(save_particle_to_nc_file|load_particle_from_nc_file)', ['C18'])],
    'tamoc/blowout.py': [(r'^Blowout\.', ['C19', 'C12'])],
    'tamoc/dbm_utilities.py': [(r'.*', ['C12', 'C15'])],
}

SWAP_BIN = {ast.Add: ast.Sub, ast.Sub: ast.Add, ast.Mult: ast.Div, ast.Div: ast.Mult}
SWAP_CMP = {ast.Lt: ast.LtE, ast.LtE: ast.Lt, ast.Gt: ast.GtE, ast.GtE: ast.Gt, ast.Eq: ast.NotEq, ast.NotEq: ast.Eq}


def functions(tree):
    """(qualified name, node) of every function / method"""
    out = []
    for n in tree.body:
        if isinstance(n, (ast.FunctionDef,)):
            out.append((n.name, n))
        elif isinstance(n, ast.ClassDef):
            for m in n.body:
                if isinstance(m, ast.FunctionDef):
                    out.append(('%s.%s' % (n.name, m.name), m))
    return out


def candidates(fn):
    """list of (kind, node, replacement-source) inside one function"""
    out = []
    doc = ast.get_docstring(fn, clean=False)
    for node in ast.walk(fn):
        if isinstance(node, ast.BinOp) and type(node.op) in SWAP_BIN:
            new = ast.BinOp(left=node.left, op=SWAP_BIN[type(node.op)](), right=node.right)
            out.append(('binop:%s->%s' % (type(node.op).__name__, type(new.op).__name__), node, ast.unparse(new)))
        elif isinstance(node, ast.Compare) and len(node.ops) == 1 and type(node.ops[0]) in SWAP_CMP:
            new = ast.Compare(left=node.left, ops=[SWAP_CMP[type(node.ops[0])]()], comparators=node.comparators)
            out.append(('cmp:%s->%s' % (type(node.ops[0]).__name__, type(new.ops[0]).__name__), node, ast.unparse(new)))
        elif isinstance(node, ast.Constant) and isinstance(node.value, float) and node.value not in (0., 1., 2., 0.5):
            out.append(('const:x1.001', node, repr(node.value * 1.001)))
        elif isinstance(node, ast.Constant) and isinstance(node.value, int) and not isinstance(node.value, bool) \
                and 0 <= node.value <= 20:
            out.append(('int:+1', node, repr(node.value + 1)))
        elif isinstance(node, ast.Call) and len(node.args) >= 2:
            idx = [i for i in range(len(node.args) - 1)
                   if isinstance(node.args[i], (ast.Name, ast.Attribute)) and isinstance(node.args[i + 1], (ast.Name, ast.Attribute))
                   and ast.unparse(node.args[i]) != ast.unparse(node.args[i + 1])]
            for i in idx[:2]:
                args = list(node.args)
                args[i], args[i + 1] = args[i + 1], args[i]
                new = ast.Call(func=node.func, args=args, keywords=node.keywords)
                out.append(('argswap:%d' % i, node, ast.unparse(new)))
        elif isinstance(node, ast.AugAssign) and type(node.op) in SWAP_BIN:
            new = ast.AugAssign(target=node.target, op=SWAP_BIN[type(node.op)](), value=node.value)
            out.append(('augop', node, ast.unparse(new)))
        elif isinstance(node, ast.UnaryOp) and isinstance(node.op, ast.USub) and not isinstance(node.operand, ast.Constant):
            out.append(('neg-dropped', node, '(' + ast.unparse(node.operand) + ')'))
    return [c for c in out if hasattr(c[1], 'end_lineno')]


def splice(src_lines, node, text, stmt=False):
    l0, c0, l1, c1 = node.lineno - 1, node.col_offset, node.end_lineno - 1, node.end_col_offset
    # col offsets are utf-8 byte offsets
    b = [ln.encode('utf-8') for ln in src_lines]
    if not stmt:
        text = '(' + text + ')'
    new = b[l0][:c0] + text.encode('utf-8') + b[l1][c1:]
    res = b[:l0] + [new] + b[l1 + 1:]
    return [x.decode('utf-8') for x in res]


def enumerate_mutants(files):
    muts = []
    for rel in files:
        src = open(os.path.join(REPO, rel)).read()
        tree = ast.parse(src)
        for qn, fn in functions(tree):
            checks = None
            for rx, cs in TARGETS[rel]:
                if re.search(rx, qn):
                    checks = cs
                    break
            if not checks:
                continue
            for kind, node, text in candidates(fn):
                muts.append({'file': rel, 'func': qn, 'kind': kind, 'line': node.lineno, 'col': node.col_offset,
                             'end': [node.end_lineno, node.end_col_offset], 'new': text, 'checks': checks,
                             'stmt': isinstance(node, ast.AugAssign),
                             'old': ast.get_source_segment(src, node)})
    return muts


def stable_ids():
    b = json.load(open('/root/.vp/BASELINE.json'))
    return [re.sub(r'^tamoc\.test\.(test_[a-z_0-9]*)::', r'tamoc/test/\1.py::', t) for t in b['stable_pass']]


def materialise(m, k):
    d = '/tmp/tamoc-mut-%d-%d' % (os.getpid(), k)
    shutil.rmtree(d, True)
    os.makedirs(d)
    subprocess.run('git -C %s archive HEAD | tar -x -C %s' % (REPO, d), shell=True, check=True)
    p = os.path.join(d, m['file'])
    lines = open(p).read().split('\n')

    class N:
        pass
    n = N()
    n.lineno, n.col_offset, n.end_lineno, n.end_col_offset = m['line'], m['col'], m['end'][0], m['end'][1]
    open(p, 'w').write('\n'.join(splice(lines, n, m['new'], stmt=m['stmt'])))
    try:
        ast.parse(open(p).read())
    except SyntaxError:
        shutil.rmtree(d, True)
        return None
    return d


def suite(d, ids):
    p = subprocess.run(['/venv/bin/python', '-m', 'pytest', '-q', '-x', '-p', 'no:cacheprovider', '--timeout=600'] + ids,
                       cwd=d, stdout=subprocess.PIPE, stderr=subprocess.STDOUT, text=True)
    return p.returncode == 0


def run_check(prop, d, seed):
    env = dict(os.environ, TAMOC_REPO=d, VERIF_SEED=str(seed))
    t0 = time.time()
    try:
        p = subprocess.run([os.path.join(VERIF, 'check'), prop, '--tier', 'quick'], cwd=VERIF, env=env,
                           stdout=subprocess.PIPE, stderr=subprocess.STDOUT, text=True, timeout=1500)
        out, rc = p.stdout, p.returncode
    except subprocess.TimeoutExpired:
        out, rc = 'TIMEOUT', 2
    v = [l for l in out.splitlines() if l.startswith('VIOLATION')]
    keys = []
    for l in v[:3]:
        mm = re.search(r'replay=(\S+)', l)
        if mm and os.path.exists(mm.group(1)):
            try:
                keys.append(json.load(open(mm.group(1))).get('key'))
            except Exception:
                pass
    return {'exit': rc, 'violations': len(v), 'nfif': any('no-failing-input-found' in l for l in v), 'keys': keys,
            'wall': round(time.time() - t0, 1), 'tail': out[-300:] if rc not in (0, 1) else ''}


def main():
    ap = argparse.ArgumentParser()
    ap.add_argument('--n', type=int, default=100)
    ap.add_argument('--seed', type=int, default=0)
    ap.add_argument('--files', default=','.join(TARGETS))
    ap.add_argument('--out', default=os.path.join(VERIF, 'mutation'))
    ap.add_argument('--jobs', type=int, default=6)
    a = ap.parse_args()
    files = a.files.split(',')
    os.makedirs(a.out, exist_ok=True)
    allm = enumerate_mutants(files)
    rng = random.Random(a.seed)
    # stratified: the same number per (file, kind class) as far as possible
    byfile = {}
    for m in allm:
        byfile.setdefault(m['file'], []).append(m)
    per = max(1, a.n // len(byfile))
    chosen = []
    for f, ms in sorted(byfile.items()):
        rng.shuffle(ms)
        chosen += ms[:per]
    print('mutants enumerated: %d, chosen: %d' % (len(allm), len(chosen)), flush=True)
    ids = stable_ids()
    res_path = os.path.join(a.out, 'results.jsonl')

    def stage_a(km):
        k, m = km
        d = materialise(m, k)
        if d is None:
            return k, m, None, 'syntax'
        ok = suite(d, ids)
        for f in os.listdir(os.path.join(d, 'tamoc', 'test', 'output')) if os.path.isdir(os.path.join(d, 'tamoc', 'test', 'output')) else []:
            if f.endswith('.nc'):
                os.remove(os.path.join(d, 'tamoc', 'test', 'output', f))
        if not ok:
            shutil.rmtree(d, True)
            return k, m, None, 'suite'
        return k, m, d, 'survives-suite'

    summary = {}
    def chunks():
        items = list(enumerate(chosen))
        with ThreadPoolExecutor(a.jobs) as ex:
            for i in range(0, len(items), 2 * a.jobs):      # bounded look-ahead: at most 2*jobs scratch copies exist
                for r in ex.map(stage_a, items[i:i + 2 * a.jobs]):
                    yield r

    with open(res_path, 'a') as fh:
        for k, m, d, st in chunks():
            rec = dict(m, id=k, status=st)
            if d:
                rec['checks_run'] = {}
                caught = False
                for prop in m['checks']:
                    r = run_check(prop, d, a.seed)
                    rec['checks_run'][prop] = r
                    if r['exit'] == 1 and r['violations'] > 0:
                        caught = True
                        break
                broken = any(r['exit'] not in (0, 1) for r in rec['checks_run'].values())
                rec['status'] = 'caught' if caught else ('broken' if broken else 'missed')
                shutil.rmtree(d, True)
            fh.write(json.dumps(rec) + '\n')
            fh.flush()
            key = (m['file'], rec['status'])
            summary[key] = summary.get(key, 0) + 1
            print('%4d %-32s %-28s %-18s l.%d %s' % (k, m['file'], m['func'][:28], m['kind'], m['line'], rec['status']), flush=True)
    with open(os.path.join(a.out, 'summary.txt'), 'w') as fh:
        for (f, st), c in sorted(summary.items()):
            fh.write('%-34s %-16s %d\n' % (f, st, c))
    print(open(os.path.join(a.out, 'summary.txt')).read())


if __name__ == '__main__':
    main()
