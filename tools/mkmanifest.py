#!/usr/bin/env python3
"""Regenerate MANIFEST.json from the per-property metadata in harness/cXX.py (META dicts)."""
import os, sys, json, re, ast
V = os.path.dirname(os.path.dirname(os.path.abspath(__file__)))
props = [json.loads(l) for l in open(os.path.join(V, 'properties.jsonl'))]
checks, na = [], []
ready = set(open(os.path.join(V, 'tools', 'ready.txt')).read().split())
for p in props:
    pid = p['id']
    f = os.path.join(V, 'harness', 'c%s.py' % pid[1:])
    meta = None
    if os.path.exists(f) and pid in ready:
        src = open(f).read()
        tree = ast.parse(src)
        for n in tree.body:
            if isinstance(n, ast.Assign) and getattr(n.targets[0], 'id', '') == 'META':
                meta = ast.literal_eval(n.value)
    if pid not in ready:
        meta = None
    if meta is None:
        na.append({'property_id': pid, 'reason': 'no check registered yet for this property in the current round (design in DESIGN.md §4; machinery under construction) — nothing is claimed for it'})
        continue
    checks.append({
        'property_id': pid,
        'quick_cmd': './check %s --tier quick' % pid,
        'thorough_cmd': './check %s --tier thorough' % pid,
        'evidence_file': 'evidence/%s.json' % pid,
        'replay_cmd_template': './check %s --replay {path}' % pid,
        'engine': 'lean4-proof+correspondence',
        'level_claimed': {'category': 'proof', 'text': meta['text'], 'design_ref': meta.get('design_ref', 'DESIGN.md §4 ' + pid)},
        'level_note': meta['note'],
        'technique': meta['technique'],
    })
man = {
    'version': 1,
    'setup_cmd': './setup.sh',
    'hooks': {'guard': 'TAMOC_VERIF', 'enable': 'no hooks: the harness calls the real code in-process and monkeypatches recorders from outside; TAMOC_VERIF is reserved',
              'baseline_off_cmd': 'python3 tools/baseline.py', 'source_commits': [], 'add_only': True},
    'engines': [{'name': 'lean4-proof+correspondence', 'path': 'lean/ translate/ harness/',
                 'serves_properties': [c['property_id'] for c in checks],
                 'kind_free_text': 'Lean 4 theorems over models regenerated from /repo by translators or hand-written and tied by a line-protocol correspondence run against the real code'}],
    'checks': checks,
    'notes': 'See DESIGN.md. Known findings: known_findings.txt. Seeded mutations: seeded/.',
    'not_applicable': na,
}
json.dump(man, open(os.path.join(V, 'MANIFEST.json'), 'w'), indent=1)
print('checks:', [c['property_id'] for c in checks], 'not claimed:', [n['property_id'] for n in na])
