#!/usr/bin/env python3
"""pin_theorems.py [Cxx ...] — (re)write harness/theorems/Cxx.txt from the CURRENT library: one line per theorem of the
property namespace: <relative name> <hash of its type> <GEN|->.  Run deliberately after a statement was changed on
purpose; the check compares against these pins on every run."""
import importlib, os, sys
V = os.path.dirname(os.path.dirname(os.path.abspath(__file__)))
sys.path.insert(0, os.path.join(V, 'harness'))
import common
props = [a.upper() for a in sys.argv[1:]] or open(os.path.join(V, 'tools', 'ready.txt')).read().split()
for p in props:
    mod = importlib.import_module('c' + p[1:].lower())
    ctx = common.Ctx(p, 'quick', 0)
    with common.BuildLock():
        common.run_gen(ctx, getattr(mod, 'GEN', []))
        ok, _ = common.lake_build(ctx, mod.MODULES)
    assert ok, 'build failed for ' + p
    common.axiom_audit(ctx, mod.MODULES[0], 'TamocV.Props.' + p)
    pre = 'TamocV.Props.' + p + '.'
    lines = ['%s %s %s' % (n[len(pre):], h, g) for n, (h, g) in sorted(ctx.stmts.items()) if n.startswith(pre)]
    open(os.path.join(V, 'harness', 'theorems', p + '.txt'), 'w').write('\n'.join(lines) + '\n')
    print(p, len(lines), 'theorems pinned,', sum(1 for l in lines if l.endswith('GEN')), 'mention regenerated code')
