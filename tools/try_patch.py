#!/usr/bin/env python3
"""try_patch.py <patch.diff> <check> [<check> ...] [--seed N] [--update-meta seeded/<id>/meta.json]
Apply a patch to a scratch clone of /repo (never /repo itself), run the listed checks against it (TAMOC_REPO) and print
for each: exit code, number of VIOLATION lines, whether they are no-failing-input-found, and the violation keys."""
import json, os, re, shutil, subprocess, sys
args = sys.argv[1:]
seed = '0'
meta = None
if '--seed' in args:
    i = args.index('--seed'); seed = args[i + 1]; del args[i:i + 2]
if '--update-meta' in args:
    i = args.index('--update-meta'); meta = args[i + 1]; del args[i:i + 2]
patch, checks = os.path.abspath(args[0]), [c.upper() for c in args[1:]]
scratch = '/tmp/trypatch_%d' % os.getpid()
shutil.rmtree(scratch, True)
subprocess.run(['git', 'clone', '-q', '/repo', scratch], check=True)
try:
    subprocess.run(['git', 'apply', patch], cwd=scratch, check=True)
    res = {}
    for c in checks:
        p = subprocess.run(['/verif/check', c, '--tier', 'quick'], cwd='/verif', env=dict(os.environ, TAMOC_REPO=scratch, VERIF_SEED=seed),
                           stdout=subprocess.PIPE, stderr=subprocess.STDOUT, text=True)
        v = [l for l in p.stdout.splitlines() if l.startswith('VIOLATION')]
        keys = []
        for l in v:
            m = re.search(r'replay=(\S+)', l)
            if m and os.path.exists(m.group(1)):
                d = json.load(open(m.group(1)))
                keys.append(d.get('key') or [b['name'][:90] for b in d.get('broken_obligations', [])][:3])
        res[c] = {'exit': p.returncode, 'violation_lines': len(v), 'no_failing_input_found': any('no-failing-input-found' in l for l in v), 'keys': keys}
        print(c, json.dumps(res[c]))
        if p.returncode not in (0, 1):
            print(p.stdout[-1500:])
    if meta:
        m = json.load(open(meta))
        m.setdefault('checks_against_patched_copy', {}).update(res)
        m['detected_by'] = sorted(set(m.get('detected_by', [])) | {c for c, r in res.items() if r['exit'] == 1 and r['violation_lines'] > 0})
        json.dump(m, open(meta, 'w'), indent=1)
finally:
    shutil.rmtree(scratch, True)
