#!/bin/sh
# mkseedwt.sh <Cxx> <suffix>: scratch worktree of /repo HEAD for a seed agent, holding only the property text and the stable-test list
p=$1; d=/tmp/seed-$(echo $p | tr A-Z a-z)$2
git -C /repo worktree add --detach $d HEAD -q || exit 1
python3 - $p $d <<'PY'
import json,sys
for l in open('/verif/properties.jsonl'):
    d=json.loads(l)
    if d['id']==sys.argv[1]:
        open(sys.argv[2]+'/PROPERTY.json','w').write(json.dumps(d,indent=1))
b=json.load(open('/root/.vp/BASELINE.json'))
open(sys.argv[2]+'/STABLE_TESTS.txt','w').write('\n'.join(b['stable_pass'])+'\n')
PY
echo $d
