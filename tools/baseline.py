#!/usr/bin/env python3
"""Run the repository's pinned stable baseline (guard OFF) and compare with
/root/.vp/BASELINE.json.  Exit 0 iff every stable test passes."""
import json, os, subprocess, sys, tempfile, glob
import xml.etree.ElementTree as ET

base = json.load(open('/root/.vp/BASELINE.json')) if os.path.exists('/root/.vp/BASELINE.json') else None
env = dict(os.environ)
env.pop('TAMOC_VERIF', None)
with tempfile.TemporaryDirectory() as td:
    xml = os.path.join(td, 'r.xml')
    cmd = ['/venv/bin/python', '-m', 'pytest', '-ra', '-q', '-p', 'no:cacheprovider', '--timeout=900',
           '--continue-on-collection-errors', '--junitxml=' + xml]
    p = subprocess.run(cmd, cwd='/repo', env=env, stdout=subprocess.PIPE, stderr=subprocess.STDOUT, text=True)
    passed = set()
    for tc in ET.parse(xml).getroot().iter('testcase'):
        if not any(c.tag in ('failure', 'error', 'skipped') for c in tc):
            passed.add('%s::%s' % (tc.get('classname'), tc.get('name')))
# the suite leaves netCDF files behind (git-ignored); remove them
for f in glob.glob('/repo/tamoc/test/output/*'):
    try:
        os.remove(f)
    except OSError:
        pass
print('passed:', len(passed))
if base:
    missing = [t for t in base['stable_pass'] if t not in passed]
    print('stable tests not passing:', missing)
    newly = sorted(passed - set(base['stable_pass']))
    print('additionally passing (%d):' % len(newly), newly)
    sys.exit(1 if missing else 0)
