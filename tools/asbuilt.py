#!/usr/bin/env python3
"""asbuilt.py — regenerate the "as built" table of DESIGN.md §10 (between the ASBUILT markers) from the machinery itself:
harness META / GEN / MODULES, the committed evidence files (quick tier, seed 0, against /repo), seeded/*/meta.json and
known_findings.txt.  Run after tools/runall.sh."""
import glob, importlib, json, os, re, sys

V = os.path.dirname(os.path.dirname(os.path.abspath(__file__)))
sys.path.insert(0, os.path.join(V, 'harness'))
props = open(os.path.join(V, 'tools', 'ready.txt')).read().split()
kf = open(os.path.join(V, 'known_findings.txt')).read().splitlines()
rows = []
for p in props:
    mod = importlib.import_module('c' + p[1:].lower())
    ev = json.load(open(os.path.join(V, 'evidence', p + '.json')))
    cov = ev['coverage']
    thms = cov.get('theorems', [])
    gen = getattr(mod, 'GEN', [])
    # theorems whose statement mentions a definition regenerated from the source on every run
    GENRX = {'C01': r'^(gen_|coefs_refines)', 'C08': r'.', 'C10': r'^gen_', 'C16': r'^gen_', 'C11': r'^(eos_density_scaleInvariant|diameter_prescribed_eos)$',
             'C13': r'.', 'C15': r'(table|database|keys|chem_(rules|single|convert)|ambient_(convert|real))', 'C20': r'.'}
    genthm = [t for t in thms if p in GENRX and re.search(GENRX[p], t.split('.')[-1])]
    seeds = []
    for d in sorted(glob.glob(os.path.join(V, 'seeded', p + '-*'))):
        m = json.load(open(os.path.join(d, 'meta.json')))
        det = m.get('detected_by', [])
        seeds.append('%s%s' % (os.path.basename(d), '' if p in det else ('→' + ','.join(det) if det else ' (see §9.4)')))
    nfind = sum(1 for l in kf if l.startswith('finding:') and 'property=%s ' % p in l)
    nfix = sum(1 for l in kf if l.startswith('fixed:') and 'property=%s ' % p in l)
    tie = ('regenerated from source (%s)%s' % (','.join(gen), '' if p in ('C13', 'C20', 'C08') else ' + hand model tied by correspondence')) if genthm else 'hand model tied by correspondence' + (' (density oracle regenerated)' if gen else '')
    rows.append('| %s | %d (%d about regenerated code) | %s | %d / %d | %d / %d | %s | %d / %d |' % (
        p, len(thms), len(genthm), tie, cov['discharged'], cov['obligations'], cov['evaluations'], cov['distinct_nontrivial'],
        ', '.join(seeds) or '—', nfind, nfix))
table = ['| id | theorems audited | tie to /repo | obligations discharged | evaluations / distinct non-trivial (quick) | seeded changes (own check catches unless noted) | known findings / fixes |',
         '|----|----|----|----|----|----|----|'] + rows
p = os.path.join(V, 'DESIGN.md')
s = open(p).read()
b, e = '<!-- ASBUILT-BEGIN -->', '<!-- ASBUILT-END -->'
assert b in s and e in s
s = s[:s.index(b) + len(b)] + '\n' + '\n'.join(table) + '\n' + s[s.index(e):]
open(p, 'w').write(s)
print('\n'.join(table))
