#!/usr/bin/env python3
"""
keep_seed.py <seed-id> <property> <worktree> [checks...]
Confirm a seeded change produced by an independent sub-agent and file it under /verif/seeded/<seed-id>/:
  1. in a scratch copy of /repo (never /repo itself): demo exits 0 without the patch, non-zero with it;
  2. the 37 pinned stable tests pass with the patch applied;
  3. run the listed checks (default: the property's own) against the patched copy via TAMOC_REPO and
     record which raise a VIOLATION (with / without a concrete failing input).
"""
import json, os, shutil, subprocess, sys, glob
import xml.etree.ElementTree as ET

sid, prop, wt = sys.argv[1], sys.argv[2].upper(), sys.argv[3]
checks = [c.upper() for c in sys.argv[4:]] or [prop]
V = '/verif'
patch = os.path.join(wt, 'patch.diff')
demos = [f for f in glob.glob(os.path.join(wt, 'demo_*.py'))]
assert os.path.exists(patch) and demos, 'patch.diff / demo missing'
demo = demos[0]
scratch = '/tmp/keepseed_%s' % sid
shutil.rmtree(scratch, True)
subprocess.run(['git', 'clone', '-q', '/repo', scratch], check=True)
shutil.copy(demo, scratch)
dn = os.path.basename(demo)


def run_demo():
    return subprocess.run(['/venv/bin/python', dn], cwd=scratch, stdout=subprocess.PIPE, stderr=subprocess.STDOUT, text=True, timeout=1800)


meta = {'seed_id': sid, 'breaks_property': prop}
r0 = run_demo()
meta['demo_exit_unpatched'] = r0.returncode
subprocess.run(['git', 'apply', patch], cwd=scratch, check=True)
r1 = run_demo()
meta['demo_exit_patched'] = r1.returncode
meta['demo_output_patched_tail'] = r1.stdout[-600:]
# pinned tests with the patch
base = json.load(open('/root/.vp/BASELINE.json'))
xml = os.path.join(scratch, 'r.xml')
subprocess.run(['/venv/bin/python', '-m', 'pytest', '-q', '-p', 'no:cacheprovider', '--timeout=900', '--continue-on-collection-errors',
                '--junitxml=' + xml], cwd=scratch, stdout=subprocess.DEVNULL, stderr=subprocess.DEVNULL)
passed = set()
for tc in ET.parse(xml).getroot().iter('testcase'):
    if not any(c.tag in ('failure', 'error', 'skipped') for c in tc):
        passed.add('%s::%s' % (tc.get('classname'), tc.get('name')))
missing = [t for t in base['stable_pass'] if t not in passed]
meta['stable_tests_failing_with_patch'] = missing
os.remove(xml)
for f in glob.glob(os.path.join(scratch, 'tamoc/test/output/*')):
    if not f.endswith('.gitignore'):
        os.remove(f)
meta['confirmed'] = (r0.returncode == 0 and r1.returncode != 0 and not missing)
# run checks against the patched copy
res = {}
env = dict(os.environ, TAMOC_REPO=scratch)
for c in checks:
    p = subprocess.run(['./check', c], cwd=V, env=env, stdout=subprocess.PIPE, stderr=subprocess.STDOUT, text=True, timeout=7200)
    viol = [l for l in p.stdout.splitlines() if l.startswith('VIOLATION')]
    keys = []
    for l in viol:
        try:
            path = l.split('replay=')[1].split()[0]
            keys.append(json.load(open(path)).get('key', 'broken-obligation'))
        except Exception:
            pass
    res[c] = {'exit': p.returncode, 'violation_lines': len(viol), 'no_failing_input_found': any('no-failing-input-found' in l for l in viol),
              'keys': keys}
meta['checks_against_patched_copy'] = res
meta['detected_by'] = [c for c, r in res.items() if r['exit'] == 1]
out = os.path.join(V, 'seeded', sid)
os.makedirs(out, exist_ok=True)
shutil.copy(patch, os.path.join(out, 'patch.diff'))
shutil.copy(demo, os.path.join(out, dn))
meta['what_i_ran'] = ['git clone /repo %s' % scratch, 'demo unpatched -> exit %d' % r0.returncode, 'git apply patch.diff', 'demo patched -> exit %d' % r1.returncode,
                      'pinned suite with patch: %d stable tests failing' % len(missing)] + ['TAMOC_REPO=%s ./check %s -> exit %d' % (scratch, c, r['exit']) for c, r in res.items()]
json.dump(meta, open(os.path.join(out, 'meta.json'), 'w'), indent=1)
shutil.rmtree(scratch, True)
print(json.dumps({k: meta[k] for k in ('seed_id', 'confirmed', 'demo_exit_unpatched', 'demo_exit_patched', 'stable_tests_failing_with_patch', 'detected_by')}))
