#!/bin/sh
# reseed_all.sh — run every filed seeded change against its property's own check (quick tier, seed 0) and print one line each
cd "$(dirname "$0")/.." || exit 2
# optional argument: a shell pattern of seed ids (e.g. "C0[1-5]-*") to run a part of the regression
for d in seeded/${1:-C*-*}; do
  id=$(basename "$d"); p=${id%-*}
  out=$(python3 tools/try_patch.py "$d/patch.diff" "$p" 2>&1 | grep "^$p " | cut -c1-260)
  echo "$id $out"
done
