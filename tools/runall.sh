#!/bin/sh
# run every claimed check (tools/ready.txt) once on the unchanged tree; prints one line per check
cd "$(dirname "$0")/.." || exit 2
tier="${1:-quick}"
rc=0
for p in $(cat tools/ready.txt); do
  out=$(./check "$p" --tier "$tier" 2>&1 | grep -v "US_SPHERE" | tail -3)
  code=$?
  echo "$out" | tail -1
  echo "$out" | grep -q "VIOLATION" && { echo "$out" | grep VIOLATION; rc=1; }
done
exit $rc
