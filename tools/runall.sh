#!/bin/sh
# run every claimed check (tools/ready.txt) once on the unchanged tree; prints one line per check
cd "$(dirname "$0")/.." || exit 2
tier="${1:-quick}"
rc=0
for p in $(cat tools/ready.txt); do
  full=$(./check "$p" --tier "$tier" 2>&1)
  code=$?
  out=$(echo "$full" | grep -v "US_SPHERE" | tail -3)
  echo "$out" | tail -1
  echo "$full" | grep -q "^VIOLATION" && { echo "$full" | grep "^VIOLATION"; rc=1; }
  [ "$code" -ne 0 ] && [ "$code" -ne 1 ] && { echo "$p: exit $code (infrastructure error / time-out)"; rc=2; }
  [ "$code" -eq 1 ] && rc=1
done
exit $rc
