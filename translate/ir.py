"""
Common IR + Lean back end for the two front ends (py2ir.py, f2ir.py).

A translated routine is a straight-line SSA program:

    params : [(name, kind)]          kind: 's' scalar, 'v' vector (List α)
    lets   : [(ssa, kind, expr)]     evaluated in order (both branches of an `if`
                                     are hoisted; the merge is an `ite` let)
    rets   : [(expr, kind)]

Expressions are tuples:
    ('lit', mant:int, exp10:int)        exact decimal  mant * 10**exp10 (mant >= 0)
    ('rat', num:int, den:int)           exact rational (Fortran default-real literals)
    ('nat', n)                          integer literal
    ('var', ssa)
    ('neg', a) ('bin', op, a, b)        op in + - * /
    ('npow', a, n) ('rpow', a, b)
    ('fn', name, [args])                name in exp log log10 sqrt abs sin cos
    ('call', fname, [args], k, nout)    k-th output of translated routine fname
    ('ite', cond, a, b)
    ('idx', vec_expr, index_expr)       element of a List (getD .. 0)
    ('ivar', name)                      index variable (Nat) of an enclosing map
    ('inat', n)                         literal Nat index
    ('listlit', [exprs])                literal list
    ('vmap', n_expr, ivar, inner_lets, body)   (List.range n).map fun ivar => body
    ('len', vec_expr)                   length (Nat)
    ('sum', vec_expr)
conditions:
    ('cmp', op, a, b) op in < <= > >= == ; ('and', c, d) ; ('or', c, d) ; ('not', c)

Anything a front end cannot express raises Untranslatable — the tie is then
broken *loudly* (DESIGN §2.2), never silently skipped.
"""
from fractions import Fraction
import struct


class Untranslatable(Exception):
    pass


def lit_from_text(txt):
    """exact decimal from a Python/Fortran literal text ('1.e-5', '5.26D-2', '40')"""
    t = txt.strip().lower().replace('d', 'e').replace('_dp', '')
    if 'e' in t:
        m, e = t.split('e')
        e = int(e)
    else:
        m, e = t, 0
    if '.' in m:
        ip, fp = m.split('.')
    else:
        ip, fp = m, ''
    digits = (ip + fp) or '0'
    e -= len(fp)
    mant = int(digits)
    # normalise trailing zeros so that 188.730 and 188.73 are the same literal
    while mant != 0 and mant % 10 == 0:
        mant //= 10
        e += 1
    if mant == 0:
        e = 0
    return ('lit', mant, e)


def f32_rat(txt):
    """Fortran default-real literal: exact rational value of its binary32 rounding"""
    l = lit_from_text(txt)
    fr = Fraction(l[1]) * (Fraction(10) ** l[2])
    f = struct.unpack('f', struct.pack('f', float(fr)))[0]
    r = Fraction(f)
    if r == fr:
        return l          # exactly representable: same number as the double literal
    return ('rat', r.numerator, r.denominator)


class Val:
    """value during symbolic execution: scalar expr or vector (index function)"""

    def __init__(self, kind, expr=None, at=None, n=None):
        self.kind = kind
        self.expr = expr
        self._at = at
        self.n = n

    def at(self, i):
        if self.kind == 's':
            return self.expr
        return self._at(i)


def S(e):
    return Val('s', expr=e)


def V(at, n):
    return Val('v', at=at, n=n)


def vecvar(name_expr, n):
    return V(lambda i: ('idx', name_expr, i), n)


def binop(op, a, b):
    if a.kind == 's' and b.kind == 's':
        return S(('bin', op, a.expr, b.expr))
    n = a.n if a.kind == 'v' else b.n
    return V(lambda i: ('bin', op, a.at(i), b.at(i)), n)


def unop(mk, a):
    if a.kind == 's':
        return S(mk(a.expr))
    return V(lambda i: mk(a.at(i)), a.n)


class Builder:
    """SSA builder shared by both front ends"""

    def __init__(self, fname):
        self.fname = fname
        self.params = []
        self.lets = []
        self.counter = {}
        self.env = {}          # source name -> Val (scalar: ('var', ssa))
        self.constarr = {}     # source name -> list of exprs  (1-D literal arrays)
        self.constarr2 = {}    # source name -> list of rows
        self.ivar_count = 0
        self.loop = None       # current loop context
        self.guard = []        # branch conditions under which the current statement runs

    def fresh(self, base):
        k = self.counter.get(base, 0) + 1
        self.counter[base] = k
        return '%s_%d' % (base, k)

    def fresh_ivar(self):
        self.ivar_count += 1
        return 'i%d' % self.ivar_count

    def add_param(self, name, kind):
        ssa = name + '_0'
        self.params.append((ssa, kind))
        if kind == 'v':
            self.env[name] = vecvar(('var', ssa), ('len', ('var', ssa)))
        else:
            self.env[name] = S(('var', ssa))

    def materialize(self, name, val, lets=None):
        """bind val to a new SSA name (vector values become a List let)"""
        lets = self.lets if lets is None else lets
        ssa = self.fresh(name)
        if val.kind == 's':
            lets.append((ssa, 's', val.expr, tuple(self.guard)))
            return S(('var', ssa))
        iv = self.fresh_ivar()
        body = val.at(('ivar', iv))
        lets.append((ssa, 'v', ('vmap', val.n, iv, [], body), tuple(self.guard)))
        return vecvar(('var', ssa), val.n)

    def assign(self, name, val):
        if self.loop is not None:
            # scalar temporaries inside a loop body live in the lambda
            if val.kind != 's':
                raise Untranslatable('vector assignment inside loop: %s' % name)
            ssa = self.fresh(name)
            self.loop['lets'].append((ssa, 's', val.expr, tuple(self.guard)))
            self.env[name] = S(('var', ssa))
            return
        self.env[name] = self.materialize(name, val)

    def merge(self, cond, env_a, env_b, base_env):
        """merge two branch environments into self.env with ite"""
        out = {}
        for k in dict.fromkeys(list(env_a) + list(env_b)):      # insertion order: deterministic output
            a = env_a.get(k)
            b = env_b.get(k)
            if a is None or b is None:
                continue          # defined in one branch only: dead after merge
            if a is b:
                out[k] = a
                continue
            if a.kind != b.kind:
                raise Untranslatable('kind mismatch at merge: %s' % k)
            if a.kind == 's':
                if a.expr == b.expr:
                    out[k] = a
                    continue
                v = S(('ite', cond, a.expr, b.expr))
            else:
                ea, eb = a, b
                v = V(lambda i, ea=ea, eb=eb: ('ite', cond, ea.at(i), eb.at(i)), a.n)
            if self.loop is not None:
                if v.kind != 's':
                    # element-level merge inside a loop: keep as index function
                    out[k] = v
                    continue
                ssa = self.fresh(k)
                self.loop['lets'].append((ssa, 's', v.expr, tuple(self.guard)))
                out[k] = S(('var', ssa))
            else:
                out[k] = self.materialize(k, v)
        self.env = out


# ---------------------------------------------------------------------------
# Lean back end
# ---------------------------------------------------------------------------

def lean_num(e):
    if e[0] == 'nat':
        return '%d' % e[1]
    if e[0] == 'rat':
        return '((%d : α) / %d)' % (e[1], e[2])
    mant, ex = e[1], e[2]
    if ex >= 0:
        s = str(mant * 10 ** ex) + '.0'
    else:
        digs = str(mant).rjust(-ex + 1, '0')
        s = digs[:ex] + '.' + digs[ex:]
    return '(%s : α)' % s


def lean_expr(e):
    t = e[0]
    if t in ('lit', 'rat', 'nat'):
        return lean_num(e)
    if t == 'var':
        return e[1]
    if t == 'neg':
        return '(-%s)' % lean_expr(e[1])
    if t == 'bin':
        return '(%s %s %s)' % (lean_expr(e[2]), e[1], lean_expr(e[3]))
    if t == 'npow':
        return '(Num.npow %s %d)' % (lean_expr(e[1]), e[2])
    if t == 'rpow':
        return '(Num.rpow %s %s)' % (lean_expr(e[1]), lean_expr(e[2]))
    if t == 'fn':
        return '(Num.%s %s)' % (e[1], ' '.join(lean_expr(a) for a in e[2]))
    if t == 'call':
        c = '(%s %s)' % (e[1], ' '.join(lean_expr(a) for a in e[2]))
        if e[4] == 1:
            return c
        proj = '.1' if e[3] == 0 else ('.2' * e[3] + ('.1' if e[3] < e[4] - 1 else ''))
        return '%s%s' % (c, proj)
    if t == 'ite':
        return '(if %s then %s else %s)' % (lean_cond(e[1]), lean_expr(e[2]), lean_expr(e[3]))
    if t == 'idx':
        return '(%s.getD %s 0)' % (lean_expr(e[1]), lean_expr(e[2]))
    if t == 'ivar':
        return e[1]
    if t == 'inat':
        return '%d' % e[1]
    if t == 'listlit':
        return '([%s] : List α)' % ', '.join(lean_expr(a) for a in e[1])
    if t == 'len':
        return '%s.length' % lean_expr(e[1])
    if t == 'sum':
        return '(Num.sum %s)' % lean_expr(e[1])
    if t == 'vmap':
        n, iv, inner, body = e[1], e[2], e[3], e[4]
        ns = lean_expr(n) if isinstance(n, tuple) else str(n)
        b = ''
        for (ssa, _k, ex, _g) in inner:
            b += 'let %s : α := %s; ' % (ssa, lean_expr(ex))
        return '((List.range %s).map fun %s => %s%s)' % (ns, iv, b, lean_expr(body))
    raise Untranslatable('lean_expr: %r' % (e,))


def lean_cond(c):
    t = c[0]
    if t == 'cmp':
        a, b = lean_expr(c[2]), lean_expr(c[3])
        op = c[1]
        if op == '<':
            return '(%s < %s)' % (a, b)
        if op == '<=':
            return '(%s ≤ %s)' % (a, b)
        if op == '>':
            return '(%s < %s)' % (b, a)
        if op == '>=':
            return '(%s ≤ %s)' % (b, a)
        if op == '==':
            return '(%s ≤ %s ∧ %s ≤ %s)' % (a, b, b, a)
        raise Untranslatable('cmp ' + op)
    if t == 'and':
        return '(%s ∧ %s)' % (lean_cond(c[1]), lean_cond(c[2]))
    if t == 'or':
        return '(%s ∨ %s)' % (lean_cond(c[1]), lean_cond(c[2]))
    if t == 'not':
        return '(¬ %s)' % lean_cond(c[1])
    raise Untranslatable('lean_cond: %r' % (c,))


def lean_fn(name, params, lets, rets):
    tys = {'s': 'α', 'v': 'List α'}
    ps = ' '.join('(%s : %s)' % (p, tys[k]) for p, k in params)
    rty = ' × '.join(tys[k] for _e, k in rets)
    out = ['def %s {α : Type} [Num α] %s : %s :=' % (name, ps, rty)]
    for (ssa, k, ex, _g) in lets:
        out.append('  let %s : %s := %s' % (ssa, tys[k], lean_expr(ex)))
    out.append('  (%s)' % ', '.join(lean_expr(e) for e, _k in rets))
    return '\n'.join(out)


# ---------------------------------------------------------------------------
# well-definedness predicate (C20): path-sensitive conjunction of
#   denominators ≠ 0, log args > 0, sqrt args ≥ 0, rpow bases > 0 (or ≥ 0)
# ---------------------------------------------------------------------------

def wd_conds(e, acc, guard):
    """collect (guard, kind, expr) obligations of expression e"""
    t = e[0]
    if t in ('lit', 'rat', 'nat', 'var', 'ivar', 'inat', 'len'):
        return
    if t == 'neg':
        wd_conds(e[1], acc, guard)
    elif t == 'bin':
        wd_conds(e[2], acc, guard)
        wd_conds(e[3], acc, guard)
        if e[1] == '/':
            acc.append((guard, 'ne0', e[3]))
    elif t == 'npow':
        wd_conds(e[1], acc, guard)
    elif t == 'rpow':
        wd_conds(e[1], acc, guard)
        wd_conds(e[2], acc, guard)
        ex = e[2]
        # a literal non-negative exponent tolerates a zero base (0**1.5 = 0); otherwise the base must be
        # positive (a negative base gives a complex/NaN result, a zero base with a negative exponent raises)
        if (ex[0] in ('lit', 'nat') and ex[1] >= 0) or (ex[0] == 'bin' and ex[1] == '/' and ex[2][0] in ('lit', 'nat')
                                                      and ex[3][0] in ('lit', 'nat') and ex[2][1] >= 0 and ex[3][1] > 0):
            acc.append((guard, 'nonneg', e[1]))
        else:
            acc.append((guard, 'pos', e[1]))
    elif t == 'fn':
        for a in e[2]:
            wd_conds(a, acc, guard)
        if e[1] in ('log', 'log10'):
            acc.append((guard, 'pos', e[2][0]))
        if e[1] == 'sqrt':
            acc.append((guard, 'nonneg', e[2][0]))
    elif t == 'call':
        for a in e[2]:
            wd_conds(a, acc, guard)
        acc.append((guard, 'wd', e))
    elif t == 'ite':
        wd_conds(e[2], acc, guard + [e[1]])
        wd_conds(e[3], acc, guard + [('not', e[1])])
    elif t == 'idx':
        wd_conds(e[1], acc, guard)
    elif t in ('listlit',):
        for a in e[1]:
            wd_conds(a, acc, guard)
    elif t == 'sum':
        wd_conds(e[1], acc, guard)
    elif t == 'vmap':
        pass   # vector bodies: handled per element by the caller (not used for C20 scalars)


def lean_wd(name, params, lets, rets):
    """`<name>_WD` : Prop — every denominator non-zero, every log argument positive, every sqrt argument
    non-negative, every real-power base positive (non-negative for a literal non-negative exponent), on the
    execution path that evaluates it (guards = branch conditions).  Scalar routines only."""
    if any(k != 's' for _p, k in params) or any(k != 's' for (_s, k, _e, _g) in lets):
        return None
    acc = []
    for (ssa, k, ex, g) in lets:
        wd_conds(ex, acc, list(g))
    for (e, k) in rets:
        wd_conds(e, acc, [])
    ps = ' '.join('(%s : α)' % p for p, _k in params)
    out = ['def %s_WD {α : Type} [Num α] %s : Prop :=' % (name, ps)]
    for (ssa, k, ex, _g) in lets:
        out.append('  let %s : α := %s' % (ssa, lean_expr(ex)))
    conj = []
    seen = set()
    for guard, kind, e in acc:
        if kind == 'ne0':
            c = '(%s ≠ 0)' % lean_expr(e)
        elif kind == 'pos':
            c = '(0 < %s)' % lean_expr(e)
        elif kind == 'nonneg':
            c = '(0 ≤ %s)' % lean_expr(e)
        elif kind == 'wd':
            c = '(%s_WD %s)' % (e[1], ' '.join(lean_expr(a) for a in e[2]))
        else:
            raise Untranslatable('wd kind ' + kind)
        # literal divisors / bases need no obligation
        if e[0] in ('lit', 'nat') and e[1] > 0 and kind in ('ne0', 'pos', 'nonneg'):
            continue
        for gc in reversed(guard):
            c = '(%s → %s)' % (lean_cond(gc), c)
        if c not in seen:
            seen.add(c)
            conj.append(c)
    out.append('  ' + ' ∧\n  '.join(conj + ['True']))
    return '\n'.join(out)
