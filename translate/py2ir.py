"""
Python `ast` -> IR front end.  Handles the straight-line numeric subset used by
seawater.py, the dbm_p.py correlations and InsolubleParticle arithmetic:
assignments, arithmetic, ** with literal / expression exponents, np.exp/log/
log10/sqrt/abs/cos/sin, comparisons, if/elif/else, calls to other translated
functions, `for i in range(len(v))` element loops, np.zeros, literal arrays.
"""
import ast
import copy
from ir import (Builder, Val, S, V, vecvar, binop, unop, lit_from_text,
                Untranslatable, lean_fn)

NPFN = {'exp': 'exp', 'log': 'log', 'log10': 'log10', 'sqrt': 'sqrt',
        'abs': 'abs', 'cos': 'cos', 'sin': 'sin'}


class PyFront:
    def __init__(self, src, shapes, module_consts=None, known=None):
        """shapes: {fname: {param: 's'|'v'}} (default 's');
        known: {fname: (nparams_kinds, nout, out_kinds)} of already translated routines"""
        self.src = src
        self.tree = ast.parse(src)
        self.shapes = shapes
        self.known = known if known is not None else {}
        self.consts = {}
        for node in self.tree.body:
            if isinstance(node, ast.Assign) and len(node.targets) == 1 \
                    and isinstance(node.targets[0], ast.Name) \
                    and isinstance(node.value, ast.Constant) \
                    and isinstance(node.value.value, (int, float)):
                self.consts[node.targets[0].id] = self.const(node.value)
        if module_consts:
            self.consts.update(module_consts)

    def const(self, node):
        txt = ast.get_source_segment(self.src, node)
        if isinstance(node.value, bool):
            raise Untranslatable('bool const')
        if isinstance(node.value, int):
            return ('nat', node.value)
        return lit_from_text(txt)

    def functions(self):
        return {n.name: n for n in self.tree.body if isinstance(n, ast.FunctionDef)}

    # -- expressions --------------------------------------------------------
    def ev(self, b, node):
        if isinstance(node, ast.Constant):
            if isinstance(node.value, (int, float)) and not isinstance(node.value, bool):
                return S(self.const(node))
            raise Untranslatable('constant %r' % (node.value,))
        if isinstance(node, ast.Name):
            if node.id in b.env:
                return b.env[node.id]
            if node.id in b.constarr:
                arr = b.constarr[node.id]
                return V(lambda i, arr=arr: ('idx', ('listlit', arr), i), len(arr))
            if node.id in self.consts:
                return S(self.consts[node.id])
            raise Untranslatable('unknown name %s in %s' % (node.id, b.fname))
        if isinstance(node, ast.UnaryOp):
            a = self.ev(b, node.operand)
            if isinstance(node.op, ast.USub):
                return unop(lambda x: ('neg', x), a)
            if isinstance(node.op, ast.UAdd):
                return a
            raise Untranslatable('unary op')
        if isinstance(node, ast.BinOp):
            if isinstance(node.op, ast.Pow):
                base = self.ev(b, node.left)
                ex = node.right
                if isinstance(ex, ast.Constant) and isinstance(ex.value, int) \
                        and not isinstance(ex.value, bool) and ex.value >= 0:
                    n = ex.value
                    return unop(lambda x: ('npow', x, n), base)
                e = self.ev(b, ex)
                if e.kind == 's' and base.kind == 's':
                    return S(('rpow', base.expr, e.expr))
                nn = base.n if base.kind == 'v' else e.n
                return V(lambda i: ('rpow', base.at(i), e.at(i)), nn)
            ops = {ast.Add: '+', ast.Sub: '-', ast.Mult: '*', ast.Div: '/'}
            if type(node.op) not in ops:
                raise Untranslatable('binop %s' % type(node.op).__name__)
            return binop(ops[type(node.op)], self.ev(b, node.left), self.ev(b, node.right))
        if isinstance(node, ast.Call):
            return self.call(b, node)
        if isinstance(node, ast.Subscript):
            return self.subscript(b, node)
        if isinstance(node, ast.IfExp):
            c = self.cond(b, node.test)
            x, y = self.ev(b, node.body), self.ev(b, node.orelse)
            if x.kind == 's' and y.kind == 's':
                return S(('ite', c, x.expr, y.expr))
            raise Untranslatable('vector IfExp')
        raise Untranslatable('expr %s' % type(node).__name__)

    def index_expr(self, b, node):
        """index expression -> ('inat', k) or ('ivar', name)"""
        if isinstance(node, ast.Constant) and isinstance(node.value, int):
            return ('inat', node.value)
        if isinstance(node, ast.Name) and b.loop is not None and node.id == b.loop['var']:
            return ('ivar', b.loop['ivar'])
        raise Untranslatable('index expression')

    def subscript(self, b, node):
        if not isinstance(node.value, ast.Name):
            raise Untranslatable('subscript of non-name')
        name = node.value.id
        sl = node.slice
        if isinstance(sl, ast.Tuple):
            # 2-D literal table: name[row_const, col]
            if name in b.constarr2 and len(sl.elts) == 2 and isinstance(sl.elts[0], ast.Constant):
                row = b.constarr2[name][sl.elts[0].value]
                j = self.index_expr(b, sl.elts[1])
                if j[0] == 'inat':
                    return S(row[j[1]])
                return S(('idx', ('listlit', row), j))
            raise Untranslatable('2-D subscript %s' % name)
        i = self.index_expr(b, sl)
        if b.loop is not None and name in b.loop['elem'] and i[0] == 'ivar':
            return S(b.loop['elem'][name])
        if name in b.constarr:
            arr = b.constarr[name]
            if i[0] == 'inat':
                return S(arr[i[1]])
            return S(('idx', ('listlit', arr), i))
        if name in b.env and b.env[name].kind == 'v':
            return S(b.env[name].at(i))
        raise Untranslatable('subscript %s' % name)

    def call(self, b, node):
        f = node.func
        if isinstance(f, ast.Attribute) and isinstance(f.value, ast.Name) and f.value.id == 'np':
            nm = f.attr
            if nm in NPFN:
                a = self.ev(b, node.args[0])
                fn = NPFN[nm]
                return unop(lambda x: ('fn', fn, [x]), a)
            if nm == 'sum':
                a = self.ev(b, node.args[0])
                if a.kind != 'v':
                    raise Untranslatable('np.sum of scalar')
                iv = b.fresh_ivar()
                return S(('sum', ('vmap', a.n, iv, [], a.at(('ivar', iv)))))
            if nm == 'zeros':
                n = self.length_of(b, node.args[0])
                return V(lambda i: ('nat', 0), n)
            raise Untranslatable('np.%s' % nm)
        if isinstance(f, ast.Name):
            if f.id == 'float':
                return self.ev(b, node.args[0])
            if f.id == 'f32':
                # Fortran default-real literal (f2ir.py): exact value of its binary32 rounding
                from ir import f32_rat
                return S(f32_rat(node.args[0].value))
            if f.id in self.known:
                pk, nout, outk = self.known[f.id]
                args = []
                for a, k in zip(node.args, pk):
                    v = self.ev(b, a)
                    if k == 'v':
                        if v.kind != 'v':
                            raise Untranslatable('scalar passed for vector param')
                        args.append(self.vec_expr(b, v))
                    else:
                        if v.kind != 's':
                            raise Untranslatable('vector passed for scalar param in call to %s' % f.id)
                        args.append(v.expr)
                if len(node.args) != len(pk):
                    raise Untranslatable('arity of %s' % f.id)
                if nout != 1:
                    raise Untranslatable('multi-output call in expression')
                e = ('call', f.id, args, 0, 1)
                if outk[0] == 'v':
                    n = None
                    for a in args:
                        pass
                    # length: that of the first vector argument
                    vn = [self.ev(b, a).n for a, k in zip(node.args, pk) if k == 'v']
                    if b.loop is not None:
                        raise Untranslatable('vector call inside loop')
                    tmp = b.fresh('call_' + f.id)
                    b.lets.append((tmp, 'v', e, tuple(b.guard)))
                    return vecvar(('var', tmp), vn[0])
                return S(e)
        raise Untranslatable('call %s' % ast.dump(f))

    def vec_expr(self, b, v):
        """a List-typed Lean expression for vector value v"""
        iv = b.fresh_ivar()
        body = v.at(('ivar', iv))
        # a plain variable: idx(var, i) -> var
        if body[0] == 'idx' and body[2] == ('ivar', iv) and body[1][0] == 'var':
            return body[1]
        return ('vmap', v.n, iv, [], body)

    def length_of(self, b, node):
        # D.shape, len(D), nc (= len(mass)), literal
        if isinstance(node, ast.Attribute) and node.attr == 'shape' and isinstance(node.value, ast.Name):
            return b.env[node.value.id].n
        if isinstance(node, ast.Call) and isinstance(node.func, ast.Name) and node.func.id == 'len':
            return b.env[node.args[0].id].n
        if isinstance(node, ast.Constant) and isinstance(node.value, int):
            return node.value
        if isinstance(node, ast.Name) and node.id in b.lenvars:
            return b.lenvars[node.id]
        raise Untranslatable('length expression')

    def cond(self, b, node):
        if isinstance(node, ast.Compare) and len(node.ops) == 1:
            ops = {ast.Lt: '<', ast.LtE: '<=', ast.Gt: '>', ast.GtE: '>=', ast.Eq: '=='}
            if type(node.ops[0]) not in ops:
                raise Untranslatable('compare op')
            a = self.ev(b, node.left)
            c = self.ev(b, node.comparators[0])
            if a.kind != 's' or c.kind != 's':
                raise Untranslatable('vector compare')
            return ('cmp', ops[type(node.ops[0])], a.expr, c.expr)
        if isinstance(node, ast.BoolOp):
            cs = [self.cond(b, v) for v in node.values]
            tag = 'and' if isinstance(node.op, ast.And) else 'or'
            r = cs[0]
            for c in cs[1:]:
                r = (tag, r, c)
            return r
        if isinstance(node, ast.UnaryOp) and isinstance(node.op, ast.Not):
            return ('not', self.cond(b, node.operand))
        raise Untranslatable('condition %s' % type(node).__name__)

    # -- statements ---------------------------------------------------------
    def block(self, b, stmts):
        for st in stmts:
            self.stmt(b, st)

    def stmt(self, b, st):
        if b.returned is not None:
            raise Untranslatable('statement after return')
        if isinstance(st, ast.Expr):
            if isinstance(st.value, ast.Constant):
                return  # docstring
            if isinstance(st.value, ast.Call) and isinstance(st.value.func, ast.Name) \
                    and st.value.func.id == 'print':
                return
            raise Untranslatable('expression statement')
        if isinstance(st, ast.Assign):
            if len(st.targets) != 1:
                raise Untranslatable('multi-target assign')
            tgt = st.targets[0]
            if isinstance(tgt, ast.Name):
                # literal arrays
                v = st.value
                if isinstance(v, ast.Call) and isinstance(v.func, ast.Attribute) \
                        and v.func.attr == 'array' and isinstance(v.args[0], ast.List):
                    elts = v.args[0].elts
                    if elts and isinstance(elts[0], ast.List):
                        b.constarr2[tgt.id] = [[self.ev(b, x).expr for x in r.elts] for r in elts]
                    else:
                        b.constarr[tgt.id] = [self.ev(b, x).expr for x in elts]
                    return
                if isinstance(v, ast.Call) and isinstance(v.func, ast.Name) and v.func.id == 'len':
                    b.lenvars[tgt.id] = b.env[v.args[0].id].n
                    return
                b.assign(tgt.id, self.ev(b, v))
                return
            if isinstance(tgt, ast.Subscript) and isinstance(tgt.value, ast.Name) and b.loop is not None:
                i = self.index_expr(b, tgt.slice)
                if i[0] != 'ivar':
                    raise Untranslatable('element store with non-loop index')
                v = self.ev(b, st.value)
                if v.kind != 's':
                    raise Untranslatable('vector stored in element')
                nm = tgt.value.id
                ssa = b.fresh(nm + '_e')
                b.loop['lets'].append((ssa, 's', v.expr, tuple(b.guard)))
                b.loop['elem'][nm] = ('var', ssa)
                return
            raise Untranslatable('assign target')
        if isinstance(st, ast.If):
            c = self.cond(b, st.test)
            base = dict(b.env)
            base_elem = dict(b.loop['elem']) if b.loop is not None else None
            b.guard.append(c)
            self.block(b, st.body)
            b.guard.pop()
            env_a = b.env
            elem_a = dict(b.loop['elem']) if b.loop is not None else None
            b.env = dict(base)
            if b.loop is not None:
                b.loop['elem'] = dict(base_elem)
            b.guard.append(('not', c))
            self.block(b, st.orelse)
            b.guard.pop()
            env_b = b.env
            if b.loop is not None:
                elem_b = b.loop['elem']
                merged = {}
                for k in set(elem_a) | set(elem_b):
                    ea = elem_a.get(k, base_elem.get(k))
                    eb = elem_b.get(k, base_elem.get(k))
                    if ea is None or eb is None:
                        # not assigned on one path: previous value of the output element
                        prev = ('idx', b.env_outer_vec(k), ('ivar', b.loop['ivar']))
                        ea = prev if ea is None else ea
                        eb = prev if eb is None else eb
                    if ea == eb:
                        merged[k] = ea
                    else:
                        ssa = b.fresh(k + '_e')
                        b.loop['lets'].append((ssa, 's', ('ite', c, ea, eb), tuple(b.guard)))
                        merged[k] = ('var', ssa)
                b.loop['elem'] = merged
            b.merge(c, env_a, env_b, base)
            return
        if isinstance(st, ast.For):
            self.forloop(b, st)
            return
        if isinstance(st, ast.Return):
            v = st.value
            if isinstance(v, ast.Tuple):
                b.returned = [self.ev(b, x) for x in v.elts]
            else:
                b.returned = [self.ev(b, v)]
            return
        raise Untranslatable('statement %s' % type(st).__name__)

    def forloop(self, b, st):
        if b.loop is not None:
            raise Untranslatable('nested loop')
        if not (isinstance(st.target, ast.Name) and isinstance(st.iter, ast.Call)
                and isinstance(st.iter.func, ast.Name) and st.iter.func.id == 'range'
                and len(st.iter.args) == 1):
            raise Untranslatable('loop header')
        n = self.length_of(b, st.iter.args[0])
        iv = b.fresh_ivar()
        b.loop = {'var': st.target.id, 'ivar': iv, 'lets': [], 'elem': {}}
        outer_env = dict(b.env)
        b.env_outer_vec = lambda k: self.vec_expr(b, outer_env[k])
        self.block(b, st.body)
        loop = b.loop
        b.loop = None
        b.env = outer_env   # scalar temporaries of the body do not escape
        for nm, e in loop['elem'].items():
            ssa = b.fresh(nm)
            b.lets.append((ssa, 'v', ('vmap', n, iv, list(loop['lets']), e), tuple(b.guard)))
            b.env[nm] = vecvar(('var', ssa), n)

    # -- routine ------------------------------------------------------------
    def translate(self, fname, node=None, lean_name=None):
        node = node or self.functions()[fname]
        from lint import lint
        lint(node, Untranslatable, single_assignment_loops=True)
        b = Builder(fname)
        b.returned = None
        b.lenvars = {}
        sh = self.shapes.get(fname, {})
        for a in node.args.args:
            if a.arg == 'self':
                continue
            b.add_param(a.arg, sh.get(a.arg, 's'))
        self.block(b, node.body)
        if b.returned is None:
            raise Untranslatable('no return in %s' % fname)
        rets = []
        for v in b.returned:
            if v.kind == 's':
                rets.append((v.expr, 's'))
            else:
                rets.append((self.vec_expr(b, v), 'v'))
        self.known[fname] = ([k for _p, k in b.params], len(rets), [k for _e, k in rets])
        return {'name': lean_name or fname, 'params': b.params, 'lets': b.lets, 'rets': rets}
