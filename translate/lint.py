"""
Soundness lint shared by py2ir.py and py2ir2.py: constructs whose translation would silently change the meaning of
the routine are REFUSED (Untranslatable → the translator obligation of the check breaks and the failing-input search
runs), never dropped.  Everything here is syntactic and conservative.
"""
import ast


def lint(fn, Untranslatable, single_assignment_loops=False):
    name = fn.name
    if fn.decorator_list:
        raise Untranslatable('%s: decorated function' % name)
    stored = set()                                  # names that are element-assigned somewhere in the routine
    for n in ast.walk(fn):
        if isinstance(n, (ast.Assign, ast.AugAssign)):
            tg = n.targets if isinstance(n, ast.Assign) else [n.target]
            for t in tg:
                if isinstance(t, ast.Subscript) and isinstance(t.value, ast.Name):
                    stored.add(t.value.id)
    for n in ast.walk(fn):
        if isinstance(n, ast.Call) and n.keywords:
            kws = [k.arg for k in n.keywords]
            raise Untranslatable('%s: call with keyword arguments %r (l.%d): their effect (dtype, axis, out, ...) is not modelled'
                                 % (name, kws, n.lineno))
        if isinstance(n, ast.Assign) and len(n.targets) != 1:
            raise Untranslatable('%s: multi-target assignment (l.%d)' % (name, n.lineno))
        if isinstance(n, ast.Assign) and isinstance(n.targets[0], ast.Name) and isinstance(n.value, ast.Name):
            a, b = n.targets[0].id, n.value.id
            if a in stored or b in stored:
                raise Untranslatable('%s: `%s = %s` aliases an array that is element-assigned (l.%d); use np.copy'
                                     % (name, a, b, n.lineno))
        if isinstance(n, (ast.While, ast.Try, ast.With, ast.Global, ast.Nonlocal, ast.Delete, ast.Lambda, ast.Yield)):
            raise Untranslatable('%s: %s (l.%d)' % (name, type(n).__name__, getattr(n, 'lineno', 0)))
    # a `return` below the top level of the body (inside if / for) is not an unconditional return
    top = [s for s in fn.body if isinstance(s, ast.Return)]
    allr = [n for n in ast.walk(fn) if isinstance(n, ast.Return)]
    if len(allr) != len(top):
        raise Untranslatable('%s: conditional return' % name)
    if len(top) > 1 or (top and fn.body[-1] is not top[0]):
        raise Untranslatable('%s: statements after return' % name)
    if single_assignment_loops:
        # py2ir element loops: scalar temporaries of a loop body do not escape and are re-initialised from the
        # state BEFORE the loop in every iteration; a name that is both defined before the loop and assigned in it
        # (running accumulator `x = x + ...`, or a value read after the loop) cannot be expressed
        defined = set(a.arg for a in fn.args.args)
        for st in fn.body:
            if isinstance(st, ast.For):
                for n in ast.walk(st):
                    if isinstance(n, ast.Assign) and isinstance(n.targets[0], ast.Name) and n.targets[0].id in defined:
                        raise Untranslatable('%s: `%s` is defined before the loop at l.%d and assigned inside it '
                                             '(loop-carried scalar)' % (name, n.targets[0].id, st.lineno))
            for n in ast.walk(st):
                if isinstance(n, ast.Assign) and not isinstance(st, ast.For):
                    for t in n.targets:
                        if isinstance(t, ast.Name):
                            defined.add(t.id)
                        elif isinstance(t, ast.Tuple):
                            defined.update(e.id for e in t.elts if isinstance(e, ast.Name))
