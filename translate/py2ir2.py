"""
General imperative-to-functional front end ("full" mode) for the matrix / loop-nest routines of
dbm_p.py and dbm_eos.f95 (coefs, z_pr, fugacity, density): every `for` loop becomes a `List.foldl`
over `List.range'` whose state is the tuple of loop-carried variables, element stores become
`List.set`, numpy broadcasting becomes `List.map` / `List.zipWith`.  Both the Python source and the
Python-subset text that f2ir.py produces from the Fortran source go through THIS executor, so two
line-by-line transcriptions yield syntactically matching Lean terms (pair theorems by `rfl`/`simp`).

Kinds:  's' scalar α | 'v' List α | 'm' List (List α) | 'n' Nat | 't' tuple (call result)
The cubic root finder is not translated: a routine that (transitively) calls `cubic_roots` gets an extra
first parameter `cubic_roots : List α → List α × List α` (real parts, imaginary parts).
"""
import ast
from ir import lit_from_text, f32_rat, lean_num, Untranslatable

TY = {'s': 'α', 'v': 'List α', 'm': 'List (List α)', 'n': 'Nat'}
NPFN = {'exp': 'exp', 'log': 'log', 'log10': 'log10', 'sqrt': 'sqrt', 'abs': 'abs', 'cos': 'cos', 'sin': 'sin'}
CR_TY = 'List α → List α × List α'


class Fn:
    def __init__(self, name):
        self.name = name
        self.counter = {}
        self.needs_cr = False

    def fresh(self, base):
        k = self.counter.get(base, 0) + 1
        self.counter[base] = k
        return '%s_%d' % (base, k)


class Front2:
    def __init__(self, src, shapes, known=None, consts=None):
        self.src = src
        self.tree = ast.parse(src)
        self.shapes = shapes
        self.known = known if known is not None else {}   # name -> dict(kinds, outs, needs_cr)
        self.consts = dict(consts or {})
        for node in self.tree.body:
            if isinstance(node, ast.Assign) and len(node.targets) == 1 and isinstance(node.targets[0], ast.Name) \
                    and isinstance(node.value, ast.Constant) and isinstance(node.value.value, (int, float)):
                self.consts[node.targets[0].id] = ('s', self.num(node.value))

    # ---- literals
    def num(self, node):
        txt = ast.get_source_segment(self.src, node)
        if isinstance(node.value, int) and not isinstance(node.value, bool):
            return lean_num(('nat', node.value)) if False else '(%d : α)' % node.value
        return lean_num(lit_from_text(txt))

    # ---- elementwise helpers
    @staticmethod
    def ew2(op, a, b):
        (ka, ea), (kb, eb) = a, b
        f = (lambda x, y: '(%s %s %s)' % (x, op, y)) if not callable(op) else op
        if ka == 's' and kb == 's':
            return ('s', f(ea, eb))
        if ka == 'v' and kb == 's':
            return ('v', '(%s.map fun x => %s)' % (ea, f('x', eb)))
        if ka == 's' and kb == 'v':
            return ('v', '(%s.map fun y => %s)' % (eb, f(ea, 'y')))
        if ka == 'v' and kb == 'v':
            return ('v', '(List.zipWith (fun x y => %s) %s %s)' % (f('x', 'y'), ea, eb))
        if ka == 'm' and kb == 's':
            return ('m', '(%s.map fun r => r.map fun x => %s)' % (ea, f('x', eb)))
        if ka == 's' and kb == 'm':
            return ('m', '(%s.map fun r => r.map fun y => %s)' % (eb, f(ea, 'y')))
        if ka == 'm' and kb == 'm':
            return ('m', '(List.zipWith (fun r q => List.zipWith (fun x y => %s) r q) %s %s)' % (f('x', 'y'), ea, eb))
        raise Untranslatable('elementwise kinds %s %s' % (ka, kb))

    @staticmethod
    def ew1(f, a):
        k, e = a
        if k == 's':
            return ('s', f(e))
        if k == 'v':
            return ('v', '(%s.map fun x => %s)' % (e, f('x')))
        if k == 'm':
            return ('m', '(%s.map fun r => r.map fun x => %s)' % (e, f('x')))
        raise Untranslatable('unary kind ' + k)

    # ---- expressions
    def ev(self, c, node):
        env = c['env']
        if isinstance(node, ast.Constant):
            if isinstance(node.value, (int, float)) and not isinstance(node.value, bool):
                return ('s', self.num(node))
            raise Untranslatable('constant %r' % (node.value,))
        if isinstance(node, ast.Name):
            if node.id in env:
                return env[node.id]
            if node.id in self.consts:
                return self.consts[node.id]
            raise Untranslatable('unknown name %s in %s' % (node.id, c['fn'].name))
        if isinstance(node, ast.UnaryOp):
            if isinstance(node.op, ast.USub):
                return self.ew1(lambda x: '(-%s)' % x, self.ev(c, node.operand))
            if isinstance(node.op, ast.UAdd):
                return self.ev(c, node.operand)
            raise Untranslatable('unary')
        if isinstance(node, ast.BinOp):
            if isinstance(node.op, ast.Pow):
                base = self.ev(c, node.left)
                ex = node.right
                if isinstance(ex, ast.Constant) and isinstance(ex.value, int) and not isinstance(ex.value, bool) and ex.value >= 0:
                    n = ex.value
                    return self.ew1(lambda x: '(Num.npow %s %d)' % (x, n), base)
                e = self.ev(c, ex)
                return self.ew2(lambda x, y: '(Num.rpow %s %s)' % (x, y), base, e)
            ops = {ast.Add: '+', ast.Sub: '-', ast.Mult: '*', ast.Div: '/'}
            if type(node.op) not in ops:
                raise Untranslatable('binop')
            a, b2 = self.ev(c, node.left), self.ev(c, node.right)
            if a[0] == 'n' and b2[0] == 'n':
                return ('n', '(%s %s %s)' % (a[1], ops[type(node.op)], b2[1]))
            return self.ew2(ops[type(node.op)], a, b2)
        if isinstance(node, ast.Call):
            return self.call(c, node)
        if isinstance(node, ast.Subscript):
            return self.subscript(c, node)
        raise Untranslatable('expr %s' % type(node).__name__)

    def nat(self, c, node):
        """Nat-valued expression (indices, lengths, loop bounds)"""
        if isinstance(node, ast.Constant) and isinstance(node.value, int):
            return '%d' % node.value
        if isinstance(node, ast.Name):
            k, e = c['env'].get(node.id, (None, None))
            if k == 'n':
                return e
            raise Untranslatable('index name %s (kind %s)' % (node.id, k))
        if isinstance(node, ast.Call) and isinstance(node.func, ast.Name) and node.func.id == 'len':
            k, e = self.ev(c, node.args[0])
            return '%s.length' % e
        if isinstance(node, ast.BinOp) and isinstance(node.op, (ast.Add, ast.Sub)):
            return '(%s %s %s)' % (self.nat(c, node.left), '+' if isinstance(node.op, ast.Add) else '-', self.nat(c, node.right))
        raise Untranslatable('nat expression %s' % ast.dump(node))

    def subscript(self, c, node):
        if not isinstance(node.value, ast.Name):
            raise Untranslatable('subscript base')
        k, e = self.ev(c, node.value)
        sl = node.slice
        if k == 'v':
            return ('s', '(%s.getD %s 0)' % (e, self.nat(c, sl)))
        if k == 'm':
            if not (isinstance(sl, ast.Tuple) and len(sl.elts) == 2):
                raise Untranslatable('matrix subscript')
            i, j = sl.elts
            isl = lambda x: isinstance(x, ast.Slice) and x.lower is None and x.upper is None
            if isl(i) and not isl(j):
                return ('v', '(%s.map fun r => r.getD %s 0)' % (e, self.nat(c, j)))
            if isl(j) and not isl(i):
                return ('v', '(%s.getD %s [])' % (e, self.nat(c, i)))
            return ('s', '((%s.getD %s []).getD %s 0)' % (e, self.nat(c, i), self.nat(c, j)))
        if k == 'cvre' or k == 'cvim':
            raise Untranslatable('complex subscript outside real/imag')
        raise Untranslatable('subscript of kind %s' % k)

    def call(self, c, node):
        f = node.func
        fn = c['fn']
        if isinstance(f, ast.Attribute) and isinstance(f.value, ast.Name) and f.value.id == 'np':
            nm = f.attr
            if nm in NPFN:
                g = NPFN[nm]
                return self.ew1(lambda x: '(Num.%s %s)' % (g, x), self.ev(c, node.args[0]))
            if nm == 'sum':
                k, e = self.ev(c, node.args[0])
                if k != 'v':
                    raise Untranslatable('np.sum of kind ' + k)
                return ('s', '(Num.sum %s)' % e)
            if nm == 'zeros':
                a = node.args[0]
                if isinstance(a, ast.Tuple):
                    r, cc = self.nat(c, a.elts[0]), self.nat(c, a.elts[1])
                    return ('m', '(List.replicate %s (List.replicate %s (0 : α)))' % (r, cc))
                if isinstance(a, ast.Attribute) and a.attr == 'shape':
                    k, e = self.ev(c, a.value)
                    if k == 'v':
                        return ('v', '(List.replicate %s.length (0 : α))' % e)
                    raise Untranslatable('zeros(shape of %s)' % k)
                return ('v', '(List.replicate %s (0 : α))' % self.nat(c, a))
            if nm in ('real', 'imag'):
                # np.real(z_roots[i]) / np.imag(z_roots[i]) on the root finder's result
                a = node.args[0]
                if isinstance(a, ast.Subscript) and isinstance(a.value, ast.Name):
                    k, e = self.ev(c, a.value)
                    if k == 'cv':
                        return ('s', '(%s.%s.getD %s 0)' % (e, '1' if nm == 'real' else '2', self.nat(c, a.slice)))
                raise Untranslatable('np.%s argument' % nm)
            if nm == 'copy':
                return self.ev(c, node.args[0])
            if nm == 'isnan':
                raise Untranslatable('isnan outside condition')
            raise Untranslatable('np.' + nm)
        if isinstance(f, ast.Name):
            if f.id == 'f32':
                return ('s', lean_num(f32_rat(node.args[0].value)))
            if f.id == 'len':
                return ('n', self.nat(c, node))
            if f.id == 'cubic_roots':
                fn.needs_cr = True
                k, e = self.ev(c, node.args[0])
                return ('cv', '(cubic_roots %s)' % e)
            if f.id in self.known:
                info = self.known[f.id]
                args = []
                if info['needs_cr']:
                    fn.needs_cr = True
                    args.append('cubic_roots')
                if len(node.args) != len(info['kinds']):
                    raise Untranslatable('arity of %s' % f.id)
                for a, k in zip(node.args, info['kinds']):
                    ka, ea = self.ev(c, a)
                    if ka != k:
                        raise Untranslatable('argument kind %s for %s param of %s' % (ka, k, f.id))
                    args.append(ea)
                e = '(%s %s)' % (f.id, ' '.join(args))
                if len(info['outs']) == 1:
                    return (info['outs'][0], e)
                return ('t:' + ''.join(info['outs']), e)
        raise Untranslatable('call %s' % ast.dump(f)[:80])

    def cond(self, c, node):
        if isinstance(node, ast.Compare) and len(node.ops) == 1:
            a, b2 = self.ev(c, node.left), self.ev(c, node.comparators[0])
            if a[0] != 's' or b2[0] != 's':
                raise Untranslatable('compare kinds')
            op = type(node.ops[0])
            x, y = a[1], b2[1]
            if op is ast.Lt:
                return '(%s < %s)' % (x, y)
            if op is ast.LtE:
                return '(%s ≤ %s)' % (x, y)
            if op is ast.Gt:
                return '(%s < %s)' % (y, x)
            if op is ast.GtE:
                return '(%s ≤ %s)' % (y, x)
            if op is ast.Eq:
                return '(%s ≤ %s ∧ %s ≤ %s)' % (x, y, y, x)
            raise Untranslatable('compare op')
        if isinstance(node, ast.BoolOp):
            cs = [self.cond(c, v) for v in node.values]
            j = ' ∧ ' if isinstance(node.op, ast.And) else ' ∨ '
            r = cs[0]
            for x in cs[1:]:
                r = '(%s%s%s)' % (r, j, x)
            return r
        if isinstance(node, ast.UnaryOp) and isinstance(node.op, (ast.Not, ast.Invert)):
            return '(¬ %s)' % self.cond(c, node.operand)
        if isinstance(node, ast.Call) and isinstance(node.func, ast.Attribute) and node.func.attr == 'isnan':
            k, e = self.ev(c, node.args[0])
            return '(¬ (%s ≤ %s))' % (e, e)
        raise Untranslatable('condition %s' % type(node).__name__)

    # ---- statements
    def bind(self, c, name, val):
        k, e = val
        ssa = c['fn'].fresh(name)
        if k.startswith('t:') or k == 'cv':
            c['lets'].append('let %s := %s' % (ssa, e))
        else:
            c['lets'].append('let %s : %s := %s' % (ssa, TY[k], e))
        c['env'][name] = (k, ssa)
        return ssa

    def stmt(self, c, st):
        if c.get('ret') is not None:
            raise Untranslatable('statement after return')
        if isinstance(st, ast.Expr):
            if isinstance(st.value, ast.Constant):
                return
            if isinstance(st.value, ast.Call) and isinstance(st.value.func, ast.Name) and st.value.func.id == 'print':
                return
            raise Untranslatable('expression statement')
        if isinstance(st, ast.AugAssign):
            st = ast.Assign(targets=[st.target], value=ast.BinOp(left=copy_load(st.target), op=st.op, right=st.value))
        if isinstance(st, ast.Assign):
            tgt = st.targets[0]
            if isinstance(tgt, ast.Tuple):
                val = self.ev(c, st.value)
                if not val[0].startswith('t:'):
                    raise Untranslatable('tuple assign from non-call')
                kinds = val[0][2:]
                tmp = c['fn'].fresh('call')
                c['lets'].append('let %s := %s' % (tmp, val[1]))
                n = len(kinds)
                if n != len(tgt.elts):
                    raise Untranslatable('tuple arity')
                for i, (t, k) in enumerate(zip(tgt.elts, kinds)):
                    proj = '.1' if i == 0 else ('.2' * i + ('.1' if i < n - 1 else ''))
                    self.bind(c, t.id, (k, '%s%s' % (tmp, proj)))
                return
            if isinstance(tgt, ast.Name):
                self.bind(c, tgt.id, self.ev(c, st.value))
                return
            if isinstance(tgt, ast.Subscript) and isinstance(tgt.value, ast.Name):
                nm = tgt.value.id
                k, e = c['env'][nm]
                val = self.ev(c, st.value)
                sl = tgt.slice
                if k == 'v':
                    if val[0] != 's':
                        raise Untranslatable('vector element store of kind ' + val[0])
                    self.bind(c, nm, ('v', '(%s.set %s %s)' % (e, self.nat(c, sl), val[1])))
                    return
                if k == 'm' and isinstance(sl, ast.Tuple) and len(sl.elts) == 2:
                    i, j = sl.elts
                    isl = lambda x: isinstance(x, ast.Slice) and x.lower is None and x.upper is None
                    if isl(j) and not isl(i):
                        if val[0] != 'v':
                            raise Untranslatable('row store of kind ' + val[0])
                        self.bind(c, nm, ('m', '(%s.set %s %s)' % (e, self.nat(c, i), val[1])))
                        return
                    if isl(i) and not isl(j):
                        # column store M[:, j] = vector
                        if val[0] != 'v':
                            raise Untranslatable('column store of kind ' + val[0])
                        jj = self.nat(c, j)
                        self.bind(c, nm, ('m', '(List.zipWith (fun r x => r.set %s x) %s %s)' % (jj, e, val[1])))
                        return
                    if val[0] != 's':
                        raise Untranslatable('matrix element store of kind ' + val[0])
                    ii, jj = self.nat(c, i), self.nat(c, j)
                    self.bind(c, nm, ('m', '(%s.set %s ((%s.getD %s []).set %s %s))' % (e, ii, e, ii, jj, val[1])))
                    return
            raise Untranslatable('assign target')
        if isinstance(st, ast.If):
            cd = self.cond(c, st.test)
            base = dict(c['env'])
            self.block(c, st.body)
            env_a = c['env']
            c['env'] = dict(base)
            self.block(c, st.orelse)
            env_b = c['env']
            out = {}
            for k in base:
                a, b2 = env_a.get(k), env_b.get(k)
                if a == b2:
                    out[k] = a
            c['env'] = out
            for k in sorted(set(env_a) & set(env_b)):
                a, b2 = env_a[k], env_b[k]
                if a != b2:
                    if a[0] != b2[0]:
                        raise Untranslatable('kind mismatch at merge of %s' % k)
                    self.bind(c, k, (a[0], '(if %s then %s else %s)' % (cd, a[1], b2[1])))
            return
        if isinstance(st, ast.For):
            self.forloop(c, st)
            return
        if isinstance(st, ast.Return):
            v = st.value
            vals = [self.ev(c, x) for x in v.elts] if isinstance(v, ast.Tuple) else [self.ev(c, v)]
            c['ret'] = vals
            return
        raise Untranslatable('statement %s' % type(st).__name__)

    def block(self, c, stmts):
        for s in stmts:
            self.stmt(c, s)

    def forloop(self, c, st):
        if not (isinstance(st.target, ast.Name) and isinstance(st.iter, ast.Call) and isinstance(st.iter.func, ast.Name)
                and st.iter.func.id == 'range' and 1 <= len(st.iter.args) <= 2):
            raise Untranslatable('loop header')
        if len(st.iter.args) == 1:
            lo, hi = '0', self.nat(c, st.iter.args[0])
        else:
            lo, hi = self.nat(c, st.iter.args[0]), self.nat(c, st.iter.args[1])
        assigned = []
        for n in ast.walk(ast.Module(body=st.body, type_ignores=[])):
            t = None
            if isinstance(n, ast.Assign):
                t = n.targets[0]
            elif isinstance(n, ast.AugAssign):
                t = n.target
            if t is None:
                continue
            names = [x for x in (t.elts if isinstance(t, ast.Tuple) else [t])]
            for x in names:
                nm = x.id if isinstance(x, ast.Name) else (x.value.id if isinstance(x, ast.Subscript) and isinstance(x.value, ast.Name) else None)
                if nm and nm not in assigned:
                    assigned.append(nm)
        carried = [a for a in assigned if a in c['env'] and c['env'][a][0] in TY]
        fn = c['fn']
        iv = fn.fresh(st.target.id)
        inner = {'fn': fn, 'env': dict(c['env']), 'lets': [], 'ret': None}
        inner['env'][st.target.id] = ('n', iv)
        params = []
        for a in carried:
            k = c['env'][a][0]
            p = fn.fresh(a)
            params.append((a, k, p))
            inner['env'][a] = (k, p)
        self.block(inner, st.body)
        if inner['ret'] is not None:
            raise Untranslatable('return inside loop')
        if not carried:
            return      # a loop without effect on visible state
        tys = ' × '.join(TY[k] for _a, k, _p in params)
        n = len(params)

        def proj(i):
            if n == 1:
                return 'st'
            return 'st' + ('.1' if i == 0 else ('.2' * i + ('.1' if i < n - 1 else '')))
        body = ''
        for i, (a, k, p) in enumerate(params):
            body += 'let %s : %s := %s; ' % (p, TY[k], proj(i))
        for l in inner['lets']:
            body += l + '; '
        res = ', '.join(inner['env'][a][1] for a, _k, _p in params)
        init = ', '.join(c['env'][a][1] for a, _k, _p in params)
        fold = c['fn'].fresh('fold')
        c['lets'].append('let %s : %s := (List.range\' %s (%s - %s)).foldl (fun (st : %s) (%s : Nat) => %s(%s)) (%s)'
                         % (fold, tys, lo, hi, lo, tys, iv, body, res, init))
        for i, (a, k, p) in enumerate(params):
            pr = fold if n == 1 else fold + ('.1' if i == 0 else ('.2' * i + ('.1' if i < n - 1 else '')))
            self.bind(c, a, (k, pr))

    # ---- routine
    def translate(self, fname, lean_name=None):
        node = {n.name: n for n in self.tree.body if isinstance(n, ast.FunctionDef)}[fname]
        from lint import lint
        lint(node, Untranslatable)
        fn = Fn(fname)
        c = {'fn': fn, 'env': {}, 'lets': [], 'ret': None}
        sh = self.shapes.get(fname, {})
        params = []
        for a in node.args.args:
            k = sh.get(a.arg, 's')
            p = a.arg + '_0'
            params.append((p, k))
            c['env'][a.arg] = (k, p)
        self.block(c, node.body)
        if c['ret'] is None:
            raise Untranslatable('no return in %s' % fname)
        outs = [k for k, _e in c['ret']]
        for k in outs:
            if k not in TY:
                raise Untranslatable('return kind %s' % k)
        self.known[fname] = {'kinds': [k for _p, k in params], 'outs': outs, 'needs_cr': fn.needs_cr}
        ps = ' '.join('(%s : %s)' % (p, TY[k]) for p, k in params)
        if fn.needs_cr:
            ps = '(cubic_roots : %s) ' % CR_TY + ps
        rty = ' × '.join(TY[k] for k in outs)
        text = 'def %s {α : Type} [Num α] %s : %s :=\n' % (lean_name or fname, ps, rty)
        for l in c['lets']:
            text += '  ' + l + '\n'
        text += '  (%s)\n' % ', '.join(e for _k, e in c['ret'])
        return {'name': lean_name or fname, 'params': params, 'outs': outs, 'needs_cr': fn.needs_cr, 'text': text}


def copy_load(t):
    import copy
    x = copy.deepcopy(t)
    for n in ast.walk(x):
        if hasattr(n, 'ctx'):
            n.ctx = ast.Load()
    return x
